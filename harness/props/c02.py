"""C02 — OFDM round trip, cyclic prefix, guard bands, one-tap equalisation (DESIGN.md §5 C02).

Tie to source
 (a) Generated/OfdmIndex.lean is re-emitted from ofdm.py on every run
     (set_parameters guards, _calc_zeropad, the three subcarrier-index functions,
     _calculate_power_scale); Proofs/C02Gen.lean shows them equal to the normal
     forms the theorems are about, so an edit of those functions re-opens the proofs;
 (b) the rest (prepare / CP / reshape / gather, modulate, demodulate, the SISO
     TDL channel, get_freq_response, equalize_data) is a hand model tied by
     correspondence: exact on integer tokens for the index layer (exhaustive over
     all small configurations), 1e-9 on the numeric layer against the driver's
     O(N^2) binary64 DFT.
Robustness classes R1-R14 live in this file, R15 (close-but-distinct values) and R16
(argument identity / buffer reuse) in the helper module c02_close_reuse.py.
"""
import math

import numpy as np

from harness import core

MODULE = 'PyPhysim.Properties.C02'
DRIVER = 'drv_c02'
CLAIM = {
    'technique': 'Lean 4 theorems over any field with a primitive N-th root of unity (index bijections, DFT '
                 'orthogonality/inversion, cyclic prefix => circular convolution, convolution theorem, one-tap '
                 'equalisation) on a model whose index functions are regenerated from the source, + exhaustive '
                 'small-scope token correspondence + 1e-9 numeric correspondence against an O(N^2) binary64 DFT',
    'text': 'Kernel-checked for ALL valid (fft, cp, used), all input lengths and all inputs: set_parameters accepts '
            'exactly 0<=cp<=fft, used even, 2<=used<=fft (any call history keeps the object valid); the used-index '
            'list has `used` distinct in-range entries and, when used<fft, misses exactly DC and the outer band; the '
            'emitted signal has ceil(n/used)*(fft+cp) samples, each prefix sample equals the sample fft later in the '
            'same symbol; the IFFT input and the transform of every emitted symbol body vanish on DC/guard bins; '
            'demodulate(modulate(x)) = x ++ zeros for every kernel pair with fft(ifft v)=v + homogeneity and every '
            'non-zero scale, and the textbook DFT (any primitive root; exp(-2 pi i/N) in C) is proved to satisfy '
            'that contract; after any time-invariant tapped-delay-line channel with memory <= cp and memory < fft '
            'whose response is non-zero on the used carriers, demodulate + one-tap equaliser fed with the reported '
            'impulse response returns x ++ zeros exactly (cp makes the convolution circular, DFT turns it into a '
            'per-carrier product, get_freq_response is that factor, the scale factors cancel). The corner memory = '
            'cp = fft is a proved NEGATIVE witness (known finding). set_parameters, _calc_zeropad, '
            'get_used_subcarrier_indexes and _calculate_power_scale are re-translated from ofdm.py on every run and '
            'proved equal to / positive for the normal forms; the rest of the model is tied by exact comparison on '
            'integer tokens for every (fft<=12 quick / 32 thorough, cp, used) and by 1e-9 numeric comparison of '
            'modulate, demodulate, TdlChannel.corrupt_data, get_freq_response and equalize_data (static and '
            'time-varying channels, memory below/at/beyond cp and fft, error branches). The (OFDM object, '
            'long-lived equaliser) pair is a state machine (set_parameters valid|invalid / modulate / demodulate / '
            'equalize): after ANY history the object holds the last accepted valid triple and every operation equals '
            'that of a freshly built pair (the equaliser keeps a reference, no derived copy), so round trip and '
            'one-tap exactness hold after any history; tied by seeded + structured histories of 1-5 '
            're-configurations on ONE OFDM object with ONE equaliser compared step by step with the model, and the '
            'onetap_history oracle compares the long-lived pair with a fresh pair and with the transmitted symbols.',
    'note': 'Trusted: Lean kernel, std axioms, harness/gen/c02.py (numpy idioms arange / r_ / hstack / fftshift / '
            'slices / int(ceil(float(a)/b)) -> list functions; the float ceiling is read as exact), correspondence '
            'harness. np.fft is an oracle: its agreement with the textbook DFT is checked numerically on the cases '
            'run, never proved. Partial: one_tap_exact needs memory < fft (forced: np.fft.fft(taps, fft) crops; '
            'negative witness proved and replayed) and H[k] != 0 on used carriers (division). The impulse response '
            'is taken as reported by the channel; how TdlChannel draws and discretises it belongs to C03. '
            'binary64 rounding is outside every theorem. Robustness classes: R4 (a raising call leaves the pair '
            'unchanged: pair_rejected_unchanged, params_step_spec), R5 deep notches / R6 scale (one_tap_exact needs '
            'only H != 0, freq_response_scales, one_tap_exact_scaled; every comparison of the harness is relative to '
            'the input magnitude and to the conditioning max|H|/min|H_used|) and R7 (pair_equals_fresh, '
            'pair_one_tap_after_history) are covered by THEOREM plus correspondence and oracles; R1 (narrow numpy '
            'integer parameters, integer / float16 / float32 / complex64 arrays, float parameters rejected), R2 '
            '(strided, reversed, offset, Fortran-column, broadcast, read-only views, 0-d, size-0, 2-D/3-D rejected or '
            'flattened) and R3 (arguments snapshotted and compared after the call and after later calls, outputs never '
            'alias inputs, each other or internal buffers) are covered by CORRESPONDENCE and ORACLES only: the model '
            'is a pure function of the logical values by construction, which is what the code is compared against. '
            'Tap profiles are also given reversed, shuffled and with paths that collide after rounding to the '
            'sampling grid (memory <= cp): the reported taps must sit on the sorted distinct samples with the merged '
            'powers (first-principles check in onetap / onetap_history / the channel correspondence), an exception on '
            'such a profile is a failure (channel-raises:<order>-profile). '
            'Second robustness round: R8 argument forms (positional / keyword / mixed / default omitted / None / explicit '
            'default; constructor vs set_parameters vs later replacement; keyword calls of modulate, demodulate, '
            'equalize_data, get_freq_response; TdlChannel through tap arrays, a profile object, a pre-discretised '
            'profile, positionally, with Ts defaulted) - THEOREM (params_default_used, params_constructor_eq_setter) + '
            'correspondence + oracle `forms`; R9 index/count arguments (np.intp, int64, int32, uint16, 0-d arrays, bool cp, '
            'distinct python ints above 256 at sizes 258 / 300 / 512 - identity vs equality) - correspondence + oracle '
            '`indexarg` (the model works on mathematical integers); R10 heterogeneous collections: the API has no '
            'list-of-arrays argument, the only case is integer-dtype tap arrays next to float ones - correspondence + '
            'oracle; R11 non-mutating API (index queries, private calc helpers, repr, every property of impulse '
            'response / profile / channel, get_freq_response with the caller overwriting the result, scaled copies, '
            'the Agg plot helper, the processing methods) between the mutators of histories - THEOREM (pair_queries_pure, '
            'pair_step_state; the model got the query operations usedIndexes / zeropadOf, driver ops idx / zp) + '
            'correspondence + oracle `nomutate`; R12 container order: there is no dict / set container in this API, '
            'the listing order of the paths of a profile is the only order that is not part of the logical value - '
            'correspondence + oracle `order`; R13 derived objects (an impulse response taken from the channel still '
            'equalises its block after later transmissions, scaled copies, returned arrays, discretised child '
            'profiles) - correspondence + oracle `derived` (values are immutable in the model); R14 counts of 257 / 258 / '
            '300 taps, OFDM symbols and fft sizes, 2^16+1 input symbols (fft 65537 in thorough) - oracles for all, '
            'correspondence for taps, symbols, input length and the index layer (the numeric model DFT is cubic on '
            'lists and is not run above fft 64). A library exception escaping an oracle is reported as a failing '
            'input (call library-exception), never as exit 2. '
            'Python lists are not accepted by the API (ndarray only). Each class has its own required branches '
            '(R*:corr, R*:oracle*) and failure classes computed from the input (R1:param-<type>, R1:array-<dtype>:*, '
            'R2:<layout>:*, R3:input-mutated:<call>:<what>, R4:*, ...,notch<=1e-3 / ,input-scale<1e-6 qualifiers). '
            'Third robustness round (harness/props/c02_close_reuse.py): R15 distinct values that are merely close - '
            'THEOREM (params_exact_comparison, setter_takes_effect_for_every_new_value, all_used_branch_exact, '
            'index_map_exact, freq_response_exact: the model compares exactly, the all-subcarriers branch is taken at '
            'used = fft only, no perturbation of the taps is ignored) + correspondence (index map, padding and guards at '
            'fft 2^18 / 200003 with used = fft - 2 | fft - 1; pair histories on close families of signals and channels; '
            'impulse responses varying by 1e-6 / 1e-10 / one ulp inside an OFDM symbol) + oracle `close` (families: '
            'magnitudes 1e-9 / 1e-12 / 1e-15, 2.4e9 with relative steps of 1e-6, adjacent doubles, 13th decimal; close '
            'integers; path powers 1e-5 dB apart and all below -90 dB; sampling intervals 1e-15 .. 2.4e9; paths 1e-9 of a '
            'sample on either side of a half sample, generated with that margin; every member is compared with a fresh '
            'first-principles computation for THAT value on ONE long-lived object, and bit for bit with a fresh object). '
            'R16 argument identity and buffer reuse - THEOREM (pair_result_depends_on_contents_only, '
            'pair_earlier_results_unchanged, pair_equals_fresh: the model has values, no array objects) + correspondence '
            '(pair histories with the implementation handed ONE preallocated array per role, refilled in place, or views '
            'of one big array) + oracle `reuse` (histories of 2-4 transmissions through ONE OFDM object, ONE equaliser, ONE '
            'channel object and ONE user-built TdlImpulseResponse over a refilled buffer: modulate, corrupt_data, '
            'demodulate, equalize_data, get_freq_response each against first principles for the contents at call time, '
            'equal-content copies, the argument overwritten right after the call, earlier results re-compared after every '
            'round; the same array as modulate and demodulate argument, as tap powers and tap delays, as data and tap '
            'values; one profile object in channels of different sampling intervals). TdlImpulseResponse keeps a '
            'reference to the tap array it is built on (by design of the library; its cached dense form `tap_values` is '
            'not part of this property and is not checked).',
}

TOL = 1e-9


# ------------------------------------------------------------------ implementation adapters
def _ofdm():
    from pyphysim.modulators import ofdm
    return ofdm


def _fading():
    from pyphysim.channels import fading, fading_generators
    return fading, fading_generators


def valid(fft, cp, used):
    return 0 <= cp <= fft and used <= fft and used % 2 == 0 and used >= 2


def make_static_channel(delays, powers_db, draw, Ts=1.0):
    """the real TdlChannel, its Rayleigh generator replaced by a scripted time-invariant draw
    (one complex gain per discretised tap, repeated for every sample)"""
    fading, fg = _fading()

    class StaticGen(fg.RayleighSampleGenerator):
        def __init__(self, vals):
            self._vals = np.asarray(vals, dtype=complex)
            super().__init__(shape=None)

        def generate_more_samples(self, num_samples=None):
            n = 1 if num_samples is None else int(num_samples)
            k = self._shape[0] if self._shape else 1
            v = np.resize(self._vals, k)
            self._samples = np.repeat(v[:, None], n, axis=1)

        def skip_samples_for_next_generation(self, num_samples):
            pass

    return fading.TdlChannel(StaticGen(draw), tap_powers_dB=np.array(powers_db, dtype=float),
                             tap_delays=np.array(delays, dtype=float) * Ts, Ts=Ts)


def make_rayleigh_channel(delays, powers_db, seed):
    fading, fg = _fading()
    np.random.seed(seed % (2 ** 32))
    return fading.TdlChannel(fg.RayleighSampleGenerator(), tap_powers_dB=np.array(powers_db, dtype=float),
                             tap_delays=np.array(delays, dtype=float), Ts=1.0)


def cx(pairs):
    return np.array([complex(a, b) for a, b in pairs], dtype=complex)


def pairs(z):
    return [[float(c.real), float(c.imag)] for c in np.asarray(z, dtype=complex).ravel()]


# ------------------------------------------------------------------ first-principles helpers (oracles)
def dft_matrix(n, sign=-1.0):
    k = np.arange(n)
    return np.exp(sign * 2j * np.pi * ((k[:, None] * k[None, :]) % n) / n)


def direct_convolution(taps_dense, x):
    """y[m] = sum_d h[d] x[m-d], written out"""
    y = np.zeros(len(x) + len(taps_dense) - 1, dtype=complex)
    for d, h in enumerate(taps_dense):
        if h != 0:
            for m in range(len(x)):
                y[m + d] += h * x[m]
    return y


def expected_padding(n, used):
    return (-n) % used


def guard_bins(fft, used):
    """bins that must be silent when used < fft: DC and every |k| > used/2 (k taken in (-fft/2, fft/2])"""
    h = used // 2
    out = []
    for b in range(fft):
        k = b if b <= fft // 2 else b - fft          # signed subcarrier number of bin b
        if fft % 2 == 0 and b == fft // 2:
            k = fft // 2                                # Nyquist bin: |k| = fft/2
        if k == 0 or abs(k) > h:
            out.append(b)
    return out


# ------------------------------------------------------------------ oracles on the real code
def sig_scale(x):
    """magnitude every comparison is relative to (R6): the largest |sample| of the data; 1 for all-zero data"""
    x = np.asarray(x)
    m = float(np.max(np.abs(x))) if x.size else 0.0
    return m if m > 0 else 1.0


def scale_class(x):
    """class qualifier computed from the input magnitude"""
    x = np.asarray(x)
    m = float(np.max(np.abs(x))) if x.size else 0.0
    if m == 0.0:
        return ',all-zero-input' if x.size else ''
    if m < 1e-6:
        return ',input-scale<1e-6'
    if m > 1e6:
        return ',input-scale>1e6'
    return ''


def used_bins(fft, used):
    """bins carrying data, from first principles: all of them, or signed subcarrier numbers +-1..+-used/2"""
    silent = set(guard_bins(fft, used)) if used < fft else set()
    return [b for b in range(fft) if b not in silent]


def count_class(case):
    """qualifier for large COUNTS (R14), computed from the input"""
    q = ''
    if case.get('fft', 0) > 256:
        q += ',fft>256'
    n = len(case.get('x', []))
    if case.get('used') and n / case['used'] > 256:
        q += ',symbols>256'
    if n > 65536:
        q += ',input>2^16'
    if len(case.get('delays', [])) > 256:
        q += ',taps>256'
    return q


def cfg_class(case):
    fft, cp, used = case['fft'], case['cp'], case['used']
    c = 'used<fft' if used < fft else 'used==fft'
    if cp == 0:
        c += ',cp==0'
    elif cp == fft:
        c += ',cp==fft'
    return c + count_class(case)


def o_constructor(case):
    """every valid triple is accepted; everything else raises ValueError and leaves an existing object unchanged"""
    o = _ofdm()
    fft, cp, used = case['fft'], case['cp'], case['used']
    u = fft if used is None else used
    ok = valid(fft, cp, u)
    try:
        obj = o.OFDM(fft, cp, used)
        acc = True
    except ValueError:
        acc = False
    except Exception as e:
        return 'constructor-wrong-exception', type(e).__name__
    if acc != ok:
        return ('rejects-valid' if ok else 'accepts-invalid'), 'OFDM(%r,%r,%r)' % (fft, cp, used)
    if acc and (obj.fft_size, obj.cp_size, obj.num_used_subcarriers) != (fft, cp, u):
        return 'constructor-state', repr((obj.fft_size, obj.cp_size, obj.num_used_subcarriers))
    return None


def o_history(case):
    """a sequence of set_parameters calls on one object: every call with a valid triple stores exactly that
    triple, every other call raises ValueError and leaves the object as it was; after the history the object
    still modulates / demodulates a probe vector correctly"""
    o = _ofdm()
    f, c, u = case['init']
    obj = o.OFDM(f, c, u)
    cur = (f, c, u)
    for k, (f, c, u) in enumerate(case['ops']):
        uu = f if u is None else u
        try:
            obj.set_parameters(f, c, u)
            raised = False
        except ValueError:
            raised = True
        except Exception as e:
            return 'history-wrong-exception', 'op %d: %s' % (k, type(e).__name__)
        if valid(f, c, uu):
            if raised:
                return 'history-rejects-valid', 'op %d %r' % (k, (f, c, u))
            cur = (f, c, uu)
        elif not raised:
            return 'history-accepts-invalid', 'op %d %r' % (k, (f, c, u))
        if (obj.fft_size, obj.cp_size, obj.num_used_subcarriers) != cur:
            return 'history-state', 'after op %d: %r, expected %r' % (k, (obj.fft_size, obj.cp_size, obj.num_used_subcarriers), cur)
    x = np.arange(1, cur[2] + 2).astype(complex)
    back = obj.demodulate(np.array(obj.modulate(x.copy()), copy=True))
    if back.size < x.size or float(np.max(np.abs(back[:x.size] - x))) > 1e-9 * x.size:
        return 'history-roundtrip', 'object unusable after the history'
    return None


def relation(built, cur):
    """how the configuration in force differs from the one the equaliser was built on (class suffix)"""
    if built[0] != cur[0]:
        return 'fft-grown' if cur[0] > built[0] else 'fft-shrunk'
    if built[2] != cur[2]:
        return 'used-changed'
    if built[1] != cur[1]:
        return 'cp-changed'
    return 'unchanged'


def o_onetap_history(case):
    """ONE OFDM object and ONE long-lived equaliser built on it; the object is re-configured with
    set_parameters (valid and invalid calls); after every call the full transmit - static channel -
    demodulate - equalise round trip through the long-lived pair must (a) not raise, (b) equal what a
    freshly built pair with the current configuration gives, (c) recover the symbols"""
    o = _ofdm()
    f, c, u = case['init']
    obj = o.OFDM(f, c, u)
    eqz = o.OfdmOneTapEqualizer(obj)
    built = (f, c, u)
    cur = built
    eqz2 = None
    for k, st in enumerate(case['steps']):
        f, c, u = st['set']
        uu = f if u is None else u
        if k == case.get('second_eq_at', -1):
            eqz2 = o.OfdmOneTapEqualizer(obj)            # a second user of the SAME OFDM object
        if st.get('direct') and valid(f, c, uu):
            # public attributes assigned directly, bypassing set_parameters
            obj.fft_size, obj.cp_size, obj.num_used_subcarriers = f, c, uu
            raised = False
        else:
            try:
                obj.set_parameters(f, c, u)
                raised = False
            except ValueError:
                raised = True
        if valid(f, c, uu):
            if raised:
                return 'history-rejects-valid', 'step %d %r' % (k, (f, c, u))
            cur = (f, c, uu)
        elif not raised:
            return 'history-accepts-invalid', 'step %d %r' % (k, (f, c, u))
        if (obj.fft_size, obj.cp_size, obj.num_used_subcarriers) != cur:
            return 'history-state', 'after step %d' % k
        rel = relation(built, cur)
        x = cx(st['x'])
        kind = profile_kind(st['delays'])
        exp_idx, _ = expected_discretisation(st['delays'], st['powers_dB'])
        try:
            ch = make_static_channel(st['delays'], st['powers_dB'], cx(st['draw']))
        except Exception as e:
            return 'history-channel-raises:%s-profile' % kind, 'step %d delays %r: %s' % (k, st['delays'], type(e).__name__)
        memory = exp_idx[-1]
        if memory > cur[1] or memory >= cur[0]:
            continue
        if [int(v) for v in np.asarray(ch.channel_profile.tap_delays)] != exp_idx:
            return 'profile-discretisation:%s-profile' % kind, 'step %d: taps on %r, paths %r fall on %r' % (
                k, [int(v) for v in np.asarray(ch.channel_profile.tap_delays)], st['delays'], exp_idx)
        fresh = o.OFDM(*cur)
        fresh_eq = o.OfdmOneTapEqualizer(fresh)
        try:
            tx = obj.modulate(x.copy())
            rx = ch.corrupt_data(np.array(tx, copy=True))
            ir = ch.get_last_impulse_response()
            dem = obj.demodulate(np.array(rx[:tx.size], copy=True))
            out = eqz.equalize_data(np.array(dem, copy=True), ir)
        except Exception as e:
            return 'history-raises:' + rel + ('' if kind == 'sorted' else ',%s-profile' % kind), \
                'step %d, configuration %r, delays %r: %s: %s' % (k, cur, st['delays'], type(e).__name__, str(e)[:150])
        tx2 = fresh.modulate(x.copy())
        dem2 = fresh.demodulate(np.array(rx[:tx.size], copy=True))
        out2 = fresh_eq.equalize_data(np.array(dem2, copy=True), ir)
        if tx.shape != tx2.shape or not np.array_equal(tx, tx2) or dem.shape != dem2.shape or not np.array_equal(dem, dem2):
            return 'stale-ofdm:' + rel, 'step %d: modulate/demodulate of the re-configured object differ from a fresh OFDM%r' % (k, cur)
        again = eqz.equalize_data(np.array(dem, copy=True), ir)      # repeated call: same answer
        if again.shape != out.shape or not np.array_equal(again, out, equal_nan=True):
            return 'repeated-call-differs:' + rel, 'step %d' % k
        if eqz2 is not None:
            outb = eqz2.equalize_data(np.array(dem, copy=True), ir)
            if outb.shape != out2.shape or not np.allclose(outb, out2, rtol=1e-12, atol=0, equal_nan=True):
                return 'stale-equaliser:second-user,' + rel, 'step %d: the second equaliser sharing the OFDM object differs from a fresh one' % k
        same = out.shape == out2.shape and np.allclose(out, out2, rtol=1e-12, atol=0, equal_nan=True)
        if not same:
            return 'stale-equaliser:' + rel, ('step %d: the long-lived equaliser differs from a fresh one on OFDM%r '
                                               '(built on OFDM%r)' % (k, cur, built))
        dense = np.zeros(memory + 1, dtype=complex)
        if tx.size:
            dense[np.asarray(ir.tap_indexes_sparse, dtype=int)] = np.asarray(ir.tap_values_sparse)[:, 0]
            Hs = np.array([sum(dense[d] * np.exp(-2j * np.pi * ((d * kk) % cur[0]) / cur[0]) for d in range(memory + 1))
                           for kk in range(cur[0])])
            if float(np.min(np.abs(Hs))) < 0.05:
                continue
        want = np.concatenate([x, np.zeros(expected_padding(x.size, cur[2]))])
        scale = sig_scale(x)
        if out.shape != want.shape or (want.size and not float(np.max(np.abs(out - want))) <= 2e-6 * scale):
            return 'one-tap-inexact-after-history:' + rel, 'step %d configuration %r' % (k, cur)
    return None


def o_roundtrip(case):
    """demodulate(modulate(x)) = x followed only by zero padding, for a valid configuration"""
    o = _ofdm()
    fft, cp, used = case['fft'], case['cp'], case['used']
    obj = o.OFDM(fft, cp, used)
    x = cx(case['x'])
    tx = obj.modulate(x.copy())
    back = obj.demodulate(np.array(tx, copy=True))
    want = np.concatenate([x, np.zeros(expected_padding(x.size, used))])
    if back.shape != want.shape:
        return 'roundtrip-length:' + cfg_class(case), 'got %d symbols, expected %d' % (back.size, want.size)
    scale = sig_scale(x)
    err = float(np.max(np.abs(back - want))) if want.size else 0.0
    if not err <= TOL * scale:
        return 'roundtrip:' + cfg_class(case) + scale_class(x), 'max error %.3g (input scale %.3g)' % (err, scale)
    return None


def o_structure(case):
    """(fft+cp) samples per OFDM symbol, each prefix an exact copy of the symbol tail"""
    o = _ofdm()
    fft, cp, used = case['fft'], case['cp'], case['used']
    obj = o.OFDM(fft, cp, used)
    x = cx(case['x'])
    tx = np.asarray(obj.modulate(x.copy()))
    nsym = -(-x.size // used)
    if tx.ndim != 1 or tx.size != nsym * (fft + cp):
        return 'length:' + cfg_class(case), 'emitted %s samples, expected %d' % (tx.shape, nsym * (fft + cp))
    for r in range(nsym):
        blk = tx[r * (fft + cp):(r + 1) * (fft + cp)]
        if cp and not np.array_equal(blk[:cp], blk[fft:fft + cp]):
            return 'cp-not-tail-copy:' + cfg_class(case), 'symbol %d' % r
    return None


def o_guards(case):
    """used < fft: DC and guard subcarriers of every emitted symbol carry no energy
    (textbook DFT of the symbol body; nothing of the implementation's index code is reused)"""
    o = _ofdm()
    fft, cp, used = case['fft'], case['cp'], case['used']
    if used >= fft:
        return None
    obj = o.OFDM(fft, cp, used)
    x = cx(case['x'])
    tx = np.asarray(obj.modulate(x.copy()))
    nsym = tx.size // (fft + cp)
    F = dft_matrix(fft)
    silent = guard_bins(fft, used)
    for r in range(nsym):
        body = tx[r * (fft + cp) + cp:(r + 1) * (fft + cp)]
        spec = F @ body
        ref = float(np.max(np.abs(spec)))                   # relative to the symbol's own spectrum (R6)
        leak = float(np.max(np.abs(spec[silent]))) if silent else 0.0
        if not leak <= 1e-9 * ref:
            b = silent[int(np.argmax(np.abs(spec[silent])))]
            return ('dc-energy' if b == 0 else 'guard-energy') + ':' + cfg_class(case) + scale_class(x), \
                'symbol %d bin %d carries %.3g' % (r, b, leak)
        # all the energy sits on the `used` remaining bins
        if len(silent) != fft - used:
            return 'guard-count', '%d silent bins for fft=%d used=%d' % (len(silent), fft, used)
    return None


def profile_class(delays, powers_db):
    """class of a tap profile that could not be turned into a channel, computed from the profile itself:
    is the binary64 radicand of the RMS delay spread negative (a rounding artefact for profiles whose delay
    spread is zero or tiny, e.g. a single tap at a non-zero delay)?"""
    p = 10.0 ** (np.array(powers_db, dtype=float) / 10.0)
    d = np.array(delays, dtype=float)
    mean = np.sum(p * d) / np.sum(p)
    aux = np.sum(p * d ** 2) / np.sum(p)
    return 'rms-delay-spread-negative-radicand' if aux - mean ** 2 < 0 else 'other'


def chan_class(case, memory):
    fft, cp = case['fft'], case['cp']
    if memory > cp:
        return 'memory>cp'
    if memory >= fft:
        return 'memory==fft'
    return 'memory<=cp,memory<fft'


def o_onetap(case):
    """static TDL channel with memory <= cp: demodulate + one-tap equaliser fed with the reported
    impulse response recovers the symbols (followed by zeros)"""
    o = _ofdm()
    fft, cp, used = case['fft'], case['cp'], case['used']
    obj = o.OFDM(fft, cp, used)
    x = cx(case['x'])
    try:
        ch = make_static_channel(case['delays'], case['powers_dB'], cx(case['draw']), case.get('Ts', 1.0))
    except Exception as e:
        return 'channel-construction:' + profile_class(case['delays'], case['powers_dB']), \
            '%s: %s' % (type(e).__name__, str(e)[:200])
    Ts = case.get('Ts', 1.0)
    kind = profile_kind(case['delays'])
    exp_idx, exp_pow = expected_discretisation(case['delays'], case['powers_dB'])
    memory = exp_idx[-1]
    cls = chan_class(case, memory)
    pq = '' if kind == 'sorted' else ',%s-profile' % kind
    if memory > cp:
        return None            # outside the property
    tx = obj.modulate(x.copy())
    try:
        rx = ch.corrupt_data(np.array(tx, copy=True))
        ir = ch.get_last_impulse_response()
    except Exception as e:
        return 'channel-raises:%s-profile' % kind, 'corrupt_data on delays %r: %s: %s' % (case['delays'], type(e).__name__, str(e)[:120])
    got_idx = [int(v) for v in np.asarray(ir.tap_indexes_sparse)]
    if got_idx != exp_idx or int(ch.num_taps_with_padding) - 1 != memory:
        return 'profile-discretisation:%s-profile' % kind, 'taps reported on samples %r, the paths %r fall on %r' % (
            got_idx, case['delays'], exp_idx)
    if tx.size:
        gains = np.resize(cx(case['draw']), len(exp_idx)) * np.sqrt(np.array(exp_pow))
        rep = np.asarray(ir.tap_values_sparse)[:, 0]
        if float(np.max(np.abs(rep - gains))) > 1e-9 * float(np.max(np.abs(gains))):
            return 'profile-discretisation-powers:%s-profile' % kind, 'reported tap values differ from draw * sqrt(merged power)'
    # the channel really is the time-invariant convolution with the reported taps
    dense = np.zeros(memory + 1, dtype=complex)
    dense[np.asarray(ir.tap_indexes_sparse, dtype=int)] = np.asarray(ir.tap_values_sparse)[:, 0] if tx.size else 0
    ref = direct_convolution(dense, tx)
    if rx.shape != ref.shape or (ref.size and float(np.max(np.abs(rx - ref))) > 1e-9 * float(np.max(np.abs(ref)))):
        return 'channel-not-convolution:' + cls + pq, 'corrupt_data differs from direct convolution with the reported taps'
    # exact recovery needs H[k] != 0 on the USED carriers; the comparison is relative to the input scale and to the
    # conditioning max|H| / min|H_used| of the division (R5 deep notches, R6 scaled channels)
    Hs = np.array([sum(dense[d] * np.exp(-2j * np.pi * ((d * k) % fft) / fft) for d in range(memory + 1))
                   for k in range(fft)])
    ub = used_bins(fft, used)
    hmax = float(np.max(np.abs(Hs))) if x.size else 1.0
    hmin = float(np.min(np.abs(Hs[ub]))) if x.size else 1.0
    if x.size and not hmin > 1e-13 * hmax:
        return None                                   # a (numerically) exact null on a used carrier
    cond = hmax / hmin
    qual = ''
    if cls != 'memory==fft':                          # the known-finding class keeps its exact name
        qual = (',notch<=1e-3' if cond >= 1e3 else '') + scale_class(x) + scale_class(dense) + pq + count_class(case)
    try:
        dem = obj.demodulate(np.array(rx[:tx.size], copy=True))
        eq = o.OfdmOneTapEqualizer(obj).equalize_data(dem, ir)
    except Exception as e:
        return 'one-tap-raises:' + ('empty-input' if x.size == 0 else cls), '%s: %s' % (type(e).__name__, str(e)[:200])
    want = np.concatenate([x, np.zeros(expected_padding(x.size, used))])
    if eq.shape != want.shape:
        return 'one-tap-length:' + cls, 'got %s expected %s' % (eq.shape, want.shape)
    scale = sig_scale(x)
    err = float(np.max(np.abs(eq - want))) if want.size else 0.0
    if not err <= scale * (1e-9 + 1e-12 * cond):
        return 'one-tap-inexact:' + cls + qual, ('max error %.3g at input scale %.3g, conditioning %.3g (memory %d, cp %d, '
                                                  'fft %d)' % (err, scale, cond, memory, cp, fft))
    return None


# ------------------------------------------------------------------ robustness classes R1-R4 (oracles)
INT_TYPES = ['int8', 'uint8', 'int16', 'uint16', 'int32', 'int64']
ARRAY_TYPES = ['int16', 'int32', 'int64', 'uint8', 'float32', 'float16', 'complex64']


def _pipeline(obj, eqz, x, profile):
    """modulate - static channel - demodulate - equalise; returns every intermediate"""
    ch = make_static_channel(*profile)
    tx = obj.modulate(x)
    rx = ch.corrupt_data(np.array(tx, copy=True))
    ir = ch.get_last_impulse_response()
    dem = obj.demodulate(np.array(rx[:tx.size], copy=True))
    out = eqz.equalize_data(dem, ir)
    return tx, rx, ir, dem, out


def o_types(case):
    """R1: the same VALUES passed as narrow numpy integer scalars (parameters) or as integer / single precision
    arrays (signals) give the result of the Python-int / complex128 twin; results are complex, never truncated"""
    o = _ofdm()
    fft, cp, used = case['fft'], case['cp'], case['used']
    ref = o.OFDM(fft, cp, used)
    ref_eq = o.OfdmOneTapEqualizer(ref)
    vals = np.array([complex(a, b) for a, b in case['x']])
    profile = (case['delays'], case['powers_dB'], cx(case['draw']))
    kind = case['kind']
    if kind == 'param':
        ty = getattr(np, case['type'])
        label = 'R1:param-' + case['type']
        try:
            obj = o.OFDM(ty(fft), ty(cp), ty(used))
        except Exception as e:
            return label + ':constructor-raises', '%s: %s' % (type(e).__name__, str(e)[:120])
        try:
            got = _pipeline(obj, o.OfdmOneTapEqualizer(obj), vals.copy(), profile)
        except Exception as e:
            return label + ':raises', '%s: %s' % (type(e).__name__, str(e)[:120])
        want = _pipeline(ref, ref_eq, vals.copy(), profile)
        for name, a, b in (('modulate', got[0], want[0]), ('demodulate', got[3], want[3]), ('equalize_data', got[4], want[4])):
            if a.shape != b.shape or not np.array_equal(a, b):
                return label + ':' + name, 'differs from the Python-int twin'
        if not isinstance(obj.fft_size + obj.cp_size + obj.num_used_subcarriers, (int, np.integer)):
            return label + ':attributes', 'non-integer attributes'
        return None
    if kind == 'param-float':
        # a float where an integer is required: either rejected by the guard, or the object works like the int twin
        try:
            obj = o.OFDM(float(fft), float(cp), float(used))
        except (TypeError, ValueError):
            return None
        try:
            tx = obj.modulate(vals.copy())
            if np.array_equal(tx, ref.modulate(vals.copy())):
                return None
            return 'R1:param-float:wrong-result', 'differs from the int twin'
        except Exception as e:
            return 'R1:param-float:accepted-but-unusable', 'constructor accepted floats, modulate: %s' % type(e).__name__
    # array element types
    dt = np.dtype(case['type'])
    label = 'R1:array-' + case['type']
    if dt.kind in 'iu':
        typed = vals.real.astype(dt)                       # integer-valued real symbols
        twin = typed.astype(complex)
    elif dt.kind == 'f':
        typed = vals.real.astype(dt)
        twin = typed.astype(complex)
    else:
        typed = vals.astype(dt)
        twin = typed.astype(complex)
    eps = 0.0 if dt.kind in 'iu' else float(np.finfo(dt).eps)
    try:
        tx = ref.modulate(typed)
    except Exception as e:
        return label + ':modulate-raises', '%s: %s' % (type(e).__name__, str(e)[:120])
    tx2 = ref.modulate(twin.copy())
    if tx.dtype.kind != 'c':
        return label + ':modulate-dtype', 'result dtype %s' % tx.dtype
    if tx.shape != tx2.shape or float(np.max(np.abs(tx - tx2), initial=0.0)) > 1e-12 * sig_scale(tx2):
        return label + ':modulate', 'differs from the complex128 twin'
    # the received / demodulated signal in a narrower type: equal up to the precision of that type
    ch = make_static_channel(*profile)
    rx = ch.corrupt_data(np.array(tx2, copy=True))[:tx2.size]
    ir = ch.get_last_impulse_response()
    if dt.kind in 'fc':
        cdt = np.complex64 if dt.itemsize <= 8 and dt != np.dtype('float64') else np.complex128
        rx_t = rx.astype(cdt)
        tol = 50 * float(np.finfo(cdt).eps) * fft
    else:
        rx_t = np.round(rx.real * 16).astype(np.int64 if dt.itemsize > 2 else np.int32)
        rx_t = rx_t if dt.kind != 'u' else np.abs(rx_t).astype(np.uint32)
        tol = 1e-12 * fft
    twin_rx = rx_t.astype(complex)
    try:
        dem = ref.demodulate(np.array(rx_t, copy=True))
        dem2 = ref.demodulate(np.array(twin_rx, copy=True))
        out = ref_eq.equalize_data(np.array(dem2, copy=True).astype(dem.dtype), ir)
        out2 = ref_eq.equalize_data(np.array(dem2, copy=True), ir)
    except Exception as e:
        return label + ':receive-raises', '%s: %s' % (type(e).__name__, str(e)[:120])
    if dem.dtype.kind != 'c' or out.dtype.kind != 'c':
        return label + ':receive-dtype', 'result dtypes %s %s' % (dem.dtype, out.dtype)
    if dem.shape != dem2.shape or float(np.max(np.abs(dem - dem2), initial=0.0)) > tol * sig_scale(dem2):
        return label + ':demodulate', 'differs from the complex128 twin beyond the precision of %s' % rx_t.dtype
    fin = np.isfinite(out2)
    if out.shape != out2.shape or float(np.max(np.abs(out[fin] - out2[fin]), initial=0.0)) > max(tol, 1e-12) * sig_scale(out2[fin]):
        return label + ':equalize_data', 'differs from the complex128 twin'
    return None


def _views(a, kind):
    """the same logical 1-D array in another memory layout"""
    a = np.asarray(a)
    if kind == 'strided':
        big = np.zeros(2 * a.size, dtype=a.dtype)
        big[::2] = a
        return big[::2]
    if kind == 'reversed':
        return a[::-1].copy()[::-1]
    if kind == 'offset':
        big = np.concatenate([np.full(3, 7, dtype=a.dtype), a, np.full(2, 9, dtype=a.dtype)])
        return big[3:3 + a.size]
    if kind == 'fortran-column':
        m = np.asfortranarray(np.stack([a, a + 1], axis=0))        # shape (2, n) in Fortran order: row 0 is strided
        return m[0]
    if kind == 'broadcast':
        return np.broadcast_to(a[:1], (a.size,)) if a.size else a
    if kind == 'readonly':
        b = a.copy()
        b.setflags(write=False)
        return b
    raise ValueError(kind)


LAYOUTS = ['strided', 'reversed', 'offset', 'fortran-column', 'broadcast', 'readonly']


def o_layout(case):
    """R2: non-contiguous / offset / read-only / broadcast views, 0-d and size-0 arrays give positionally the result
    of the C-contiguous copy; 2-D inputs of modulate are either rejected or treated as their flattening"""
    o = _ofdm()
    fft, cp, used = case['fft'], case['cp'], case['used']
    obj = o.OFDM(fft, cp, used)
    eqz = o.OfdmOneTapEqualizer(obj)
    x = cx(case['x'])
    kind = case['layout']
    label = 'R2:' + kind
    profile = (case['delays'], case['powers_dB'], cx(case['draw']))
    if kind == 'broadcast':
        x = np.full(x.size, x[0] if x.size else 0)
    ch = make_static_channel(*profile)
    tx_ref = obj.modulate(x.copy())
    rx = ch.corrupt_data(np.array(tx_ref, copy=True))[:tx_ref.size]
    ir = ch.get_last_impulse_response()
    dem_ref = obj.demodulate(np.array(rx, copy=True))
    out_ref = eqz.equalize_data(np.array(dem_ref, copy=True), ir)
    if kind in ('0-d', '2-d-row', '2-d-column', '3-d'):
        if kind == '0-d':
            v = np.array(x[0] if x.size else 1.0)
            twin = np.array([v.item()])
        else:
            shape = {'2-d-row': (1, x.size), '2-d-column': (x.size, 1), '3-d': (1, x.size, 1)}[kind]
            v, twin = x.reshape(shape), x
        try:
            r = obj.modulate(v)
        except (ValueError, TypeError):
            return None                              # cleanly rejected
        except Exception as e:
            return label + ':modulate-raises', type(e).__name__
        if r.shape != obj.modulate(twin.copy()).shape or not np.array_equal(r, obj.modulate(twin.copy())):
            return label + ':modulate', 'accepted but differs from the flattened input'
        return None
    for name, fn, arr, want in (('modulate', obj.modulate, x, tx_ref), ('demodulate', obj.demodulate, rx, dem_ref),
                                ('equalize_data', lambda d: eqz.equalize_data(d, ir), dem_ref, out_ref)):
        if kind == 'broadcast' and name != 'modulate':
            continue
        v = _views(arr, kind)
        if not np.array_equal(np.asarray(v), arr):
            return 'harness:view', kind
        try:
            r = fn(v)
        except Exception as e:
            return label + ':' + name + '-raises', '%s: %s' % (type(e).__name__, str(e)[:120])
        same = r.shape == want.shape and np.array_equal(r, want, equal_nan=True)
        if not same:
            return label + ':' + name, 'differs from the result for the contiguous copy'
    return None


def _snap(a):
    a = np.asarray(a)
    return (a.shape, a.dtype.str, a.copy())


def _same(a, snap):
    a = np.asarray(a)
    return a.shape == snap[0] and a.dtype.str == snap[1] and np.array_equal(a, snap[2], equal_nan=True)


def o_immut(case):
    """R3: no call modifies the arrays it is given (values, shape, dtype) - not at the call and not at later calls;
    returned arrays never alias the caller's arrays nor each other / internal buffers"""
    o = _ofdm()
    fft, cp, used = case['fft'], case['cp'], case['used']
    obj = o.OFDM(fft, cp, used)
    eqz = o.OfdmOneTapEqualizer(obj)
    profile = (case['delays'], case['powers_dB'], cx(case['draw']))
    kept_in, kept_out = [], []
    for rnd, xs in enumerate(case['rounds']):
        x = cx(xs)
        ch = make_static_channel(*profile)
        sx = _snap(x)
        tx = obj.modulate(x)
        kept_in.append(('modulate', x, sx))
        if np.shares_memory(tx, x):
            return 'R3:output-aliases-input:modulate', 'round %d' % rnd
        rx = ch.corrupt_data(np.array(tx, copy=True))
        ir = ch.get_last_impulse_response()
        rxa = np.array(rx[:tx.size], copy=True)
        srx = _snap(rxa)
        taps = np.asarray(ir.tap_values_sparse)
        staps = _snap(taps)
        dem = obj.demodulate(rxa)
        kept_in.append(('demodulate', rxa, srx))
        if np.shares_memory(dem, rxa):
            return 'R3:output-aliases-input:demodulate', 'round %d' % rnd
        sdem = _snap(dem)
        out = eqz.equalize_data(dem, ir)
        kept_in.append(('equalize_data', dem, sdem))
        kept_in.append(('equalize_data.impulse_response', taps, staps))
        if out.size and np.shares_memory(out, dem):
            return 'R3:output-aliases-input:equalize_data', 'round %d' % rnd
        idx = obj.get_used_subcarrier_indexes()
        sidx = idx.copy()
        idx[...] = 0                                  # the caller scribbles over a returned array
        if not np.array_equal(obj.get_used_subcarrier_indexes(), sidx):
            return 'R3:internal-buffer-exposed:get_used_subcarrier_indexes', 'round %d' % rnd
        for name, arr in (('modulate', tx), ('demodulate', dem), ('equalize_data', out)):
            kept_out.append((name, arr, _snap(arr)))
        for name, arr, sn in kept_in:
            if not _same(arr, sn):
                what = 'shape' if np.asarray(arr).shape != sn[0] else 'dtype' if np.asarray(arr).dtype.str != sn[1] else 'values'
                return 'R3:input-mutated:%s:%s' % (name, what), 'after round %d: %s %s -> %s' % (
                    rnd, what, sn[0], np.asarray(arr).shape)
        for name, arr, sn in kept_out:
            if not _same(arr, sn):
                return 'R3:earlier-output-changed:' + name, 'after round %d' % rnd
        for i in range(len(kept_out)):
            for j in range(i + 1, len(kept_out)):
                if kept_out[i][1].size and kept_out[j][1].size and np.shares_memory(kept_out[i][1], kept_out[j][1]):
                    return 'R3:outputs-alias-each-other', '%s / %s' % (kept_out[i][0], kept_out[j][0])
    return None


def o_rejected(case):
    """R4: a call that raises leaves the OFDM object, the equaliser and the caller's arrays exactly as they were;
    afterwards the pair behaves like a fresh pair that never saw the rejected calls"""
    o = _ofdm()
    fft, cp, used = case['fft'], case['cp'], case['used']
    obj = o.OFDM(fft, cp, used)
    eqz = o.OfdmOneTapEqualizer(obj)
    profile = (case['delays'], case['powers_dB'], cx(case['draw']))
    x = cx(case['x'])
    tx, rx, ir, dem, out = _pipeline(obj, eqz, x.copy(), profile)

    def observe():
        return (obj.fft_size, obj.cp_size, obj.num_used_subcarriers, obj.get_used_subcarrier_indexes().tolist(),
                eqz._ofdm_obj is obj)
    for bad in case['bad']:
        before = observe()
        arrs = []
        try:
            if bad[0] == 'set':
                obj.set_parameters(*bad[1])
            elif bad[0] == 'demodulate-length':
                a = np.array(rx[:max(1, tx.size - 1)], copy=True)
                arrs.append((a, _snap(a)))
                obj.demodulate(a)
            elif bad[0] == 'modulate-2d':
                a = np.ones((2, used), dtype=complex)
                arrs.append((a, _snap(a)))
                obj.modulate(a)
            elif bad[0] == 'equalize-length':
                a = np.array(dem[:-1], copy=True)
                arrs.append((a, _snap(a)))
                eqz.equalize_data(a, ir)
            elif bad[0] == 'set-float':
                obj.set_parameters(fft + 0.5, cp, used)
            elif bad[0] == 'set-none-fft':
                obj.set_parameters(None, cp, used)
            raised = False
        except Exception:
            raised = True
        if not raised:
            if bad[0] == 'set' or bad[0] in ('set-float', 'set-none-fft'):
                if observe() != before:
                    return 'R4:accepted-invalid:' + bad[0], repr(bad)
            continue                                  # the call was legal after all (e.g. a 1-symbol stream minus one)
        if observe() != before:
            return 'R4:state-changed-by-rejected:' + bad[0], '%r -> %r' % (before[:3], observe()[:3])
        for a, sn in arrs:
            if not _same(a, sn):
                return 'R4:argument-changed-by-rejected:' + bad[0], 'shape %s -> %s' % (sn[0], a.shape)
    fresh = o.OFDM(fft, cp, used)
    got = _pipeline(obj, eqz, x.copy(), profile)
    want = _pipeline(fresh, o.OfdmOneTapEqualizer(fresh), x.copy(), profile)
    for name, k in (('modulate', 0), ('demodulate', 3), ('equalize_data', 4)):
        if got[k].shape != want[k].shape or not np.array_equal(got[k], want[k], equal_nan=True):
            return 'R4:differs-from-fresh-after-rejected:' + name, 'after %r' % [b[0] for b in case['bad']]
    return None


# ------------------------------------------------------------------ robustness classes R8-R14 (oracles)
def _static_gen(draw):
    _, fg = _fading()

    class StaticGen(fg.RayleighSampleGenerator):
        def __init__(self, vals):
            self._vals = np.asarray(vals, dtype=complex)
            super().__init__(shape=None)

        def generate_more_samples(self, num_samples=None):
            n = 1 if num_samples is None else int(num_samples)
            k = self._shape[0] if self._shape else 1
            self._samples = np.repeat(np.resize(self._vals, k)[:, None], n, axis=1)

        def skip_samples_for_next_generation(self, num_samples):
            pass
    return StaticGen(draw)


def _eq_arr(a, b):
    a, b = np.asarray(a), np.asarray(b)
    return a.shape == b.shape and np.array_equal(a, b, equal_nan=True)


OFDM_FORMS = ['keywords', 'mixed', 'default-omitted', 'default-none', 'default-none-keyword', 'setter', 'setter-keywords',
              'setter-default', 'replaced-twice', 'call-keywords']
CHANNEL_FORMS = ['profile-object', 'profile-prediscretised', 'profile-prediscretised-Ts', 'positional', 'Ts-default',
                 'int-tap-arrays']


def _build_ofdm(o, form, f, c, u, other):
    """the same configuration reached through another documented argument form / path"""
    if form == 'keywords':
        return o.OFDM(fft_size=f, cp_size=c, num_used_subcarriers=u)
    if form == 'mixed':
        return o.OFDM(f, num_used_subcarriers=u, cp_size=c)
    if form == 'default-omitted':
        return o.OFDM(f, c)
    if form == 'default-none':
        return o.OFDM(f, c, None)
    if form == 'default-none-keyword':
        return o.OFDM(f, cp_size=c, num_used_subcarriers=None)
    obj = o.OFDM(*other)
    if form == 'setter':
        obj.set_parameters(f, c, u)
    elif form == 'setter-keywords':
        obj.set_parameters(num_used_subcarriers=u, cp_size=c, fft_size=f)
    elif form == 'setter-default':
        obj.set_parameters(f, c)
    elif form == 'replaced-twice':
        obj.set_parameters(f, c, u)
        obj.set_parameters(*other)
        try:
            obj.set_parameters(f, c + f + 1, u)          # rejected in between
        except ValueError:
            pass
        obj.set_parameters(fft_size=f, cp_size=c, num_used_subcarriers=u)
    else:
        return o.OFDM(f, c, u)
    return obj


def _build_channel(form, delays, powers_db, draw):
    fading, _ = _fading()
    p = np.array(powers_db, dtype=float)
    d = np.array(delays, dtype=float)
    g = _static_gen(draw)
    if form == 'profile-object':
        return fading.TdlChannel(g, channel_profile=fading.TdlChannelProfile(p, d), Ts=1.0)
    if form == 'profile-prediscretised':
        return fading.TdlChannel(g, channel_profile=fading.TdlChannelProfile(p, d).get_discretize_profile(1.0))
    if form == 'profile-prediscretised-Ts':
        return fading.TdlChannel(g, fading.TdlChannelProfile(tap_delays=d, tap_powers_dB=p).get_discretize_profile(Ts=1.0), Ts=1.0)
    if form == 'positional':
        return fading.TdlChannel(g, None, p, d, 1.0)
    if form == 'Ts-default':
        return fading.TdlChannel(g, tap_delays=d, tap_powers_dB=p)         # Rayleigh-type generator: Ts defaults to 1
    if form == 'int-tap-arrays':                                          # R10: integer dtype arrays next to float ones
        return fading.TdlChannel(g, tap_powers_dB=np.round(p).astype(np.int32) if np.all(np.round(p) == p) else p,
                                 tap_delays=np.array(delays).astype(np.int16), Ts=1.0)
    return fading.TdlChannel(g, tap_powers_dB=p, tap_delays=d, Ts=1.0)


def o_forms(case):
    """R8 (and R10 for the tap arrays): every documented argument form / configuration path gives exactly the
    object and the results of the plain positional one"""
    o = _ofdm()
    f, c, u = case['fft'], case['cp'], case['used']
    form = case['form']
    x = cx(case['x'])
    ref = o.OFDM(f, c, u)
    ref_eq = o.OfdmOneTapEqualizer(ref)
    ch = _build_channel('reference', case['delays'], case['powers_dB'], cx(case['draw']))
    tx = ref.modulate(x.copy())
    rx = ch.corrupt_data(np.array(tx, copy=True))
    ir = ch.get_last_impulse_response()
    dem = ref.demodulate(np.array(rx[:tx.size], copy=True))
    out = ref_eq.equalize_data(np.array(dem, copy=True), ir)
    label = 'R8:' + form
    try:
        if form in CHANNEL_FORMS:
            if form == 'int-tap-arrays':
                label = 'R10:int-tap-arrays'
                if any(float(v) != int(v) for v in case['delays']):
                    return None
            ch2 = _build_channel(form, case['delays'], case['powers_dB'], cx(case['draw']))
            rx2 = ch2.corrupt_data(np.array(tx, copy=True))
            ir2 = ch2.get_last_impulse_response()
            if not _eq_arr(ir2.tap_indexes_sparse, ir.tap_indexes_sparse):
                return label + ':tap-indexes', '%r vs %r' % (list(ir2.tap_indexes_sparse), list(ir.tap_indexes_sparse))
            if not np.allclose(ir2.tap_values_sparse, ir.tap_values_sparse, rtol=1e-12, atol=0) or rx2.shape != rx.shape \
                    or not np.allclose(rx2, rx, rtol=1e-12, atol=1e-300):
                return label + ':channel-output', 'differs from TdlChannel(gen, tap_powers_dB=, tap_delays=, Ts=1.0)'
            if not _eq_arr(ir2.get_freq_response(fft_size=f), ir2.get_freq_response(f)):
                return label + ':get_freq_response-keyword', 'keyword vs positional'
            return None
        other = tuple(case['other'])
        if form in ('default-omitted', 'default-none', 'default-none-keyword', 'setter-default') and u != f:
            return None
        obj = _build_ofdm(o, form, f, c, u, other)
        if (obj.fft_size, obj.cp_size, obj.num_used_subcarriers) != (f, c, u):
            return label + ':attributes', repr((obj.fft_size, obj.cp_size, obj.num_used_subcarriers))
        if form == 'call-keywords':
            eqz = o.OfdmOneTapEqualizer(ofdm_obj=obj)
            tx2 = obj.modulate(input_signal=x.copy())
            dem2 = obj.demodulate(received_signal=np.array(rx[:tx.size], copy=True))
            out2 = eqz.equalize_data(impulse_response=ir, data=np.array(dem2, copy=True))
        else:
            eqz = o.OfdmOneTapEqualizer(obj)
            tx2 = obj.modulate(x.copy())
            dem2 = obj.demodulate(np.array(rx[:tx.size], copy=True))
            out2 = eqz.equalize_data(np.array(dem2, copy=True), ir)
    except Exception as e:
        return label + ':raises', '%s: %s' % (type(e).__name__, str(e)[:150])
    if not _eq_arr(obj.get_used_subcarrier_indexes(), ref.get_used_subcarrier_indexes()):
        return label + ':index-map', 'differs from the positional constructor'
    for name, a, b in (('modulate', tx2, tx), ('demodulate', dem2, dem), ('equalize_data', out2, out)):
        if not _eq_arr(a, b):
            return label + ':' + name, 'differs from the positional constructor / call'
    return None


INDEX_TYPES = ['intp', 'int64', 'int32', 'uint16', '0-d-array', '0-d-uint8', 'fresh-int', 'bool-cp']


def o_indexarg(case):
    """R9: sizes, counts and transform lengths given as numpy integers of any width, np.intp, 0-d arrays, bool, and
    python ints above 256 that are distinct objects: everything behaves as for the plain python ints"""
    o = _ofdm()
    f, c, u = case['fft'], case['cp'], case['used']
    ty = case['type']
    label = 'R9:' + ty + (',size>256' if f > 256 else '')
    x = cx(case['x'])

    def conv(v):
        if ty == '0-d-array':
            return np.array(v)
        if ty == '0-d-uint8':
            return np.array(v, dtype=np.uint8 if v < 256 else np.uint16)
        if ty == 'fresh-int':
            return int(str(v))                      # equal value, distinct object (matters above 256)
        if ty == 'bool-cp':
            return v
        return getattr(np, ty)(v)
    ref = o.OFDM(f, c, u)
    ch = make_static_channel(case['delays'], case['powers_dB'], cx(case['draw']))
    try:
        if ty == 'bool-cp':
            obj = o.OFDM(conv(f), True, conv(u))
            ref = o.OFDM(f, 1, u)
        else:
            obj = o.OFDM(conv(f), conv(c), conv(u))
        eqz = o.OfdmOneTapEqualizer(obj)
        tx = obj.modulate(x.copy())
        tx0 = ref.modulate(x.copy())
        rx = ch.corrupt_data(np.array(tx0, copy=True))
        ir = ch.get_last_impulse_response()
        dem = obj.demodulate(np.array(rx[:tx0.size], copy=True))
        out = eqz.equalize_data(np.array(dem, copy=True), ir)
        zp = tuple(int(v) for v in obj._calc_zeropad(conv(x.size) if ty != 'bool-cp' else x.size))
        H1 = ir.get_freq_response(conv(f) if ty != 'bool-cp' else f)
    except Exception as e:
        return label + ':raises', '%s: %s' % (type(e).__name__, str(e)[:150])
    dem0 = ref.demodulate(np.array(rx[:tx0.size], copy=True))
    out0 = o.OfdmOneTapEqualizer(ref).equalize_data(np.array(dem0, copy=True), ir)
    if not _eq_arr(obj.get_used_subcarrier_indexes(), ref.get_used_subcarrier_indexes()):
        return label + ':index-map', 'differs from the python-int twin (%r)' % (obj.get_used_subcarrier_indexes()[:4],)
    for name, a, b in (('modulate', tx, tx0), ('demodulate', dem, dem0), ('equalize_data', out, out0),
                       ('get_freq_response', H1, ir.get_freq_response(f))):
        if not _eq_arr(a, b):
            return label + ':' + name, 'differs from the python-int twin'
    if zp != tuple(int(v) for v in ref._calc_zeropad(x.size)):
        return label + ':_calc_zeropad', repr(zp)
    return None


QUERIES = ['get_used_subcarrier_indexes', '_get_subcarrier_numbers', '_get_used_subcarrier_numbers', '_calc_zeropad',
           '_calculate_power_scale', 'repr', 'modulate', 'demodulate', 'equalize_data', 'ir.tap_values', 'ir.get_freq_response',
           'ir.properties', 'ir.scaled', 'profile.properties', 'channel.properties', 'ir.plot']


def _do_query(q, obj, eqz, ch, ir, x, rng_n):
    if q == 'get_used_subcarrier_indexes':
        obj.get_used_subcarrier_indexes()[...] = 0
    elif q == '_get_subcarrier_numbers':
        obj._get_subcarrier_numbers()[...] = 0
    elif q == '_get_used_subcarrier_numbers':
        obj._get_used_subcarrier_numbers()[...] = 0
    elif q == '_calc_zeropad':
        obj._calc_zeropad(rng_n)
    elif q == '_calculate_power_scale':
        obj._calculate_power_scale()
    elif q == 'repr':
        repr(obj), str(obj), repr(eqz), repr(ir), repr(ch.channel_profile)
    elif q == 'modulate':
        obj.modulate(x.copy())
    elif q == 'demodulate':
        obj.demodulate(np.zeros(2 * (obj.fft_size + obj.cp_size), dtype=complex))
    elif q == 'equalize_data':
        eqz.equalize_data(np.ones(obj.num_used_subcarriers * 0, dtype=complex), ir)
    elif q == 'ir.tap_values':
        ir.tap_values, ir.tap_values_sparse, ir.tap_indexes_sparse, ir.tap_delays_sparse
    elif q == 'ir.get_freq_response':
        for n in (obj.fft_size, 2 * obj.fft_size, max(1, obj.fft_size // 2)):
            H = ir.get_freq_response(n)
            H[...] = 0                                 # the caller scribbles over the returned array
    elif q == 'ir.properties':
        ir.num_samples, ir.Ts, ir.channel_profile
    elif q == 'ir.scaled':
        (2.0 * ir), (ir * 0.5)
    elif q == 'profile.properties':
        pr = ch.channel_profile
        pr.mean_excess_delay, pr.rms_delay_spread, pr.name, pr.tap_powers_dB, pr.tap_powers_linear, pr.tap_delays, pr.num_taps
        pr.num_taps_with_padding, pr.Ts, pr.is_discretized
    elif q == 'channel.properties':
        ch.num_taps, ch.num_taps_with_padding, ch.num_tx_antennas, ch.num_rx_antennas, ch.switched_direction
        ch.get_last_impulse_response()
    elif q == 'ir.plot':
        try:
            import matplotlib
            matplotlib.use('Agg')
            import matplotlib.pyplot as plt
        except Exception:
            return
        ir.plot_frequency_response(obj.fft_size)
        plt.close('all')


def o_nomutate(case):
    """R11: calls that are not setters (queries, private calc helpers, repr, properties, plot helper, the processing
    methods themselves) placed between the mutators of a history change neither the configuration nor any later result"""
    o = _ofdm()
    f, c, u = case['init']
    obj = o.OFDM(f, c, u)
    eqz = o.OfdmOneTapEqualizer(obj)
    cur = (f, c, u)
    for k, st in enumerate(case['steps']):
        if st.get('set') is not None:
            f, c, u = st['set']
            try:
                obj.set_parameters(f, c, u)
                cur = (f, c, f if u is None else u)
            except ValueError:
                pass
        x = cx(st['x'])
        ch = make_static_channel(st['delays'], st['powers_dB'], cx(st['draw']))
        tx = obj.modulate(x.copy())
        rx = ch.corrupt_data(np.array(tx, copy=True))
        ir = ch.get_last_impulse_response()
        taps0 = np.array(ir.tap_values_sparse, copy=True)
        H0 = np.array(ir.get_freq_response(cur[0]), copy=True)
        attrs0 = (obj.fft_size, obj.cp_size, obj.num_used_subcarriers)      # the configuration (private caches may come and go)
        for q in st['queries']:
            try:
                _do_query(q, obj, eqz, ch, ir, x, len(st['x']))
            except Exception as e:
                return 'R11:%s:raises' % q, 'step %d: %s: %s' % (k, type(e).__name__, str(e)[:120])
            if (obj.fft_size, obj.cp_size, obj.num_used_subcarriers) != attrs0 or eqz._ofdm_obj is not obj:
                return 'R11:%s:attributes-changed' % q, 'step %d: %r -> %r' % (
                    k, attrs0, (obj.fft_size, obj.cp_size, obj.num_used_subcarriers))
            if not _eq_arr(ir.tap_values_sparse, taps0) or not _eq_arr(ir.get_freq_response(cur[0]), H0) \
                    or ch.get_last_impulse_response() is not ir:
                return 'R11:%s:impulse-response-changed' % q, 'step %d' % k
        fresh = o.OFDM(*cur)
        dem = obj.demodulate(np.array(rx[:tx.size], copy=True))
        out = eqz.equalize_data(np.array(dem, copy=True), ir)
        dem2 = fresh.demodulate(np.array(rx[:tx.size], copy=True))
        out2 = o.OfdmOneTapEqualizer(fresh).equalize_data(np.array(dem2, copy=True), ir)
        if not (_eq_arr(obj.modulate(x.copy()), fresh.modulate(x.copy())) and _eq_arr(dem, dem2) and _eq_arr(out, out2)):
            return 'R11:later-result-differs-from-fresh', 'step %d after queries %r' % (k, st['queries'])
    return None


def o_order(case):
    """R12: the order in which the paths of a profile are listed is not part of its logical value"""
    o = _ofdm()
    obj = o.OFDM(case['fft'], case['cp'], case['used'])
    x = cx(case['x'])
    tx = obj.modulate(x.copy())
    outs = []
    for perm in case['perms']:
        d = [case['delays'][i] for i in perm]
        p = [case['powers_dB'][i] for i in perm]
        try:
            ch = make_static_channel(d, p, cx(case['draw']))
            rx = ch.corrupt_data(np.array(tx, copy=True))
            ir = ch.get_last_impulse_response()
        except Exception as e:
            return 'R12:path-order:raises', 'order %r: %s' % (perm, type(e).__name__)
        outs.append((list(np.asarray(ir.tap_indexes_sparse)), np.array(ir.tap_values_sparse[:, :1]), rx))
    for k in range(1, len(outs)):
        if outs[k][0] != outs[0][0] or not np.allclose(outs[k][1], outs[0][1], rtol=1e-12, atol=0) \
                or outs[k][2].shape != outs[0][2].shape or not np.allclose(outs[k][2], outs[0][2], rtol=1e-11, atol=1e-300):
            return 'R12:path-order', 'listing order %r gives another channel than %r' % (case['perms'][k], case['perms'][0])
    return None


def o_derived(case):
    """R13: objects derived from others stay what they were: an impulse response taken from the channel still equalises
    ITS block after the channel moved on; scaled copies, returned arrays and discretised child profiles are independent"""
    o = _ofdm()
    fading, _ = _fading()
    f, c, u = case['fft'], case['cp'], case['used']
    obj = o.OFDM(f, c, u)
    eqz = o.OfdmOneTapEqualizer(obj)
    x1, x2 = cx(case['x']), cx(case['x2'])
    ch = make_static_channel(case['delays'], case['powers_dB'], cx(case['draw']))
    try:
        tx1 = obj.modulate(x1.copy())
        rx1 = ch.corrupt_data(np.array(tx1, copy=True))
        ir1 = ch.get_last_impulse_response()
        dem1 = obj.demodulate(np.array(rx1[:tx1.size], copy=True))
        now = eqz.equalize_data(np.array(dem1, copy=True), ir1)
        taps1 = np.array(ir1.tap_values_sparse, copy=True)
        scaled_ir = 2.0 * ir1
        half = eqz.equalize_data(np.array(dem1, copy=True), scaled_ir)
        # the parent moves on: another block (other length), a re-configured OFDM object and back
        ch.corrupt_data(np.array(obj.modulate(x2.copy()), copy=True))
        ir2 = ch.get_last_impulse_response()
        H = ir1.get_freq_response(f)
        H[...] = 7.0
        later = eqz.equalize_data(np.array(dem1, copy=True), ir1)
        half_later = eqz.equalize_data(np.array(dem1, copy=True), scaled_ir)
    except Exception as e:
        return 'R13:raises', '%s: %s' % (type(e).__name__, str(e)[:150])
    if ir2 is ir1 or not _eq_arr(ir1.tap_values_sparse, taps1) or ir1.num_samples != tx1.size:
        return 'R13:impulse-response-changed-by-later-transmission', 'num_samples %d, block had %d' % (ir1.num_samples, tx1.size)
    if not _eq_arr(now, later):
        return 'R13:earlier-impulse-response-no-longer-equalises-its-block', 'after a later corrupt_data'
    fin = np.isfinite(now)
    if not np.allclose(half[fin], now[fin] / 2.0, rtol=1e-12, atol=0) or not _eq_arr(half, half_later) \
            or np.shares_memory(scaled_ir.tap_values_sparse, ir1.tap_values_sparse):
        return 'R13:scaled-copy', '(2*ir) must halve the equalised symbols and stay independent of ir'
    # discretised child of a profile: the parent is untouched, the child describes the same channel
    p = np.array(case['powers_dB'], dtype=float)
    d = np.array(case['delays'], dtype=float)
    parent = fading.TdlChannelProfile(p, d, 'parent')
    child = parent.get_discretize_profile(1.0)
    if parent.is_discretized or not _eq_arr(parent.tap_delays, d) or not _eq_arr(parent.tap_powers_dB, p) \
            or not child.is_discretized or child.Ts != 1.0:
        return 'R13:discretised-child-changed-parent', 'parent Ts %r' % (parent.Ts,)
    idx, pw = expected_discretisation(case['delays'], case['powers_dB'])
    if [int(v) for v in child.tap_delays] != idx or not np.allclose(child.tap_powers_linear, pw, rtol=1e-9, atol=0):
        return 'R13:discretised-child', 'taps %r powers %r' % (list(child.tap_delays), list(child.tap_powers_linear))
    return None


ORACLES = {'forms': o_forms, 'indexarg': o_indexarg, 'nomutate': o_nomutate, 'order': o_order, 'derived': o_derived,
           'types': o_types, 'layout': o_layout, 'immut': o_immut, 'rejected': o_rejected,
           'onetap_history': o_onetap_history, 'history': o_history, 'constructor': o_constructor, 'roundtrip': o_roundtrip, 'structure': o_structure,
           'guards': o_guards, 'onetap': o_onetap}


def run_oracle(ctx, call, case, key=None, nontrivial=True):
    ctx.count((call, key if key is not None else repr(case)), nontrivial)
    try:
        r = ORACLES[call](case)
    except Exception as e:
        r = ('exception:' + type(e).__name__ + (count_class(case) if isinstance(case, dict) else ''), repr(e)[:300])
    if r is not None:
        ctx.fail(call, r[0], case, r[1])
        ctx.branch('oracle-fail:' + call)
    else:
        ctx.branch('oracle-ok:' + call)
        if call == 'onetap' and len(case.get('x', [])) > 0 and sum(1 for x in ctx.samples if x.get('call') == 'onetap') < 2:
            ctx.sample({'call': 'onetap', 'fft': case['fft'], 'cp': case['cp'], 'used': case['used'],
                        'n_symbols': len(case['x']), 'delays': case['delays'], 'powers_dB': case['powers_dB'],
                        'verdict': 'recovered within tolerance'})
    return r


def replay(ctx, rep):
    try:
        return ORACLES[rep['call']](rep['case']) is not None
    except Exception:
        return True


# ------------------------------------------------------------------ generators
def gen_config(rng, fmax):
    """valid configuration, boundary-heavy"""
    fft = rng.choice([2, 3, 4, 5, 8, 16, 64]) if rng.chance(0.25) else rng.randint(2, fmax)
    r = rng.uniform()
    cp = 0 if r < 0.15 else fft if r < 0.3 else rng.randint(0, fft)
    r = rng.uniform()
    umax = fft - (fft % 2)
    used = umax if r < 0.25 else 2 if r < 0.35 else 2 * rng.randint(1, umax // 2)
    return fft, cp, used


def gen_symbols(rng, n, integer=True):
    if integer:
        return [[float(rng.randint(-7, 7)), float(rng.randint(-7, 7))] for _ in range(n)]
    return [[rng.gauss(), rng.gauss()] for _ in range(n)]


def gen_length(rng, used):
    r = rng.uniform()
    if r < 0.08:
        return 0
    if r < 0.2:
        return used * rng.randint(1, 3)
    if r < 0.3:
        return used * rng.randint(1, 3) + rng.choice([1, used - 1])
    return rng.randint(1, 4 * used)


def gen_profile(rng, max_memory, ntaps_max=6, force=False, order=None):
    """distinct integer delays starting anywhere in [0, max_memory], with the last one = memory
    (`force`: memory = max_memory and at least two taps when there is room)"""
    memory = max_memory if force else (rng.randint(0, max_memory) if rng.chance(0.7) else max_memory)
    others = list(range(0, memory))
    rng.shuffle(others)
    k = min(len(others), rng.randint(1 if force else 0, ntaps_max - 1))
    delays = sorted(others[:k] + [memory])
    powers = [round(-rng.uniform(0, 20), 3) for _ in delays]
    draw = [[rng.gauss(), rng.gauss()] for _ in delays]
    if order is None and rng.chance(0.3):
        order = rng.choice(PROFILE_ORDERS)
    if order and order != 'sorted':
        delays, powers = reorder_profile(rng, delays, powers, order)
    return delays, powers, draw


PROFILE_ORDERS = ['reversed', 'unsorted', 'colliding']


def reorder_profile(rng, delays, powers, order):
    """the same multipath profile listed in another order (the API takes the paths in any order):
    'reversed' - decreasing delays; 'unsorted' - shuffled (largest delay anywhere); 'colliding' - extra paths that
    round to the sample of an existing, NON-adjacent path (fractional delays +-0.3), largest delay listed last half
    of the time. The discretised taps (sorted distinct samples, powers of merged paths summed) stay the same set."""
    d, p = list(delays), list(powers)
    if order == 'reversed':
        return d[::-1], p[::-1]
    if order == 'unsorted':
        idx = list(range(len(d)))
        for _ in range(5):
            rng.shuffle(idx)
            if [d[i] for i in idx] != sorted(d):
                break
        return [d[i] for i in idx], [p[i] for i in idx]
    # colliding
    extra = [(float(v) + rng.choice([-0.3, 0.0, 0.3]) if v > 0 else float(v) + rng.choice([0.0, 0.3]), round(-rng.uniform(0, 20), 3))
             for v in [rng.choice(d) for _ in range(rng.randint(1, 2))]]
    items = [(float(v), q) for v, q in zip(d, p)]
    last = items[-1]
    body = items[:-1] + extra
    rng.shuffle(body)
    if rng.chance(0.5):
        out = body + [last]                       # the largest delay stays last
    else:
        out = body + [last]
        rng.shuffle(out)
    # make sure a collision is not adjacent in at least one place when there is room
    if len(out) >= 3:
        r = [int(round(v)) for v, _ in out]
        for i in range(len(out) - 1):
            if r[i] == r[i + 1]:
                j = (i + 2) % len(out)
                out[i + 1], out[j] = out[j], out[i + 1]
                break
    return [v for v, _ in out], [q for _, q in out]


def profile_kind(delays, Ts=1.0):
    """class of a profile, computed from the listed delays"""
    r = [int(np.round(v / Ts)) for v in delays]
    if len(set(r)) < len(r):
        return 'colliding'
    if r == sorted(r):
        return 'sorted'
    if r == sorted(r, reverse=True):
        return 'reversed'
    return 'unsorted'


def expected_discretisation(delays, powers_db, Ts=1.0):
    """first principles: the taps sit on the sorted distinct sample indexes round(delay / Ts); the power of a tap is
    the sum of the (linear) powers of the paths falling on it, normalised to total power one"""
    r = [int(np.round(v / Ts)) for v in delays]
    idx = sorted(set(r))
    lin = [10.0 ** (q / 10.0) for q in powers_db]
    tot = sum(lin)
    return idx, [sum(l for ri, l in zip(r, lin) if ri == i) / tot for i in idx]


BOUNDARY_SIZES = [2, 3, 4, 5, 7, 8, 9, 15, 16, 17, 25, 31, 32, 33, 49, 63, 64, 65]      # 2^k, 2^k +- 1, p^2, odd / even
BOUNDARY_SIZES_THOROUGH = BOUNDARY_SIZES + [121, 127, 128, 129, 169, 255, 256, 257]
NOTCH_DEPTHS = [1e-3, 1e-5, 1e-7, 1e-9]
SCALES = [1e-12, 1e-6, 1e6, 1e12]


def notch_profile(rng, fft, cp, used, depth, on_used=True):
    """two equal-power paths at delays [0, d] whose responses cancel down to `depth` on one carrier k0:
    h = [1, -(1 - depth) e^{2 pi i k0 d / fft}]  =>  |H[k0]| = depth * |gain|, |H| ~ 1 elsewhere.
    `on_used=False`: an EXACT null on DC (an unused carrier when used < fft): draw [1, -1], d = 1."""
    if cp < 1 or fft < 2:
        return None
    if not on_used:
        if used >= fft:
            return None
        return [0, 1], [0.0, 0.0], [[1.0, 0.0], [-1.0, 0.0]]
    d = rng.randint(1, min(cp, fft - 1))
    k0 = rng.choice(used_bins(fft, used))
    w = -(1.0 - depth) * np.exp(2j * np.pi * ((k0 * d) % fft) / fft)
    return [0, d], [0.0, 0.0], [[1.0, 0.0], [float(w.real), float(w.imag)]]


def boundary_configs(sizes):
    out = []
    for fft in sizes:
        top = fft - fft % 2
        for used in sorted({2, top, max(2, top - 2)}):
            for cp in sorted({0, 1, fft - 1, fft}):
                if valid(fft, cp, used):
                    out.append((fft, cp, used))
    return out


STRUCTURED_HISTORIES = [
    # (initial configuration, set_parameters calls)
    ([64, 16, 52], [[128, 16, 52]]),                                   # fft grows, used count kept
    ([128, 16, 52], [[64, 16, 52]]),                                   # fft shrinks
    ([16, 4, 16], [[16, 4, 10], [16, 17, 10], [16, 8, 10]]),           # used == fft -> guards, rejected call, cp change
    ([8, 2, 6], [[8, 2, 7], [32, 8, 32], [12, 0, 2], [8, 2, 6]]),      # rejected, grow to all-used, shrink, back
    ([32, 32, 20], [[32, 0, 20], [9, 9, 8], [10, 5, None]]),           # cp only, odd fft, used=None
]


def gen_history(rng, k=None):
    """1-5 re-configurations of one object: growing and shrinking fft, used < fft and used == fft,
    cp changes, rejected calls in between"""
    init = list(gen_config(rng, 48))
    sets = []
    for _ in range(k if k is not None else rng.randint(1, 5)):
        r = rng.uniform()
        if r < 0.2:
            sets.append([rng.randint(0, 20), rng.randint(-1, 24), rng.choice([None, rng.randint(-1, 24)])])   # mostly invalid
        elif r < 0.35 and sets:
            f, c, u = (sets[-1] if valid(sets[-1][0], sets[-1][1], sets[-1][0] if sets[-1][2] is None else sets[-1][2]) else init)
            sets.append([f, rng.randint(0, f), u])                                                             # cp only
        elif r < 0.5:
            f, c, u = init
            f2 = rng.choice([2 * f, max(u, f // 2 + (f // 2) % 2), f + 2])
            sets.append([f2, min(c, f2), u if u <= f2 else f2 - f2 % 2])                                       # fft only
        else:
            sets.append(list(gen_config(rng, 48)))
    return init, sets


def history_case(rng, init, sets):
    """attach to every call the symbols and the static channel used after it (memory <= cp, < fft of the
    configuration expected to be in force)"""
    cur = tuple(init)
    steps = []
    for f, c, u in sets:
        uu = f if u is None else u
        if valid(f, c, uu):
            cur = (f, c, uu)
        delays, powers, draw = gen_profile(rng, min(cur[1], cur[0] - 1), force=rng.chance(0.3))
        n = gen_length(rng, cur[2])
        steps.append({'set': [f, c, u], 'x': gen_symbols(rng, n, integer=False),
                      'delays': delays, 'powers_dB': powers, 'draw': draw, 'direct': rng.chance(0.2)})
    return {'init': list(init), 'steps': steps, 'second_eq_at': rng.randint(0, len(steps))}


# ------------------------------------------------------------------ correspondence
def ints(a):
    a = np.asarray(a)
    if a.size == 0:
        return '-'
    return ','.join(str(int(round(float(v.real)))) for v in a.ravel())


def fl(z):
    z = np.asarray(z, dtype=complex).ravel()
    if z.size == 0:
        return '-'
    return ','.join(core.f2s(c.real) + ',' + core.f2s(c.imag) for c in z)


def parse_cx(s):
    if s == '-':
        return np.zeros(0, dtype=complex)
    v = [core.s2f(t) for t in s.split(',')]
    return np.array(v[0::2]) + 1j * np.array(v[1::2])


def near(a, b, tol=TOL):
    a, b = np.asarray(a, dtype=complex).ravel(), np.asarray(b, dtype=complex).ravel()
    if a.shape != b.shape:
        return 'shape %s vs %s' % (a.shape, b.shape)
    if a.size == 0:
        return None
    if not (np.all(np.isfinite(a)) and np.all(np.isfinite(b))):
        return 'non-finite'
    ref = max(float(np.max(np.abs(a))), float(np.max(np.abs(b))))      # RELATIVE to the data (R6), no floor at 1
    err = float(np.max(np.abs(a - b)))
    return None if err <= tol * ref else 'max diff %.3g (ref %.3g)' % (err, ref)


class Batch:
    """collects driver lines with the comparison to run on each reply"""

    def __init__(self, ctx):
        self.ctx, self.lines, self.todo = ctx, [], []

    def add(self, line, fn):
        self.lines.append(line)
        self.todo.append(fn)
        if len(self.lines) >= 4000:
            self.flush()

    def flush(self):
        if not self.lines:
            return
        out = core.Driver(DRIVER).ask(self.lines)
        for rep, fn in zip(out, self.todo):
            fn(rep)
        self.lines, self.todo = [], []


def impl_params(fft, cp, used):
    o = _ofdm()
    try:
        obj = o.OFDM(fft, cp, used)
        return 'ok %d %d %d' % (obj.fft_size, obj.cp_size, obj.num_used_subcarriers)
    except Exception as e:
        return 'error:' + type(e).__name__


def guarded(ctx, name, case, fn, *args):
    """run one correspondence block; an exception of the implementation where the model has none is a
    disagreement (recorded, searched for by the oracles), never a harness crash"""
    try:
        fn(*args)
        return True
    except core.Infra:
        raise
    except Exception as e:
        ctx.corr(name, case, 'raised %s: %s' % (type(e).__name__, str(e)[:200]), 'no exception')
        ctx.branch('impl-raised:' + name)
        return False


def corr_index_config(ctx, b, fft, cp, used, lengths):
    """token-exact comparison of every index-layer mechanism for one valid configuration"""
    o = _ofdm()
    obj = o.OFDM(fft, cp, used)
    key = (fft, cp, used)
    idx = ints(obj.get_used_subcarrier_indexes())
    num = ints(obj._get_used_subcarrier_numbers())
    b.add('idx %d %d' % (fft, used), lambda r, idx=idx: ctx.corr('get_used_subcarrier_indexes', key, idx, r, key=('idx', fft, used)))
    b.add('gidx %d %d' % (fft, used), lambda r, idx=idx: ctx.corr('generated.get_used_subcarrier_indexes', key, idx, r, key=('gidx', fft, used)))
    b.add('gnum %d %d' % (fft, used), lambda r, num=num: ctx.corr('generated.get_used_subcarrier_numbers', key, num, r, key=('gnum', fft, used)))
    for n in lengths:
        zp = '%d %d' % tuple(int(v) for v in obj._calc_zeropad(n))
        b.add('zeropad %d %d' % (used, n), lambda r, zp=zp, n=n: ctx.corr('_calc_zeropad', key + (n,), zp, r, key=('zp', used, n)))
        b.add('gzeropad %d %d' % (used, n), lambda r, zp=zp, n=n: ctx.corr('generated._calc_zeropad', key + (n,), zp, r, key=('gzp', used, n)))
        tok = np.arange(1, n + 1).astype(complex)
        prep = obj._prepare_input_signal(tok)
        R = prep.shape[0]
        if prep.shape[1] != fft:
            ctx.corr('_prepare_input_signal.shape', key + (n,), str(prep.shape), str((R, fft)))
        def cmp_prep(r, v=ints(prep), n=n):
            ctx.corr('_prepare_input_signal', key + (n,), v, r, key=('prep', fft, used, n))
            if n > used and fft >= 6 and used < fft and sum(1 for x in ctx.samples if x.get('call') == 'prep') < 2:
                ctx.sample({'call': 'prep', 'line': 'prep %d %d %d %d' % (fft, cp, used, n), 'impl': v, 'model': r})
        b.add('prep %d %d %d %d' % (fft, cp, used, n), cmp_prep)
        ctx.branch('prep:pad' if (-n) % used else 'prep:nopad')
    R = 2
    rows_tok = np.arange(1, R * fft + 1).reshape(R, fft).astype(complex)
    withcp = obj._add_CP(rows_tok)
    b.add('addcp %d %d %d' % (cp, fft, R),
          lambda r, v=ints(withcp): ctx.corr('_add_CP', key, v, r, key=('addcp', fft, cp)))
    ctx.branch('cp:zero' if cp == 0 else 'cp:full' if cp == fft else 'cp:partial')
    for ln in (R * (fft + cp), R * (fft + cp) + 1, (fft + cp) - 1):
        tok = np.arange(1, ln + 1).astype(complex)
        try:
            v = ints(obj._remove_CP(tok))
        except Exception as e:
            v = 'error:' + type(e).__name__
        b.add('rmcp %d %d %d' % (fft, cp, ln),
              lambda r, v=v, ln=ln: ctx.corr('_remove_CP', key + (ln,), v, r, key=('rmcp', fft, cp, ln)))
        ctx.branch('rmcp:error' if v.startswith('error') else 'rmcp:ok')
    dec = obj._prepare_decoded_signal(rows_tok)
    b.add('unprep %d %d %d' % (fft, used, R),
          lambda r, v=ints(dec): ctx.corr('_prepare_decoded_signal', key, v, r, key=('unprep', fft, used)))
    ctx.branch('cfg:all-used' if used == fft else 'cfg:guards')


def corr_params(ctx, b, n):
    rng = ctx.rng
    for _ in range(n):
        fft = rng.randint(-2, 40)
        cp = rng.randint(-3, 45)
        r = rng.uniform()
        used = None if r < 0.2 else rng.randint(-4, 44)
        line = 'params %d %d %s' % (fft, cp, 'none' if used is None else used)
        impl = impl_params(fft, cp, used)
        b.add(line, lambda r, impl=impl, c=(fft, cp, used): ctx.corr('set_parameters', c, impl, r, key=('params',) + c))
        ctx.branch('params:' + ('ok' if impl.startswith('ok') else impl))
    # histories of set_parameters on one object
    o = _ofdm()
    for _ in range(max(4, n // 10)):
        f0, c0, u0 = gen_config(rng, 32)
        obj = o.OFDM(f0, c0, u0)
        ops, flags = [], ''
        for _ in range(rng.randint(1, 8)):
            if rng.chance(0.5):
                f, c, u = gen_config(rng, 32)
            else:
                f, c, u = rng.randint(0, 20), rng.randint(-1, 22), rng.choice([None, rng.randint(0, 22)])
            ops.append('%d:%d:%s' % (f, c, 'none' if u is None else u))
            try:
                obj.set_parameters(f, c, u)
                flags += '0'
            except ValueError:
                flags += '1'
        impl = '%d %d %d %s' % (obj.fft_size, obj.cp_size, obj.num_used_subcarriers, flags)
        b.add('hist %d %d %d %s' % (f0, c0, u0, ';'.join(ops)),
              lambda r, impl=impl, c=(f0, c0, u0, tuple(ops)): ctx.corr('set_parameters.history', c, impl, r))
        ctx.branch('history')


def np_fft_contract(ctx, n, v):
    """numpy's kernels against the documented definition (the contract the theorems assume)"""
    v = np.asarray(v, dtype=complex)
    want = dft_matrix(n) @ (np.concatenate([v, np.zeros(max(0, n - v.size))])[:n])
    e1 = near(np.fft.fft(v, n), want)
    wanti = dft_matrix(n, +1.0) @ (np.concatenate([v, np.zeros(max(0, n - v.size))])[:n]) / n
    e2 = near(np.fft.ifft(v, n), wanti)
    ctx.corr('np.fft.contract', {'n': n, 'len': int(v.size)}, 'match' if (e1 is None and e2 is None) else 'differs %s %s' % (e1, e2),
             'match', key=('fftc', n, int(v.size)))


def corr_numeric(ctx, b, i, fmax):
    rng = ctx.rng
    o = _ofdm()
    if True:
        fft, cp, used = gen_config(rng, fmax)
        obj = o.OFDM(fft, cp, used)
        n = gen_length(rng, used)
        x = cx(gen_symbols(rng, n, integer=rng.chance(0.5)))
        tx = obj.modulate(x.copy())
        case = {'fft': fft, 'cp': cp, 'used': used, 'n': n}
        # the scale is whatever the implementation uses (the property does not depend on its value);
        # contract of the theorems: a finite, non-zero number
        ps = float(obj._calculate_power_scale())
        s_impl = math.sqrt(ps) if ps > 0 else float('nan')
        ctx.corr('scale.contract', case, 'finite-nonzero' if (math.isfinite(s_impl) and s_impl != 0.0) else repr(ps),
                 'finite-nonzero', key=('scale', fft, cp, used))
        b.add('gscale %d %d %d' % (fft, cp, used),
              lambda r, ps=ps, case=case: ctx.corr('generated._calculate_power_scale', case, core.f2s(ps), r,
                                                   key=('gscale', case['fft'], case['cp'], case['used'])))
        sf = core.f2s(s_impl)
        b.add('mod %d %d %d %s %s' % (fft, cp, used, sf, fl(x)),
              lambda r, tx=tx, case=case: ctx.corr('modulate', case, 'match', near(tx, parse_cx(r)) or 'match',
                                                    key=('mod', case['fft'], case['cp'], case['used'], case['n'])))
        y = tx + cx(gen_symbols(rng, tx.size, integer=False)) * 0.1 if rng.chance(0.5) else tx
        dem = obj.demodulate(np.array(y, copy=True))
        b.add('demod %d %d %d %s %s' % (fft, cp, used, sf, fl(y)),
              lambda r, dem=dem, case=case: ctx.corr('demodulate', case, 'match', near(dem, parse_cx(r)) or 'match',
                                                     key=('demod', case['fft'], case['cp'], case['used'], case['n'])))
        bad = y[:-1] if y.size else np.ones(1, dtype=complex)
        try:
            obj.demodulate(np.array(bad, copy=True))
            impl = 'ok'
        except Exception as e:
            impl = 'error:' + type(e).__name__
        b.add('demod %d %d %d %s %s' % (fft, cp, used, sf, fl(bad)),
              lambda r, impl=impl, case=case: ctx.corr('demodulate.badlength', case, impl, r if r.startswith('error') else 'ok',
                                                       key=('demodbad', case['fft'], case['cp'], case['n'])))
        ctx.branch('demod:' + impl)
        if i % 5 == 0:
            np_fft_contract(ctx, fft, cx(gen_symbols(rng, fft, integer=False)))
        ctx.branch('numeric:modulate')


def corr_channel(ctx, b, i, fmax):
    rng = ctx.rng
    o = _ofdm()
    if True:
        fft, cp, used = gen_config(rng, fmax)
        obj = o.OFDM(fft, cp, used)
        n = max(1, gen_length(rng, used))
        x = cx(gen_symbols(rng, n, integer=False))
        tx = obj.modulate(x.copy())
        # memory anywhere in 0 .. fft+2 (also beyond the CP and beyond the FFT size: the model crops like the code)
        mode = i % 8          # the structured corners are visited deterministically, the rest is seeded
        if mode == 1:
            delays, powers, draw = gen_profile(rng, fft + 1, force=True)      # response cropped by fft(taps, fft)
        elif mode == 2:
            delays, powers, draw = gen_profile(rng, cp, force=True)           # memory = cp exactly
        elif mode == 3:
            delays, powers, draw = gen_profile(rng, cp + 1, force=True)       # one sample beyond the prefix
        else:
            delays, powers, draw = gen_profile(rng, rng.choice([cp, cp, fft, fft + 2, max(0, cp - 1)]))
        if mode in (4, 6, 7):
            # the same kind of profile listed reversed / shuffled / with paths colliding after rounding (memory <= cp)
            order = {4: 'reversed', 6: 'unsorted', 7: 'colliding'}[mode]
            delays, powers, draw = gen_profile(rng, max(1, min(cp, fft - 1)) if cp else 0, force=True, order=order)
        static = rng.chance(0.5) if mode not in (2, 5) else mode == 2
        kind = profile_kind(delays)
        exp_idx, _ = expected_discretisation(delays, powers)
        # every profile is a legal argument: an exception here is a disagreement with the model (which has none)
        if static:
            ch = make_static_channel(delays, powers, cx(draw))
        else:
            ch = make_rayleigh_channel(delays, powers, rng.u64())
        rx = ch.corrupt_data(np.array(tx, copy=True))
        ir = ch.get_last_impulse_response()
        ctx.corr('TdlChannelProfile.discretisation', {'delays': delays, 'kind': kind},
                 [int(v) for v in np.asarray(ir.tap_indexes_sparse)], exp_idx, key=('disc', i))
        ctx.branch('profile:%s:corr' % kind)
        d = [int(v) for v in np.asarray(ir.tap_indexes_sparse)]
        vals = np.asarray(ir.tap_values_sparse, dtype=complex)
        ns = int(vals.shape[1])
        memory = d[-1]
        case = {'fft': fft, 'cp': cp, 'used': used, 'n': n, 'delays': d, 'static': static}
        dl = ','.join(map(str, d))
        b.add('corrupt %s %d %s %s' % (dl, ns, fl(vals), fl(tx)),
              lambda r, rx=rx, case=case: ctx.corr('TdlChannel.corrupt_data', case, 'match', near(rx, parse_cx(r)) or 'match',
                                                   key=('corrupt', i)))
        H = ir.get_freq_response(fft)          # fft x ns
        b.add('freq %d %s %d %s' % (fft, dl, ns, fl(vals)),
              lambda r, H=H, case=case: ctx.corr('get_freq_response', case, 'match', near(H.T, parse_cx(r)) or 'match',
                                                 key=('freq', i)))
        dem = obj.demodulate(np.array(rx[:tx.size], copy=True))
        try:
            eq = o.OfdmOneTapEqualizer(obj).equalize_data(dem, ir)
            impl_ok = True
        except Exception as e:
            eq, impl_ok = 'error:' + type(e).__name__, False

        def cmp_eq(r, eq=eq, impl_ok=impl_ok, case=case):
            if not impl_ok or r.startswith('error'):
                ctx.corr('equalize_data', case, eq if not impl_ok else 'ok', r if r.startswith('error') else 'ok', key=('eq', i))
            else:
                m = parse_cx(r)
                good = np.isfinite(m) & np.isfinite(eq) & (np.abs(eq) < 1e6)
                ctx.corr('equalize_data', case, 'match', near(eq[good], m[good], 1e-7) or 'match', key=('eq', i))
                if np.all(np.isfinite(eq[:3])) and np.all(np.isfinite(m[:3])) \
                        and sum(1 for x in ctx.samples if x.get('call') == 'equalize_data') < 2:
                    ctx.sample({'call': 'equalize_data', 'case': case, 'impl_head': pairs(eq[:3]), 'model_head': pairs(m[:3])})
        b.add('eq %d %d %d %s %d %s %s' % (fft, cp, used, dl, ns, fl(vals), fl(dem)), cmp_eq)
        # error / corner branches of equalize_data: data not a multiple of used, a number of samples that is not
        # a multiple of the number of OFDM symbols, and no data at all
        if i % 3 == 0:
            variants = [('baddata', dem[:-1], d, ns, vals), ('empty', dem[:0], d, ns, vals)]
            if ns > 1:
                variants.append(('badns', dem, d, ns - 1, vals[:, :-1]))
            for tag, dd, d2, ns2, v2 in variants:
                fading, _ = _fading()
                ir2 = fading.TdlImpulseResponse(np.array(v2), ir.channel_profile)
                try:
                    r2 = o.OfdmOneTapEqualizer(obj).equalize_data(np.array(dd, copy=True), ir2)
                    impl2 = 'ok:%d' % r2.size
                except Exception as e:
                    impl2 = 'error:' + type(e).__name__
                c2 = dict(case, variant=tag)
                b.add('eq %d %d %d %s %d %s %s' % (fft, cp, used, dl, ns2, fl(v2), fl(dd)),
                      lambda r, impl2=impl2, c2=c2, tag=tag: ctx.corr(
                          'equalize_data.' + tag, c2, impl2,
                          r if r.startswith('error') else 'ok:%d' % parse_cx(r).size, key=('eqv', i, tag)))
                ctx.branch('eq:' + tag + ':' + impl2.split(':')[0])
        ctx.branch('channel:' + ('static' if static else 'time-varying'))
        ctx.branch('channel:' + ('memory>cp' if memory > cp else 'memory==fft' if memory >= fft else 'memory<=cp'))
        if memory + 1 > fft:
            ctx.branch('freq:cropped')


def corr_robust(ctx, b, i):
    """R1, R2, R3, R5, R6 in the correspondence: the implementation is driven with typed / non-contiguous / scaled /
    deep-notch inputs, the model with the LOGICAL values (it is a function of the values only); the implementation's
    arguments are snapshotted and must be unchanged afterwards (the model is pure)"""
    rng = ctx.rng
    o = _ofdm()
    mode = i % 6
    while True:
        fft, cp, used = gen_config(rng, 32)
        if cp >= 1 or mode not in (3,):
            break
    n = max(1, gen_length(rng, used))
    x = cx(gen_symbols(rng, n, integer=True))
    delays, powers, draw = gen_profile(rng, min(cp, fft - 1), force=rng.chance(0.5))
    ptype, tol_rx, tag = int, TOL, 'plain'
    if mode == 0:                                   # R1 narrow integer parameters + typed symbol arrays
        ptype = getattr(np, rng.choice(['int16', 'uint16', 'int32', 'int64'] + (['uint8', 'int8'] if fft + cp < 120 else [])))
        dt = np.dtype(rng.choice(ARRAY_TYPES))
        xin = x.real.astype(dt) if dt.kind != 'c' else x.astype(dt)
        x = xin.astype(complex)
        tag = 'R1'
    elif mode == 1:                                 # R2 layout
        xin = _views(x, rng.choice(['strided', 'reversed', 'offset', 'fortran-column', 'readonly']))
        tag = 'R2'
    elif mode == 2:                                 # R6 scale
        f1, f2 = rng.choice(SCALES), rng.choice([1.0] + SCALES)
        x = x * f1
        xin = x.copy()
        draw = scaled(draw, f2)
        tag = 'R6'
    elif mode == 3:                                 # R5 deep notch on a used carrier
        depth = rng.choice([1e-3, 1e-5])
        delays, powers, draw = notch_profile(rng, fft, cp, used, depth)
        x = cx(gen_symbols(rng, n, integer=False))
        xin = x.copy()
        tag = 'R5'
    elif mode == 4:                                 # R5 boundary sizes, all-zero / single symbol
        fft, cp, used = rng.choice(boundary_configs(BOUNDARY_SIZES[:12]))
        delays, powers, draw = gen_profile(rng, min(cp, fft - 1), force=True)
        x = rng.choice([np.zeros(used + 1, dtype=complex), cx(gen_symbols(rng, 1, integer=False))])
        xin = x.copy()
        tag = 'R5'
    else:                                           # R1 single precision received signal
        xin = x.copy()
        tag = 'R1'
    obj = o.OFDM(ptype(fft), ptype(cp), ptype(used))
    eqz = o.OfdmOneTapEqualizer(obj)
    case = {'fft': fft, 'cp': cp, 'used': used, 'n': int(x.size), 'class': tag, 'mode': mode}
    ps = float(obj._calculate_power_scale())
    sf = core.f2s(math.sqrt(ps))
    snaps = []
    sx = _snap(xin)
    tx = obj.modulate(xin)
    snaps.append(('modulate', xin, sx))
    b.add('mod %d %d %d %s %s' % (fft, cp, used, sf, fl(x)),
          lambda r, tx=tx: ctx.corr('robust.modulate', case, 'match', near(tx, parse_cx(r)) or 'match', key=('rb-mod', i)))
    ch = make_static_channel(delays, powers, cx(draw))
    rx = ch.corrupt_data(np.array(tx, copy=True))[:tx.size]
    ir = ch.get_last_impulse_response()
    if mode == 5:
        rx_in = rx.astype(np.complex64)
        rx = rx_in.astype(complex)
        tol_rx = 1e-5
    elif mode == 1:
        rx_in = _views(rx, rng.choice(['strided', 'reversed', 'offset', 'readonly']))
    else:
        rx_in = np.array(rx, copy=True)
    srx = _snap(rx_in)
    dem = obj.demodulate(rx_in)
    snaps.append(('demodulate', rx_in, srx))
    b.add('demod %d %d %d %s %s' % (fft, cp, used, sf, fl(rx)),
          lambda r, dem=dem, tol_rx=tol_rx: ctx.corr('robust.demodulate', case, 'match', near(dem, parse_cx(r), tol_rx) or 'match',
                                                     key=('rb-dem', i)))
    dem_l = np.asarray(dem).astype(complex)
    dem_in = _views(dem_l, 'strided') if mode == 1 else np.array(dem_l, copy=True)
    sdem = _snap(dem_in)
    taps = np.asarray(ir.tap_values_sparse)
    staps = _snap(taps)
    out = eqz.equalize_data(dem_in, ir)
    snaps.append(('equalize_data', dem_in, sdem))
    snaps.append(('equalize_data.impulse_response', taps, staps))
    d = ','.join(str(int(v)) for v in np.asarray(ir.tap_indexes_sparse))
    vals = np.asarray(ir.tap_values_sparse, dtype=complex)

    def cmp_out(r, out=out):
        m = parse_cx(r) if not r.startswith('error') else None
        if m is None or m.shape != np.asarray(out).ravel().shape:
            ctx.corr('robust.equalize_data', case, 'ok', r[:60], key=('rb-eq', i))
            return
        good = np.isfinite(m) & np.isfinite(out)
        ctx.corr('robust.equalize_data', case, 'match', near(out[good], m[good], 1e-7) or 'match', key=('rb-eq', i))
    b.add('eq %d %d %d %s %d %s %s' % (fft, cp, used, d, vals.shape[1], fl(vals), fl(dem_l)), cmp_out)
    # R3: the model is a pure function of its arguments; the implementation must leave them alone too
    bad = [name for name, arr, sn in snaps if not _same(arr, sn)]
    ctx.corr('robust.arguments-unchanged', case, 'unchanged' if not bad else 'mutated: ' + ','.join(bad), 'unchanged',
             key=('rb-r3', i))
    ctx.branch('R3:corr')
    ctx.branch(tag + ':corr')
    if mode == 3:
        ctx.branch('R5:corr:deep-notch')


def _pair_request(ctx, b, name, tag, init, ops, checks, final=None):
    """send one history to the model's pair state machine; `checks[k](reply_k)` compares output k"""
    def on_reply(r):
        parts = r.split('|')
        if len(parts) != len(checks) + 1:
            ctx.corr(name, tag, '%d outputs' % (len(checks) + 1), '%d outputs: %s' % (len(parts), r[:80]))
            return
        for chk, rep in zip(checks, parts):
            chk(rep)
        if final is not None:
            ctx.corr(name + '.final-state', tag, final, parts[-1], key=(name, 'final', tag))
    b.add('pair %d %d %d %s' % (init[0], init[1], init[2], ';'.join(ops)), on_reply)


def _num_check(ctx, name, tag, arr, tol):
    arr = np.asarray(arr, dtype=complex).ravel()

    def chk(r):
        if r.startswith('error') or r == 'ok':
            return ctx.corr(name, tag, 'value', r, key=(name, tag))
        m = parse_cx(r)
        if m.shape != arr.shape:
            return ctx.corr(name, tag, 'shape %s' % (arr.shape,), 'shape %s' % (m.shape,), key=(name, tag))
        good = np.isfinite(arr) & np.isfinite(m) & (np.abs(arr) < 1e6)
        return ctx.corr(name, tag, 'match', near(arr[good], m[good], tol) or 'match', key=(name, tag, arr.size))
    return chk


def corr_robust2(ctx, b, i):
    """R8-R14 in the correspondence: the implementation is driven through other argument forms, index types, with
    queries between the mutators, with derived objects used late, with re-ordered paths and with large counts; the
    model sees the logical history only"""
    rng = ctx.rng
    o = _ofdm()
    mode = i % 6
    tag = 'rb2-%d' % i
    if mode in (0, 1):
        # R8 / R9: configuration reached through another argument form / with another integer type
        while True:
            f, c, u = gen_config(rng, 24)
            if mode == 1 or True:
                break
        form = rng.choice(OFDM_FORMS)
        if form.startswith('default') or form == 'setter-default':
            f += f % 2
            u, c = f, min(c, f)
        other = gen_config(rng, 24)
        if mode == 0:
            obj = _build_ofdm(o, form, f, c, u, other)
            ops, init = [], (f, c, u)
            if form.startswith('setter') or form == 'replaced-twice':
                init = other
                ops = ['set:%d:%d:%d' % (f, c, u)]
            cls = 'R8'
        else:
            ty = rng.choice(['intp', 'int64', 'uint16', '0-d-array', 'fresh-int'])
            conv = (lambda v: np.array(v)) if ty == '0-d-array' else (lambda v: int(str(v))) if ty == 'fresh-int' \
                else getattr(np, ty)
            obj = o.OFDM(conv(f), conv(c), conv(u))
            ops, init, cls = [], (f, c, u), 'R9'
        checks = [lambda r: ctx.corr('robust2.set_parameters', tag, 'ok', r)] * len(ops)
        eqz = o.OfdmOneTapEqualizer(ofdm_obj=obj)
        n = max(1, gen_length(rng, u))
        x = cx(gen_symbols(rng, n, integer=False))
        delays, powers, draw = gen_profile(rng, min(c, f - 1), force=True)
        ch = make_static_channel(delays, powers, cx(draw))
        sf = core.f2s(math.sqrt(float(obj._calculate_power_scale())))
        tx = obj.modulate(input_signal=x.copy())
        rx = ch.corrupt_data(np.array(tx, copy=True))
        ir = ch.get_last_impulse_response()
        dem = obj.demodulate(received_signal=np.array(rx[:tx.size], copy=True))
        out = eqz.equalize_data(impulse_response=ir, data=np.array(dem, copy=True))
        d = ','.join(str(int(v)) for v in np.asarray(ir.tap_indexes_sparse))
        vals = np.asarray(ir.tap_values_sparse, dtype=complex)
        ops += ['idx', 'zp:%d' % n, 'mod:%s:%s' % (sf, fl(x)), 'demod:%s:%s' % (sf, fl(rx[:tx.size])),
                'eq:%s:%d:%s:%s' % (d, vals.shape[1], fl(vals), fl(dem))]
        checks += [_num_check(ctx, 'robust2.get_used_subcarrier_indexes', tag, obj.get_used_subcarrier_indexes(), 0.0),
                   _num_check(ctx, 'robust2._calc_zeropad', tag, np.array(obj._calc_zeropad(n)), 0.0),
                   _num_check(ctx, 'robust2.modulate', tag, tx, TOL), _num_check(ctx, 'robust2.demodulate', tag, dem, TOL),
                   _num_check(ctx, 'robust2.equalize_data', tag, out, 1e-7)]
        _pair_request(ctx, b, 'robust2.' + cls, tag, init, ops, checks,
                      '%d %d %d' % (obj.fft_size, obj.cp_size, obj.num_used_subcarriers))
        ctx.branch(cls + ':corr')
        if mode == 1:
            # sizes above 256 as distinct python ints / numpy ints: index map and padding only (the O(N^3) list DFT of the
            # model is not run at this size)
            F, C, U = rng.choice([(512, 300, 512), (300, 257, 258), (258, 0, 258)])
            big = o.OFDM(int(str(F)), np.intp(C), int(str(U)))
            _pair_request(ctx, b, 'robust2.R9.big', tag + 'b', (F, C, U), ['idx', 'zp:%d' % (U + 1)],
                          [_num_check(ctx, 'robust2.get_used_subcarrier_indexes', tag + 'b', big.get_used_subcarrier_indexes(), 0.0),
                           _num_check(ctx, 'robust2._calc_zeropad', tag + 'b', np.array(big._calc_zeropad(U + 1)), 0.0)],
                          '%d %d %d' % (F, C, U))
            ctx.branch('R9:corr:size>256')
    elif mode == 2:
        # R11: queries between the mutators
        init, sets = gen_history(rng, k=rng.randint(1, 3))
        hc = history_case(rng, init, sets)
        obj = o.OFDM(*init)
        eqz = o.OfdmOneTapEqualizer(obj)
        ops, checks = [], []
        for st in hc['steps']:
            f, c, u = st['set']
            try:
                obj.set_parameters(f, c, u)
                flag = 'ok'
            except ValueError:
                flag = 'error:ValueError'
            ops.append('set:%d:%d:%s' % (f, c, 'none' if u is None else u))
            checks.append(lambda r, flag=flag: ctx.corr('robust2.set_parameters', tag, flag, r))
            x = cx(st['x'] if st['x'] else gen_symbols(rng, 2, integer=False))
            ch = make_static_channel(st['delays'], st['powers_dB'], cx(st['draw']))
            tx0 = obj.modulate(x.copy())
            ch.corrupt_data(np.array(tx0, copy=True))
            ir = ch.get_last_impulse_response()
            qs = list(QUERIES[:-1])
            rng.shuffle(qs)
            for q in qs[:rng.randint(4, 10)]:
                _do_query(q, obj, eqz, ch, ir, x, x.size)
            sf = core.f2s(math.sqrt(float(obj._calculate_power_scale())))
            ops += ['idx', 'zp:%d' % x.size, 'mod:%s:%s' % (sf, fl(x))]
            checks += [_num_check(ctx, 'robust2.get_used_subcarrier_indexes', tag, obj.get_used_subcarrier_indexes(), 0.0),
                       _num_check(ctx, 'robust2._calc_zeropad', tag, np.array(obj._calc_zeropad(x.size)), 0.0),
                       _num_check(ctx, 'robust2.modulate', tag, obj.modulate(x.copy()), TOL)]
        _pair_request(ctx, b, 'robust2.R11', tag, init, ops, checks,
                      '%d %d %d' % (obj.fft_size, obj.cp_size, obj.num_used_subcarriers))
        ctx.branch('R11:corr')
    elif mode == 3:
        # R13: an impulse response taken from the channel is used after the channel (and the OFDM object) moved on
        f, c, u = gen_config(rng, 24)
        obj = o.OFDM(f, c, u)
        eqz = o.OfdmOneTapEqualizer(obj)
        delays, powers, draw = gen_profile(rng, min(c, f - 1), force=True)
        ch = make_static_channel(delays, powers, cx(draw))
        x = cx(gen_symbols(rng, max(1, gen_length(rng, u)), integer=False))
        tx = obj.modulate(x.copy())
        rx = ch.corrupt_data(np.array(tx, copy=True))
        ir1 = ch.get_last_impulse_response()
        vals1 = np.array(ir1.tap_values_sparse, dtype=complex, copy=True)
        d1 = ','.join(str(int(v)) for v in np.asarray(ir1.tap_indexes_sparse))
        dem = obj.demodulate(np.array(rx[:tx.size], copy=True))
        ch.corrupt_data(np.array(obj.modulate(cx(gen_symbols(rng, u + 1, integer=False))), copy=True))    # the parent moves on
        (3.0 * ir1)
        late = eqz.equalize_data(np.array(dem, copy=True), ir1)
        b.add('eq %d %d %d %s %d %s %s' % (f, c, u, d1, vals1.shape[1], fl(vals1), fl(dem)),
              _num_check(ctx, 'robust2.equalize_data.earlier-impulse-response', tag, late, 1e-7))
        ctx.branch('R13:corr')
    elif mode == 4:
        # R12 / R10: the same paths listed in two orders, once as integer-dtype arrays: one model channel output
        f, c, u = gen_config(rng, 24)
        while c < 3 or f < 4:
            f, c, u = gen_config(rng, 24)
        delays, powers, draw = gen_profile(rng, min(c, f - 1), force=True, order='sorted')
        powers = [float(round(v)) for v in powers]
        obj = o.OFDM(f, c, u)
        tx = obj.modulate(cx(gen_symbols(rng, u + 1, integer=False)))
        ch = make_static_channel(delays, powers, cx(draw))
        ch.corrupt_data(np.array(tx, copy=True))
        ir = ch.get_last_impulse_response()
        vals = np.asarray(ir.tap_values_sparse, dtype=complex)
        line = 'corrupt %s %d %s %s' % (','.join(str(int(v)) for v in ir.tap_indexes_sparse), vals.shape[1], fl(vals), fl(tx))
        pm = list(range(len(delays)))
        rng.shuffle(pm)
        rx_b = make_static_channel([delays[k] for k in pm], [powers[k] for k in pm], cx(draw)).corrupt_data(np.array(tx, copy=True))
        rx_c = _build_channel('int-tap-arrays', delays, powers, cx(draw)).corrupt_data(np.array(tx, copy=True))
        b.add(line, _num_check(ctx, 'robust2.corrupt_data.other-listing-order', tag, rx_b, TOL))
        b.add(line, _num_check(ctx, 'robust2.corrupt_data.int-tap-arrays', tag, rx_c, TOL))
        ctx.branch('R12:corr')
        ctx.branch('R10:corr')
    else:
        # R14: large counts - taps, OFDM symbols, input length, fft size (index layer)
        ntaps = rng.choice([257, 258, 300])
        tx = cx(gen_symbols(rng, 40, integer=False))
        ch = make_static_channel(list(range(ntaps)), [round(-rng.uniform(0, 30), 3) for _ in range(ntaps)],
                                 cx([[rng.gauss(), rng.gauss()] for _ in range(ntaps)]))
        rx = ch.corrupt_data(np.array(tx, copy=True))
        ir = ch.get_last_impulse_response()
        vals = np.asarray(ir.tap_values_sparse, dtype=complex)
        b.add('corrupt %s %d %s %s' % (','.join(str(int(v)) for v in ir.tap_indexes_sparse), vals.shape[1], fl(vals), fl(tx)),
              _num_check(ctx, 'robust2.corrupt_data.taps>256', tag, rx, TOL))
        nsym = rng.choice([257, 258, 300])
        obj = o.OFDM(4, 1, 2)
        x = cx(gen_symbols(rng, 2 * nsym - 1, integer=True))
        sf = core.f2s(math.sqrt(float(obj._calculate_power_scale())))
        txs = obj.modulate(x.copy())
        b.add('mod 4 1 2 %s %s' % (sf, fl(x)), _num_check(ctx, 'robust2.modulate.symbols>256', tag, txs, TOL))
        b.add('demod 4 1 2 %s %s' % (sf, fl(txs)),
              _num_check(ctx, 'robust2.demodulate.symbols>256', tag, obj.demodulate(np.array(txs, copy=True)), TOL))
        F = rng.choice([257, 258, 300])
        corr_index_config(ctx, b, F, rng.choice([0, 1, F]), F - F % 2 if rng.chance(0.5) else 2 * rng.randint(1, F // 2), [F + 1])
        ctx.branch('R14:corr')


def corr_pair_history(ctx, b, case, tag, bufs=None):
    """the same history on ONE real OFDM object + ONE long-lived equaliser and on the model's pair state
    machine (`pair` command): every output and the final attributes are compared.
    `bufs` (R16): the implementation is handed the caller's preallocated arrays, refilled in place before every
    call (c02_close_reuse.Buffers), instead of fresh copies; the model is handed the values"""
    o = _ofdm()

    def arg(role, a):
        return np.array(a, copy=True) if bufs is None else bufs.fill(role, a)
    f, c, u = case['init']
    obj = o.OFDM(f, c, u)
    eqz = o.OfdmOneTapEqualizer(obj)
    eq2 = None
    ops, checks = [], []

    def num(name, arr, tol):
        def chk(r, arr=arr, name=name, tol=tol):
            if r.startswith('error'):
                return ctx.corr(name, tag, 'ok', r, key=(name, tag, len(checks)))
            m = parse_cx(r)
            a = np.asarray(arr, dtype=complex).ravel()
            good = np.isfinite(a) & (np.abs(a) < 1e6) if a.shape == m.shape else slice(None)
            return ctx.corr(name, tag, 'match', near(a[good], m[good], tol) or 'match' if a.shape == m.shape
                            else 'shape %s vs %s' % (a.shape, m.shape), key=(name, tag, id(arr)))
        return chk
    for st in case['steps']:
        f, c, u = st['set']
        try:
            obj.set_parameters(f, c, u)
            flag = 'ok'
        except ValueError:
            flag = 'error:ValueError'
        ops.append('set:%d:%d:%s' % (f, c, 'none' if u is None else u))
        checks.append(lambda r, flag=flag: ctx.corr('pair.set_parameters', tag, flag, r))
        ctx.branch('pair:set:' + flag.split(':')[0])
        ch = make_static_channel(st['delays'], st['powers_dB'], cx(st['draw']))     # any exception = disagreement (guarded)
        x = cx(st['x'])
        ps = float(obj._calculate_power_scale())
        sf = core.f2s(math.sqrt(ps) if ps > 0 else float('nan'))
        tx = np.array(obj.modulate(arg('x', x)), copy=True)
        rx = np.array(ch.corrupt_data(arg('tx', tx)), copy=True)
        ir = ch.get_last_impulse_response()
        dem = np.array(obj.demodulate(arg('rx', rx[:tx.size])), copy=True)
        d = ','.join(str(int(v)) for v in np.asarray(ir.tap_indexes_sparse))
        vals = np.asarray(ir.tap_values_sparse, dtype=complex)
        ops.append('mod:%s:%s' % (sf, fl(x)))
        checks.append(num('pair.modulate', tx, TOL))
        ops.append('demod:%s:%s' % (sf, fl(rx[:tx.size])))
        checks.append(num('pair.demodulate', dem, TOL))
        try:
            out = np.array(eqz.equalize_data(arg('dem', dem), ir), copy=True)
            ops.append('eq:%s:%d:%s:%s' % (d, vals.shape[1], fl(vals), fl(dem)))
            checks.append(num('pair.equalize_data', out, 1e-7))
        except Exception as e:
            ops.append('eq:%s:%d:%s:%s' % (d, vals.shape[1], fl(vals), fl(dem)))
            checks.append(lambda r, e=e: ctx.corr('pair.equalize_data', tag, 'raised ' + type(e).__name__,
                                                  r if r.startswith('error') else 'ok'))
        ctx.branch('pair:roundtrip')
        # R4: rejected calls in the middle of the history (wrong stream length) change nothing on either side
        badrx = np.array(rx[:max(1, tx.size - 1)], copy=True)
        try:
            obj.demodulate(badrx)
            flag = 'ok'
        except Exception as e:
            flag = 'error:' + type(e).__name__
        ops.append('demod:%s:%s' % (sf, fl(badrx)))
        checks.append(lambda r, flag=flag: ctx.corr('pair.demodulate.rejected', tag, flag, r if r.startswith('error') else 'ok'))
        ctx.branch('R4:corr')
        # R7: a second equaliser built later on the SAME object answers like the model's (stateless) equaliser
        if eq2 is None and len(ops) > 6:
            eq2 = o.OfdmOneTapEqualizer(obj)
        if eq2 is not None and dem.size:
            out_b = eq2.equalize_data(arg('dem', dem), ir)
            ops.append('eq:%s:%d:%s:%s' % (d, vals.shape[1], fl(vals), fl(dem)))
            checks.append(num('pair.equalize_data.second-equaliser', out_b, 1e-7))
            ctx.branch('R7:corr')
    final = '%d %d %d' % (obj.fft_size, obj.cp_size, obj.num_used_subcarriers)

    def on_reply(r):
        parts = r.split('|')
        if len(parts) != len(checks) + 1:
            ctx.corr('pair.history', tag, '%d outputs' % (len(checks) + 1), '%d outputs: %s' % (len(parts), r[:80]))
            return
        for chk, rep in zip(checks, parts):
            chk(rep)
        ctx.corr('pair.final-state', tag, final, parts[-1], key=('pair-final', tag))
    fi, ci, ui = case['init']
    b.add('pair %d %d %d %s' % (fi, ci, ui, ';'.join(ops)), on_reply)
    ctx.branch('pair:history')
    if bufs is not None:
        ctx.branch('R16:corr')


def correspondence(ctx, small, nparams, nrand, fmax, nnum, nchan):
    b = Batch(ctx)
    guarded(ctx, 'set_parameters', 'seeded', corr_params, ctx, b, nparams)
    # exhaustive small scope: every valid (fft <= small, cp <= fft, even used <= fft)
    for fft in range(2, small + 1):
        for used in range(2, fft + 1, 2):
            for cp in range(0, fft + 1):
                lengths = sorted({0, 1, used - 1, used, used + 1, 2 * used + 1}) if cp in (0, fft, fft // 2) else [used + 1]
                guarded(ctx, 'index-layer', (fft, cp, used), corr_index_config, ctx, b, fft, cp, used, lengths)
    # exhaustive guard table on the same scope
    for fft in range(-1, small + 1):
        for cp in range(-1, small + 2):
            for used in [None] + list(range(-1, small + 2)):
                impl = impl_params(fft, cp, used)
                b.add('params %d %d %s' % (fft, cp, 'none' if used is None else used),
                      lambda r, impl=impl, c=(fft, cp, used): ctx.corr('set_parameters', c, impl, r, nontrivial=False,
                                                                         key=('params',) + c))
        if fft > 12:
            break
    for _ in range(nrand):
        fft, cp, used = gen_config(ctx.rng, fmax)
        guarded(ctx, 'index-layer', (fft, cp, used), corr_index_config, ctx, b, fft, cp, used,
                sorted({gen_length(ctx.rng, used) for _ in range(3)}))
    for i in range(nnum):
        guarded(ctx, 'numeric-layer', i, corr_numeric, ctx, b, i, 64)
    for i in range(nchan):
        guarded(ctx, 'channel-layer', i, corr_channel, ctx, b, i, 32)
    for i in range(max(36, nchan)):
        guarded(ctx, 'robustness', i, corr_robust, ctx, b, i)
    for i in range(18 if nchan <= 40 else 120):
        guarded(ctx, 'robustness2', i, corr_robust2, ctx, b, i)
    # the token layer once on an input of 2^16 + 1 symbols
    guarded(ctx, 'index-layer', (4, 1, 2, 65537), corr_index_config, ctx, b, 4, 1, 2, [65537])
    ctx.branch('R14:corr:input>2^16')
    # histories on one OFDM object with one long-lived equaliser
    for i, (init, sets) in enumerate(STRUCTURED_HISTORIES):
        guarded(ctx, 'pair-history', 's%d' % i, corr_pair_history, ctx, b, history_case(ctx.rng, init, sets), 's%d' % i)
    for i in range(max(10, nchan // 2)):
        init, sets = gen_history(ctx.rng)
        guarded(ctx, 'pair-history', i, corr_pair_history, ctx, b, history_case(ctx.rng, init, sets), i)
    # R16: the same kind of histories, the implementation driven with the caller's buffers refilled in place
    for i, (init, sets) in enumerate(STRUCTURED_HISTORIES[2:]):          # (the fft 64 / 128 ones are cubic in the model)
        guarded(ctx, 'pair-history-buffers', 's%d' % i, corr_pair_history, ctx, b, history_case(ctx.rng, init, sets),
                'r16-s%d' % i, CR.Buffers(views=i % 2 == 1))
    for i in range(6 if nchan <= 40 else 60):
        init, sets = gen_history(ctx.rng, k=ctx.rng.randint(2, 4))
        guarded(ctx, 'pair-history-buffers', i, corr_pair_history, ctx, b, history_case(ctx.rng, init, sets),
                'r16-%d' % i, CR.Buffers(views=i % 2 == 1))
    # R15: close-but-distinct values
    guarded(ctx, 'close-values', 'R15', CR.corr_close, ctx, b, nchan <= 40)
    b.flush()


# ------------------------------------------------------------------ oracle runs
def run_corpus(ctx):
    """minimised past failures and boundary cases; always run, whatever the seed"""
    import glob
    import json
    import os
    for fn in sorted(glob.glob(os.path.join(core.VERIF, 'corpus', 'c02', '*.json'))):
        with open(fn) as f:
            rec = json.load(f)
        run_oracle(ctx, rec['call'], rec['case'], key=('corpus', os.path.basename(fn)))
        ctx.branch('corpus')


def scaled(v, f):
    return [[a * f, b * f] for a, b in v]


def robust_oracles(ctx, quick):
    """R1-R7 on the real code, each class with its own branch"""
    rng = ctx.rng

    def base(fmax=40, need_cp=False):
        while True:
            fft, cp, used = gen_config(rng, fmax)
            if not need_cp or cp >= 1:
                break
        delays, powers, draw = gen_profile(rng, min(cp, fft - 1), force=rng.chance(0.5))
        n = max(1, gen_length(rng, used))
        return {'fft': fft, 'cp': cp, 'used': used, 'x': gen_symbols(rng, n, integer=True),
                'delays': delays, 'powers_dB': powers, 'draw': draw}
    # R1 element types
    for ty in INT_TYPES:
        for cfg in ([(64, 16, 52), (12, 3, 8)] + ([(200, 50, 180)] if ty != 'int8' else [])):
            c = base()
            c.update(fft=cfg[0], cp=cfg[1], used=cfg[2], kind='param', type=ty)
            c['delays'], c['powers_dB'], c['draw'] = gen_profile(rng, min(cfg[1], cfg[0] - 1), force=True)
            run_oracle(ctx, 'types', c, key=('R1p', ty, cfg))
            ctx.branch('R1:oracle:param')
    c = base(); c.update(kind='param-float', type='float')
    run_oracle(ctx, 'types', c, key=('R1pf',))
    for ty in ARRAY_TYPES:
        for _ in range(2 if quick else 8):
            c = base(); c.update(kind='array', type=ty)
            run_oracle(ctx, 'types', c, key=('R1a', ty, c['fft'], c['cp'], c['used']))
            ctx.branch('R1:oracle:array')
    # R2 layouts and shapes
    for lay in LAYOUTS + ['0-d', '2-d-row', '2-d-column', '3-d']:
        for _ in range(2 if quick else 8):
            c = base(); c['layout'] = lay
            run_oracle(ctx, 'layout', c, key=('R2', lay, c['fft'], c['cp'], c['used']))
            ctx.branch('R2:oracle')
    # R3 immutability / independence
    for _ in range(6 if quick else 40):
        c = base()
        c['rounds'] = [gen_symbols(rng, max(1, gen_length(rng, c['used'])), integer=False) for _ in range(rng.randint(2, 3))]
        del c['x']
        run_oracle(ctx, 'immut', c, key=('R3', c['fft'], c['cp'], c['used']))
        ctx.branch('R3:oracle')
    # R4 rejected calls
    for _ in range(6 if quick else 40):
        c = base()
        bad = [['set', [rng.randint(0, 9), rng.randint(10, 14), 4]], ['demodulate-length'], ['modulate-2d'],
               ['equalize-length'], ['set-float'], ['set-none-fft'], ['set', [c['fft'], c['cp'], c['used'] + 1]]]
        rng.shuffle(bad)
        c['bad'] = bad[:rng.randint(2, len(bad))]
        run_oracle(ctx, 'rejected', c, key=('R4', c['fft'], c['cp'], c['used']))
        ctx.branch('R4:oracle')
    # R5 boundary and degenerate values
    for fft, cp, used in boundary_configs(BOUNDARY_SIZES if quick else BOUNDARY_SIZES_THOROUGH):
        n = rng.choice([0, 1, used - 1, used, used + 1])
        case = {'fft': fft, 'cp': cp, 'used': used, 'x': gen_symbols(rng, n, integer=rng.chance(0.5))}
        for call in ('roundtrip', 'structure') + (('guards',) if used < fft else ()):
            run_oracle(ctx, call, case, key=('R5', call, fft, cp, used, n))
        ctx.branch('R5:oracle:sizes')
        if fft in (2, 3, 9, 16, 33, 64) or not quick:
            # the whole prefix is channel memory: a single path at delay cp (< fft)
            m = min(cp, fft - 1)
            c = dict(case, x=gen_symbols(rng, max(1, n), integer=False), delays=[m], powers_dB=[0.0], draw=[[0.6, -0.8]])
            run_oracle(ctx, 'onetap', c, key=('R5-single', fft, cp, used))
            ctx.branch('R5:oracle:single-path')
    for _ in range(3):
        c = base(); c['x'] = [[0.0, 0.0]] * max(1, len(c['x']))
        for call in ('roundtrip', 'guards', 'onetap'):
            run_oracle(ctx, call, c, key=('R5-zero', call, c['fft'], c['cp'], c['used']))
        ctx.branch('R5:oracle:zero-input')
    for depth in NOTCH_DEPTHS:
        for _ in range(4 if quick else 25):
            c = base(need_cp=True)
            c['delays'], c['powers_dB'], c['draw'] = notch_profile(rng, c['fft'], c['cp'], c['used'], depth)
            c['x'] = gen_symbols(rng, max(1, gen_length(rng, c['used'])), integer=False)
            run_oracle(ctx, 'onetap', c, key=('R5-notch', depth, c['fft'], c['cp'], c['used']))
            ctx.branch('R5:oracle:deep-notch')
    for _ in range(4 if quick else 20):
        c = base(need_cp=True)
        while c['used'] >= c['fft']:
            c = base(need_cp=True)
        pr = notch_profile(rng, c['fft'], c['cp'], c['used'], 0.0, on_used=False)
        if pr is not None:
            c['delays'], c['powers_dB'], c['draw'] = pr
            run_oracle(ctx, 'onetap', c, key=('R5-null-dc', c['fft'], c['cp'], c['used']))
            ctx.branch('R5:oracle:null-on-unused-carrier')
    # R6 scale: symbols and channel gains multiplied by 1e-12 ... 1e12
    for sx in SCALES:
        for sh in [1.0] + SCALES:
            c = base()
            c['x'] = scaled(gen_symbols(rng, max(1, gen_length(rng, c['used'])), integer=False), sx)
            c['draw'] = scaled(c['draw'], sh)
            for call in ('roundtrip', 'onetap') + (('guards',) if c['used'] < c['fft'] else ()):
                run_oracle(ctx, call, c, key=('R6', call, sx, sh))
            ctx.branch('R6:oracle')
    c = base(need_cp=True)                      # a deep notch in a strongly attenuated channel
    c['delays'], c['powers_dB'], c['draw'] = notch_profile(rng, c['fft'], c['cp'], c['used'], 1e-5)
    c['draw'] = scaled(c['draw'], 1e-6)
    run_oracle(ctx, 'onetap', c, key=('R6-notch',))
    # R7 long-lived objects, shared OFDM object, direct attribute assignment: in `onetap_history` (below)
    ctx.branch('R7:oracle')


def robust2_oracles(ctx, quick):
    """R8-R14 on the real code, each class with its own branch"""
    rng = ctx.rng

    def base(fmax=40, all_used=False, min_cp=0, min_taps=1):
        while True:
            fft, cp, used = gen_config(rng, fmax)
            if all_used:
                fft += fft % 2
                used = fft
                cp = min(cp, fft)
            if cp >= min_cp and min(cp, fft - 1) + 1 >= min_taps:
                break
        delays, powers, draw = gen_profile(rng, min(cp, fft - 1), force=True, order='sorted' if min_taps > 1 else None)
        n = max(1, gen_length(rng, used))
        return {'fft': fft, 'cp': cp, 'used': used, 'x': gen_symbols(rng, n, integer=False),
                'delays': delays, 'powers_dB': powers, 'draw': draw}
    # R8 argument forms / configuration paths (R10: integer tap arrays)
    for form in OFDM_FORMS + CHANNEL_FORMS:
        for _ in range(1 if quick else 6):
            c = base(all_used=form.startswith('default') or form == 'setter-default')
            c['form'] = form
            c['other'] = list(gen_config(rng, 40))
            if form == 'int-tap-arrays':
                c['powers_dB'] = [float(round(v)) for v in c['powers_dB']]
                c['delays'] = [int(round(v)) for v in c['delays']]
            run_oracle(ctx, 'forms', c, key=('R8', form, c['fft'], c['cp'], c['used']))
            ctx.branch('R10:oracle' if form == 'int-tap-arrays' else 'R8:oracle')
    # R9 index / count arguments
    for ty in INDEX_TYPES:
        cfgs = [None] + ([(512, 300, 512), (300, 257, 258)] if ty in ('intp', 'int64', 'uint16', '0-d-array', 'fresh-int') else [])
        for cfg in (cfgs if not quick or ty in ('fresh-int', 'intp') else cfgs[:1]):
            c = base()
            if cfg:
                c.update(fft=cfg[0], cp=cfg[1], used=cfg[2])
                c['delays'], c['powers_dB'], c['draw'] = gen_profile(rng, 12, force=True)
                c['x'] = gen_symbols(rng, cfg[2] + 3, integer=False)
            c['type'] = ty
            run_oracle(ctx, 'indexarg', c, key=('R9', ty, c['fft']))
            ctx.branch('R9:oracle' + (':size>256' if c['fft'] > 256 else ''))
    # R11 non-mutating API inside histories
    plotted = False
    for i in range(5 if quick else 30):
        init, sets = gen_history(rng, k=rng.randint(1, 3))
        hc = history_case(rng, init, sets)
        for st in hc['steps']:
            qs = list(QUERIES[:-1])
            rng.shuffle(qs)
            st['queries'] = qs[:rng.randint(3, 9)]
            if not plotted:
                st['queries'].append('ir.plot')
                plotted = True
            if len(st['x']) == 0:
                st['x'] = gen_symbols(rng, 3, integer=False)
        run_oracle(ctx, 'nomutate', hc, key=('R11', i))
        ctx.branch('R11:oracle')
    # R12 listing order of the paths
    for i in range(4 if quick else 25):
        c = base(min_cp=3, min_taps=3)
        k = len(c['delays'])
        perms = [list(range(k))]
        for _ in range(2):
            pm = list(range(k))
            rng.shuffle(pm)
            perms.append(pm)
        c['perms'] = perms
        run_oracle(ctx, 'order', c, key=('R12', i))
        ctx.branch('R12:oracle')
    # R13 derived objects
    for i in range(5 if quick else 30):
        c = base()
        c['x2'] = gen_symbols(rng, max(1, gen_length(rng, c['used'])) + 1, integer=False)
        run_oracle(ctx, 'derived', c, key=('R13', i))
        ctx.branch('R13:oracle')
    # R14 scale in counts
    for fft in ([rng.choice([257, 258, 300])] if quick else [257, 258, 300]):
        used = fft - fft % 2 if rng.chance(0.5) else 2 * rng.randint(1, fft // 2)
        case = {'fft': fft, 'cp': rng.choice([0, 1, fft]), 'used': used, 'x': gen_symbols(rng, used + 1, integer=False)}
        for call in ('roundtrip', 'structure') + (('guards',) if used < fft else ()):
            run_oracle(ctx, call, case, key=('R14-fft', call, fft))
        ctx.branch('R14:oracle:fft')
    for nsym in ([rng.choice([257, 258, 300])] if quick else [257, 258, 300]):
        case = {'fft': 8, 'cp': 2, 'used': 6, 'x': gen_symbols(rng, 6 * nsym - 1, integer=True)}
        for call in ('roundtrip', 'structure', 'guards'):
            run_oracle(ctx, call, case, key=('R14-sym', call, nsym))
        ctx.branch('R14:oracle:symbols')
    case = {'fft': 4, 'cp': 1, 'used': 2, 'x': gen_symbols(rng, 65537, integer=True)}
    for call in ('roundtrip', 'structure'):
        run_oracle(ctx, call, case, key=('R14-len', call))
    ctx.branch('R14:oracle:input>2^16')
    for ntaps in ([rng.choice([257, 258, 300])] if quick else [257, 258, 300]):
        delays = list(range(ntaps))
        case = {'fft': 512, 'cp': 300, 'used': rng.choice([512, 400]), 'x': gen_symbols(rng, 7, integer=False),
                'delays': delays, 'powers_dB': [round(-rng.uniform(0, 30), 3) for _ in delays],
                'draw': [[rng.gauss(), rng.gauss()] for _ in delays]}
        run_oracle(ctx, 'onetap', case, key=('R14-taps', ntaps))
        ctx.branch('R14:oracle:taps')
    if not quick:
        case = {'fft': 65537, 'cp': 16, 'used': 65536, 'x': gen_symbols(rng, 65536, integer=False)}
        for call in ('roundtrip', 'structure'):
            run_oracle(ctx, call, case, key=('R14-fft16', call))


def oracles(ctx, small, nrand, fmax, nchan):
    rng = ctx.rng
    run_corpus(ctx)
    robust_oracles(ctx, ctx.tier == 'quick')
    robust2_oracles(ctx, ctx.tier == 'quick')
    CR.run_oracles(ctx, ctx.tier == 'quick')
    # constructor table
    for fft in range(0, min(small, 10) + 1):
        for cp in range(-1, fft + 2):
            for used in [None] + list(range(-2, fft + 3)):
                run_oracle(ctx, 'constructor', {'fft': fft, 'cp': cp, 'used': used}, nontrivial=False)
    for i in range(max(20, nrand // 5)):
        ops = []
        for _ in range(rng.randint(1, 10)):
            if rng.chance(0.5):
                ops.append(list(gen_config(rng, 24)))
            else:
                ops.append([rng.randint(0, 12), rng.randint(-1, 14), rng.choice([None, rng.randint(-1, 14)])])
        run_oracle(ctx, 'history', {'init': list(gen_config(rng, 24)), 'ops': ops}, key=('hist', i))
    cfgs = [(fft, cp, used) for fft in range(2, small + 1) for used in range(2, fft + 1, 2)
            for cp in sorted({0, 1, fft // 2, fft - 1, fft}) if cp <= fft]
    cfgs += [gen_config(rng, fmax) for _ in range(nrand)]
    for fft, cp, used in cfgs:
        n = gen_length(rng, used)
        case = {'fft': fft, 'cp': cp, 'used': used, 'x': gen_symbols(rng, n, integer=rng.chance(0.5))}
        run_oracle(ctx, 'roundtrip', case, key=('rt', fft, cp, used, n))
        run_oracle(ctx, 'structure', case, key=('st', fft, cp, used, n))
        if used < fft:
            run_oracle(ctx, 'guards', case, key=('gd', fft, cp, used, n))
    for i in range(nchan):
        fft, cp, used = gen_config(rng, min(fmax, 48))
        if rng.chance(0.15):
            cp = fft                            # the corner memory = cp = fft is reachable
        delays, powers, draw = gen_profile(rng, cp)
        n = gen_length(rng, used)
        case = {'fft': fft, 'cp': cp, 'used': used, 'x': gen_symbols(rng, n, integer=False),
                'delays': delays, 'powers_dB': powers, 'draw': draw}
        run_oracle(ctx, 'onetap', case, key=('ot', i))
    # the same profiles listed in another order: reversed / shuffled / colliding after rounding (memory <= cp)
    for i in range(max(12, nchan // 4)):
        order = PROFILE_ORDERS[i % 3]
        fft, cp, used = gen_config(rng, min(fmax, 48))
        while cp < 2 or fft < 3:
            fft, cp, used = gen_config(rng, min(fmax, 48))
        delays, powers, draw = gen_profile(rng, min(cp, fft - 1), force=True, order=order)
        n = max(1, gen_length(rng, used))
        case = {'fft': fft, 'cp': cp, 'used': used, 'x': gen_symbols(rng, n, integer=False),
                'delays': delays, 'powers_dB': powers, 'draw': draw}
        run_oracle(ctx, 'onetap', case, key=('ot-order', i))
        ctx.branch('profile:%s:oracle' % profile_kind(delays))
    for fixed in ([2, 0, 2, 5], [5, 2, 0], [0, 3, 1], [2.2, 0, 1.8, 5], [4, 4.3, 0]):
        case = {'fft': 16, 'cp': 6, 'used': 10, 'x': gen_symbols(rng, 13, integer=False), 'delays': fixed,
                'powers_dB': [-1.0, -3.0, -2.0, -6.0][:len(fixed)], 'draw': [[1.0, 0.5], [-0.7, 0.2], [0.3, -0.9], [0.5, 0.5]]}
        run_oracle(ctx, 'onetap', case, key=('ot-fixed', tuple(fixed)))
        ctx.branch('profile:%s:oracle' % profile_kind(fixed))
    # the known corner, always
    run_oracle(ctx, 'onetap', WITNESS_FULL_MEMORY, key='witness-full-memory')
    # one OFDM object, one long-lived equaliser, 1-5 re-configurations
    for i, (init, sets) in enumerate(STRUCTURED_HISTORIES):
        run_oracle(ctx, 'onetap_history', history_case(rng, init, sets), key=('oth-s', i))
    for i in range(max(30, nchan // 2)):
        init, sets = gen_history(rng)
        run_oracle(ctx, 'onetap_history', history_case(rng, init, sets), key=('oth', i))


# OFDM(2, 2, 2), taps at delays 0 and 2: memory = cp = fft (the Lean witness `one_tap_fails_at_full_memory`)
WITNESS_FULL_MEMORY = {'fft': 2, 'cp': 2, 'used': 2, 'x': [[1.0, 0.0], [2.0, 0.0]],
                       'delays': [0, 2], 'powers_dB': [0.0, 0.0], 'draw': [[1.0, 0.0], [0.5, 0.0]], 'min_gain': 0.0}


def check(ctx):
    quick = ctx.tier == 'quick'
    small = 12 if quick else 32
    ctx.rule = ('index layer: EVERY valid (fft <= %d, cp <= fft, even used <= fft) on integer tokens (exact), plus '
                'seeded boundary-heavy configurations up to fft %d (cp in {0, fft}, used in {2, fft}, lengths 0 / multiples / '
                'non-multiples of used); numeric layer: seeded configurations with integer and Gaussian symbols against the '
                'O(N^2) binary64 DFT of the Lean model (1e-9); channels: real TdlChannel with a scripted static draw or '
                'the Rayleigh generator, memory below / at / beyond cp and fft; non-trivial = distinct (mechanism, '
                'configuration, length)' % (small, 128 if quick else 512))
    core.prove(ctx, MODULE, generated=['OfdmIndex'], drivers=[DRIVER], scratch=ctx.scratch)
    ctx.required_branches = ['cfg:all-used', 'cfg:guards', 'cp:zero', 'cp:full', 'cp:partial', 'prep:pad', 'prep:nopad',
                             'rmcp:error', 'rmcp:ok', 'params:ok', 'params:error:ValueError', 'history',
                             'channel:static', 'channel:time-varying', 'channel:memory<=cp', 'channel:memory>cp',
                             'freq:cropped', 'demod:error:ValueError', 'eq:empty:ok', 'eq:baddata:error',
                             'pair:history', 'pair:roundtrip', 'pair:set:ok', 'pair:set:error',
                             'profile:reversed:corr', 'profile:unsorted:corr', 'profile:colliding:corr',
                             'profile:reversed:oracle', 'profile:unsorted:oracle', 'profile:colliding:oracle',
                             'R8:corr', 'R9:corr', 'R9:corr:size>256', 'R10:corr', 'R11:corr', 'R12:corr', 'R13:corr', 'R14:corr',
                             'R14:corr:input>2^16', 'R8:oracle', 'R9:oracle', 'R9:oracle:size>256', 'R10:oracle', 'R11:oracle',
                             'R12:oracle', 'R13:oracle', 'R14:oracle:fft', 'R14:oracle:symbols', 'R14:oracle:input>2^16',
                             'R14:oracle:taps',
                             'R1:corr', 'R2:corr', 'R3:corr', 'R4:corr', 'R5:corr', 'R5:corr:deep-notch', 'R6:corr', 'R7:corr',
                             'R1:oracle:param', 'R1:oracle:array', 'R2:oracle', 'R3:oracle', 'R4:oracle', 'R5:oracle:sizes',
                             'R5:oracle:single-path', 'R5:oracle:zero-input', 'R5:oracle:deep-notch',
                             'R5:oracle:null-on-unused-carrier', 'R6:oracle', 'R7:oracle',
                             'R15:corr:close-integers', 'R15:corr:close-values', 'R15:corr:slowly-varying',
                             'R15:oracle:close-integers', 'R15:oracle:signals', 'R15:oracle:channels', 'R15:oracle:powers',
                             'R15:oracle:slowly-varying', 'R15:oracle:discretisation',
                             'R16:corr', 'R16:oracle:buffer-refilled', 'R16:oracle:same-array-two-roles']
    try:
        correspondence(ctx, small, 300 if quick else 3000, 150 if quick else 1500, 128 if quick else 512,
                       60 if quick else 600, 40 if quick else 500)
    except core.Infra as e:
        if not ctx.broken:
            raise
        ctx.notes.append('correspondence skipped: %s' % e)
        ctx.required_branches = []
    try:
        oracles(ctx, 10 if quick else 24, 100 if quick else 1500, 128 if quick else 300, 60 if quick else 1000)
    except core.Infra:
        raise
    except Exception as e:     # an exception of the LIBRARY that escaped an oracle wrapper is a failing input, not exit 2
        import traceback
        tb = traceback.extract_tb(e.__traceback__)
        lib = [fr for fr in tb if 'pyphysim' in fr.filename]
        ctx.fail('library-exception', 'exception:' + type(e).__name__,
                 {'where': '%s:%s' % (lib[-1].filename, lib[-1].lineno) if lib else str(tb[-1].name), 'harness_step': tb[1].name if len(tb) > 1 else ''},
                 '%s: %s' % (type(e).__name__, str(e)[:200]))
    ctx.exhaustive = False    # the property's space is infinite; what IS complete is listed below
    ctx.extra['exhaustive_scopes'] = ('index layer (used-index list, zero padding, prepare, add/remove CP, gather) on integer '
                                      'tokens for EVERY valid (fft <= %d, cp <= fft, even used <= fft); set_parameters guard for '
                                      'every (fft, cp, used) in [-1, 13]^3 incl. used=None' % small)
    ctx.sample({'call': 'onetap', 'case': WITNESS_FULL_MEMORY, 'verdict': 'inexact (known finding, memory = cp = fft)'})


def search(ctx):
    rng = ctx.rng
    for _ in range(1500):
        fft, cp, used = gen_config(rng, 96)
        n = gen_length(rng, used)
        case = {'fft': fft, 'cp': cp, 'used': used, 'x': gen_symbols(rng, n, integer=rng.chance(0.5))}
        for call in ('roundtrip', 'structure', 'guards'):
            run_oracle(ctx, call, case)
    for _ in range(600):
        fft, cp, used = gen_config(rng, 40)
        delays, powers, draw = gen_profile(rng, cp)
        n = max(1, gen_length(rng, used))
        run_oracle(ctx, 'onetap', {'fft': fft, 'cp': cp, 'used': used, 'x': gen_symbols(rng, n, integer=False),
                                   'delays': delays, 'powers_dB': powers, 'draw': draw})
    for fft in range(0, 14):
        for cp in range(-1, fft + 2):
            for used in [None] + list(range(-2, fft + 3)):
                run_oracle(ctx, 'constructor', {'fft': fft, 'cp': cp, 'used': used}, nontrivial=False)
    for i, (init, sets) in enumerate(STRUCTURED_HISTORIES):
        run_oracle(ctx, 'onetap_history', history_case(rng, init, sets))
    for _ in range(300):
        init, sets = gen_history(rng)
        run_oracle(ctx, 'onetap_history', history_case(rng, init, sets))
    CR.search(ctx)


# R15 / R16 live in a helper module (it uses the definitions above)
from harness.props import c02_close_reuse as CR      # noqa: E402

ORACLES['close'] = CR.o_close
ORACLES['reuse'] = CR.o_reuse
