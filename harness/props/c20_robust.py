"""C20 — robustness classes R15 and R16 (helper module of harness/props/c20.py).

R15  distinct values that are merely close.  Where C20's code compares / thresholds a value
     (`S[S > 1] = 1` of calc_principal_angles, `d >= sigma_bar` / `S >= tol` of gmd, the argsort of
     peig / leig, the n smallest / largest singular values, 1 / sqrt(L) of the whitening, the pivots of
     update_inv_sum_diag, log10 / pow of the conversions): subspaces a principal angle 1.5e-8 … 1.4e-3 apart
     (cosines 1 - 1e-16 … 1 - 1e-6), singular values / eigenvalues a relative 1e-6 … one ulp apart or of
     magnitude 1e-9 … 1e-15, `tol` a relative 1e-9 above / below / exactly at a singular value, linear
     values next to 1 and dB values next to 0, 2.4e9 vs 2.4e9 + 2e4, adjacent doubles, values that agree to
     the 12th decimal.  Every call is checked against a first-principles result for THAT value, in
     sequences of neighbouring values inside one process (a cache keyed by a rounded / `allclose` value
     would hand back the neighbour's result).  All comparisons are relative to the scale the algorithm
     works on (a few hundred ulp times the condition number), no absolute floors.
R16  argument identity and buffer reuse.  Every public entry point that takes an array: histories of 4
     calls on ONE preallocated array per parameter, refilled in place before every call; the same array
     object in two roles (chordal distances / principal angles of (A, A), gmd(U, S, U), project / oProject /
     reflect of the very array the Projection was built from); the arguments overwritten right after the
     call; an equal-content copy at the end.  Results are checked from first principles (never by calling
     the routine again on a fresh array inside the history: that would reset an identity-keyed memo),
     earlier results must not change, results must not alias arguments or each other.

Model side: Model/C20Robust.lean (`Heap` / `Op` / `run`, generic in the pure function called), theorems
`call_reads_contents_at_call_time`, `earlier_results_unchanged_by_later_calls`, `calls_leave_buffers_unchanged`,
`result_depends_on_contents_only`, `same_object_in_both_roles`, `projection_of_own_basis`,
`conversion_distinct_values_distinct_results`, `angle_distance_zero_only_for_unit_cosines`,
`distinct_projectors_positive_distance`, `diagonal_update_takes_effect_for_every_nonzero_value`,
`selectors_resolve_every_strict_difference`; driver op `hist`.
"""
import decimal
import math

import numpy as np

from harness import core

DRIVER = 'drv_c20'
EPS = 2.0 ** -52


def _B():
    from harness.props import c20
    return c20


def _impl():
    return _B()._impl()


def H(a):
    return a.conj().T


def up(x):
    return float(np.nextafter(x, np.inf))


def down(x):
    return float(np.nextafter(x, -np.inf))


def _rs(*seed):
    return np.random.RandomState([int(s) % (2 ** 32) for s in seed])


def unitary(rs, n, cplx):
    x = rs.randn(n, n) + (1j * rs.randn(n, n) if cplx else 0)
    q, r = np.linalg.qr(x)
    d = np.diag(r)
    return q * (d / np.abs(d))


def wellcond(rs, p, cplx):
    """p x p, singular values in [0.5, 2] (condition <= 4)"""
    return (unitary(rs, p, cplx) * rs.uniform(0.5, 2.0, size=p)) @ unitary(rs, p, cplx)


def nz(x):
    x = float(x)
    return x if x > 0 else 1.0


# ================================================================== R15 oracles
def subspace_pair(case, st):
    """(A, B, W, theta): span(A) = span(U1), span(B) = span(W), W = U1 cos(theta) + U2 sin(theta)"""
    m, p, cplx = int(case['m']), int(case['p']), bool(case['cplx'])
    rs = _rs(case['seed'], st.get('basis', 0))
    u = unitary(rs, m, cplx)
    th = np.array([float(t) for t in st['theta']])
    w = u[:, :p] * np.cos(th) + u[:, p:2 * p] * np.sin(th)
    a = float(st.get('sa', 1.0)) * (u[:, :p] @ wellcond(rs, p, cplx))
    b = float(st.get('sb', 1.0)) * (w @ wellcond(rs, p, cplx))
    return a, b, u[:, :p], w, th


def o_r15_subspaces(case):
    """bases whose spans are a tiny principal angle apart / whose entries are tiny: the three chordal
    distances, the principal angles and the projectors, each against the analytic value for THAT pair, in
    one sequence of neighbouring pairs"""
    proj, met, _, _ = _impl()
    kind = case['kind']
    m, p = int(case['m']), int(case['p'])
    for k, st in enumerate(case['steps']):
        a, b, u1, w, th = subspace_pair(case, st)
        c2 = max(np.linalg.cond(a), np.linalg.cond(b)) ** 2
        tol = 64 * EPS * m * c2
        dref = math.sqrt(float(np.sum(np.sin(th) ** 2)))
        where = 'pair %d of the sequence (angles %r, scales %r / %r)' % (k + 1, th.tolist(), st.get('sa', 1.0), st.get('sb', 1.0))
        d1 = float(met.calc_chordal_distance(a, b))
        if not abs(d1 - dref) <= tol:
            return 'R15:chordal-wrong:' + kind, '%s: calc_chordal_distance = %r, sqrt(sum sin^2) = %r' % (where, d1, dref)
        d2 = float(met.calc_chordal_distance_2(a, b))
        if not abs(d2 - dref) <= tol:
            return 'R15:chordal2-wrong:' + kind, '%s: calc_chordal_distance_2 = %r, sqrt(sum sin^2) = %r' % (where, d2, dref)
        ang = np.asarray(met.calc_principal_angles(a, b), dtype=float)
        want = np.sort(th)
        tolsq = 64 * EPS * c2
        if ang.shape != want.shape:
            return 'R15:principal-angles-wrong:' + kind, '%s: shape %s' % (where, ang.shape)
        got_sq, want_sq = np.sin(np.sort(ang)) ** 2, np.sin(want) ** 2
        if not np.all(np.abs(got_sq - want_sq) <= tolsq):
            return 'R15:principal-angles-wrong:' + kind, '%s: angles %r, expected %r (sin^2 differ by %.3g, rounding allows %.3g)' % (
                where, np.sort(ang).tolist(), want.tolist(), float(np.abs(got_sq - want_sq).max()), tolsq)
        d3 = float(met.calc_chordal_distance_from_principal_angles(ang))
        if not abs(d3 * d3 - dref * dref) <= p * tolsq:
            return 'R15:angle-distance-wrong:' + kind, '%s: principal-angle distance %r, expected %r' % (where, d3, dref)
        if dref > 100 * tol and not (d1 > 0 and d2 > 0):
            return 'R15:zero-for-distinct-subspaces:' + kind, '%s: distance 0 for subspaces %r apart' % (where, dref)
        for nm, x, basis in (('A', a, u1), ('B', b, w)):
            pm = proj.calcProjectionMatrix(x)
            e = float(np.abs(pm - basis @ H(basis)).max())
            if not e <= tol:
                return 'R15:projector-wrong:' + kind, '%s: calcProjectionMatrix(%s) is %.3g away from the projector onto its span (rounding allows %.3g)' % (where, nm, e, tol)
            q = proj.Projection(x).Q
            if not np.array_equal(q, pm):
                return 'R15:projector-wrong:' + kind, '%s: Projection(%s).Q differs from calcProjectionMatrix' % (where, nm)
    return None


def o_r15_gmd(case):
    """singular values a relative 1e-6 … one ulp from each other (hence from their geometric mean), of tiny
    magnitude, and `tol` next to a singular value: the decomposition of U diag(S) V^H from first principles"""
    _, _, misc, _ = _impl()
    kind = case['kind']
    m, n, cplx = int(case['m']), int(case['n']), bool(case['cplx'])
    rs = _rs(case['seed'])
    u, v = unitary(rs, m, cplx), unitary(rs, n, cplx)
    s = np.array([float(x) for x in case['S']])
    for tol0 in case['tols']:
        tol0 = float(tol0)
        p = int(sum(1 for x in s if x >= tol0))          # the exact comparison of the documented parameter
        if p == 0:
            continue
        s_in = s.copy()
        q, r, pm = misc.gmd(u, s_in, H(v), tol0) if tol0 != 0.0 else misc.gmd(u, s_in, H(v))
        where = 'S = %r, tol = %r (p = %d)' % (s.tolist(), tol0, p)
        if q.shape != (m, m) or r.shape != (m, n) or pm.shape != (n, n):
            return 'R15:gmd:shape:' + kind, where
        sp = np.zeros((m, n))
        sp[np.arange(p), np.arange(p)] = s[:p]
        tol = 64 * EPS * max(p, 2) * float(s[0] / s[p - 1])
        e = float(np.abs(q @ r @ H(pm) - u @ sp @ H(v)).max()) / s[0]
        if not e <= tol:
            return 'R15:gmd:does-not-reconstruct:' + kind, '%s: max |Q R P^H - U S_p V^H| / s1 = %.3g (rounding allows %.3g)' % (where, e, tol)
        e = max(float(np.abs(H(q) @ q - np.eye(m)).max()), float(np.abs(H(pm) @ pm - np.eye(n)).max()))
        if not e <= tol:
            return 'R15:gmd:factors-not-orthonormal:' + kind, '%s: deviation %.3g' % (where, e)
        if np.any(np.tril(r, -1) != 0):
            return 'R15:gmd:R-not-upper-triangular:' + kind, where
        decimal.getcontext().prec = 60
        gm = float((sum(decimal.Decimal(float(x)).ln() for x in s[:p]) / p).exp())
        e = float(np.abs(np.diag(r)[:p] - gm).max()) / gm
        if not e <= tol:
            return 'R15:gmd:diagonal-not-geometric-mean:' + kind, '%s: diag(R) = %r, geometric mean %r' % (where, np.diag(r)[:p].tolist(), gm)
        if not np.array_equal(s_in, s):
            return 'R15:gmd:argument-modified:' + kind, where
    return None


def o_r15_eigen(case):
    """Hermitian matrices U diag(w) U^H with eigenvalues a relative 1e-6 … 1e-11 apart / of magnitude 1e-9 …
    1e-15 / 2.4e9 vs 2.4e9 + 2e4: peig / leig for every n; positive w: whitening and a sequence of neighbouring
    diagonal updates"""
    _, _, misc, _ = _impl()
    kind = case['kind']
    cplx = bool(case['cplx'])
    w = np.array([float(x) for x in case['w']])
    n = w.size
    rs = _rs(case['seed'])
    u = unitary(rs, n, cplx)
    a = (u * w) @ H(u)
    a = (a + H(a)) / 2
    ws = np.sort(w)
    sc = float(np.abs(w).max())
    gap = float(np.min(np.diff(ws))) if n > 1 else sc
    tol = 64 * EPS * n * sc
    if not gap >= 16 * tol:                    # margin of the discrete decision (which eigenvalue is larger)
        return None
    for k in range(n + 1):
        for which, fn, want in (('peig', misc.peig, ws[::-1][:k]), ('leig', misc.leig, ws[:k])):
            v, d = fn(a, k)
            where = '%s(A, %d), eigenvalues of A: %r' % (which, k, ws.tolist())
            if v.shape != (n, k) or np.shape(d) != (k,):
                return 'R15:selector-shape:' + kind, where
            if k and not np.all(np.abs(np.asarray(d) - want) <= tol):
                return 'R15:wrong-eigenvalues-selected:' + kind, '%s: returned %r, expected %r' % (where, np.asarray(d).tolist(), want.tolist())
            if k and not float(np.abs(a @ v - v * d).max()) <= 8 * tol:
                return 'R15:not-eigenvectors:' + kind, where
            if k and not float(np.abs(np.linalg.norm(v, axis=0) - 1).max()) <= 64 * EPS * n:
                return 'R15:not-unit-norm:' + kind, where
    if np.all(w > 0):
        cond = float(w.max() / w.min())
        wm = misc.calc_whitening_matrix(a)
        e = float(np.abs(H(wm) @ a @ wm - np.eye(n)).max())
        if not e <= 64 * EPS * n * cond:
            return 'R15:whitening-not-identity:' + kind, 'eigenvalues %r: max |W^H C W - I| = %.3g (rounding allows %.3g)' % (
                w.tolist(), e, 64 * EPS * n * cond)
        inv_a = (u / w) @ H(u)
        for d in case.get('diagonals', []):
            d = np.array([float(x) for x in d])[:n]
            out = misc.update_inv_sum_diag(inv_a, d)
            full = np.zeros(n)
            full[:d.size] = d
            tgt = a + np.diag(full)
            conds = [cond] + [float(np.linalg.cond(a + np.diag(np.concatenate([full[:i + 1], np.zeros(n - i - 1)])))) for i in range(d.size)]
            lim = 64 * EPS * n * max(conds) ** 2
            e = float(np.abs(out @ tgt - np.eye(n)).max())
            if not e <= lim:
                return 'R15:update-not-the-inverse:' + kind, 'inverse of eigenvalues %r, diagonal %r: max |out (A + D) - I| = %.3g (rounding allows %.3g)' % (
                    w.tolist(), d.tolist(), e, lim)
    return None


def o_r15_singular(case):
    """rectangular matrices U diag(s) V^H with close / tiny singular values: least_right_singular_vectors for
    every n, get_principal_component_matrix for every k whose gap is resolvable"""
    _, _, misc, _ = _impl()
    kind = case['kind']
    cplx = bool(case['cplx'])
    s = np.sort(np.abs(np.array([float(x) for x in case['s']])))[::-1]
    r = s.size
    m, c = int(case['m']), int(case['c'])
    rs = _rs(case['seed'])
    um, vc = unitary(rs, m, cplx), unitary(rs, c, cplx)
    sm = np.zeros((m, c))
    sm[np.arange(r), np.arange(r)] = s
    a = um @ sm @ H(vc)
    full = np.zeros(c)
    full[:r] = s
    asc = full[::-1]
    tol = 64 * EPS * max(m, c) * s[0]
    for k in range(c + 1):
        v0, v1, s1 = misc.least_right_singular_vectors(a, k)
        where = 'least_right_singular_vectors(A, %d), singular values %r' % (k, s.tolist())
        if v0.shape != (c, k) or v1.shape != (c, c - k) or np.shape(s1) != (c - k,):
            return 'R15:lrsv-shape:' + kind, where
        if k < c and not np.all(np.abs(np.asarray(s1) - asc[k:]) <= tol):
            return 'R15:lrsv-S-wrong:' + kind, '%s: S = %r, expected %r' % (where, np.asarray(s1).tolist(), asc[k:].tolist())
        if k and not np.all(np.abs(np.linalg.norm(a @ v0, axis=0) - asc[:k]) <= tol):
            return 'R15:lrsv-V0-not-least:' + kind, '%s: |A v0| = %r, least singular values %r' % (
                where, np.linalg.norm(a @ v0, axis=0).tolist(), asc[:k].tolist())
        vv = np.hstack([v0, v1])
        if not float(np.abs(H(vv) @ vv - np.eye(c)).max()) <= 64 * EPS * c:
            return 'R15:lrsv-not-orthonormal:' + kind, where
    for k in range(1, r + 1):
        gap = float(s[k - 1] - (s[k] if k < r else 0.0)) / s[0]
        if not gap >= 1e4 * 64 * EPS * max(m, c):          # the rank-k truncation is determined to tol / gap
            continue
        out = misc.get_principal_component_matrix(a, k)
        want = ((um[:, :k] * s[:k]) @ H(vc)[:k, :])[:, :k]
        if out.shape != want.shape:
            return 'R15:gpcm-shape:' + kind, 'k = %d' % k
        e = float(np.abs(out - want).max())
        if not e <= tol / gap:
            return 'R15:not-principal-components:' + kind, 'k = %d, singular values %r: deviation %.3g (rounding allows %.3g)' % (
                k, s.tolist(), e, tol / gap)
    return None


def conv_ref(nm, v, b=None):
    decimal.getcontext().prec = 60
    D = decimal.Decimal
    if nm == 'linear2dB':
        return float(10 * D(v).log10())
    if nm == 'linear2dBm':
        return float(10 * D(v).log10() + 30)
    if nm == 'dB2Linear':
        return float(D(10) ** (D(v) / 10))
    if nm == 'dBm2Linear':
        return float(D(10) ** ((D(v) - 30) / 10))
    if nm == 'SNR_dB_to_EbN0_dB':
        return float(D(v) - 10 * D(int(b)).log10())
    return float(D(v) + 10 * D(int(b)).log10())


def conv_tol(nm, v, ref, b=None):
    """rounding of the binary64 evaluation, relative to the operands of its last operation"""
    if nm == 'linear2dB':
        return 8 * EPS * abs(ref)
    if nm == 'linear2dBm':                      # the product x * 1000 is rounded: 10 log10(1 + eps)
        return 8 * EPS * abs(ref) + 8 * EPS
    if nm in ('dB2Linear', 'dBm2Linear'):       # the quotient y / 10 is rounded: 10^(y eps / 10)
        return 8 * EPS * abs(ref) * (1 + abs(v) / 10)
    return 4 * EPS * (abs(v) + 10 * abs(math.log10(int(b))))


def conv_value_error(nm, got, v, b=None):
    ref = conv_ref(nm, v, b)
    tol = conv_tol(nm, v, ref, b)
    if np.asarray(got).dtype.kind != 'f':
        return '%s(%r) has dtype %s' % (nm, v, np.asarray(got).dtype)
    if not abs(float(got) - ref) <= tol:
        return '%s(%r%s) = %r, exact value %r (rounding allows %.3g)' % (nm, v, '' if b is None else ', %r' % (b,), float(got), ref, tol)
    return None


def o_r15_conversions(case):
    """linear values next to 1 / tiny / huge-and-close, dB values next to 0 / 30 / each other: every
    conversion of every value against 60-digit arithmetic, as scalars one after the other, as numpy scalars
    and as one array holding all of them"""
    _, _, _, conv = _impl()
    kind = case['kind']
    xs = [float(x) for x in case['xs']]
    ys = [float(y) for y in case['ys']]
    bits = [int(b) for b in case['bits']]
    fns = {'linear2dB': conv.linear2dB, 'linear2dBm': conv.linear2dBm, 'dB2Linear': conv.dB2Linear,
           'dBm2Linear': conv.dBm2Linear, 'SNR_dB_to_EbN0_dB': conv.SNR_dB_to_EbN0_dB, 'EbN0_dB_to_SNR_dB': conv.EbN0_dB_to_SNR_dB}
    for nm, vals in (('linear2dB', xs), ('linear2dBm', xs), ('dB2Linear', ys), ('dBm2Linear', ys)):
        for form in ('float', 'np.float64', 'array', '0-d'):
            if form == 'array':
                arr = np.array(vals)
                snap = arr.copy()
                out = np.asarray(fns[nm](arr))
                if not np.array_equal(arr, snap):
                    return 'R15:conversion:argument-modified:' + nm, kind
                if out.shape != arr.shape:
                    return 'R15:conversion:shape:' + nm, '%s of %d values has shape %s' % (nm, arr.size, out.shape)
                got = list(out)
            else:
                mk = {'float': float, 'np.float64': np.float64, '0-d': np.array}[form]
                got = [fns[nm](mk(v)) for v in vals]
            for v, g in zip(vals, got):
                r = conv_value_error(nm, g, v)
                if r:
                    return 'R15:conversion-wrong:%s:%s' % (nm, kind), '%s (argument form %s, in the sequence %r)' % (r, form, vals)
    for nm in ('SNR_dB_to_EbN0_dB', 'EbN0_dB_to_SNR_dB'):
        for b in bits:
            for y in ys:
                r = conv_value_error(nm, fns[nm](y, b), y, b)
                if r:
                    return 'R15:conversion-wrong:%s:%s' % (nm, kind), r
            out = np.asarray(fns[nm](np.array(ys), b))
            for y, g in zip(ys, out):
                r = conv_value_error(nm, g, y, b)
                if r:
                    return 'R15:conversion-wrong:%s:%s' % (nm, kind), r + ' (array argument)'
    # round trips resolve neighbours: distinct values stay distinct by the amount they differ
    for x1, x2 in zip(xs, xs[1:]):
        if x1 == x2:
            continue
        d1, d2 = float(conv.linear2dB(x1)), float(conv.linear2dB(x2))
        want = conv_ref('linear2dB', x1) - conv_ref('linear2dB', x2)
        lim = conv_tol('linear2dB', x1, conv_ref('linear2dB', x1)) + conv_tol('linear2dB', x2, conv_ref('linear2dB', x2))
        if abs(want) > 4 * lim and (d1 == d2 or not abs((d1 - d2) - want) <= lim):
            return 'R15:conversion-merges-neighbours:linear2dB:' + kind, 'linear2dB(%r) - linear2dB(%r) = %r, exact %r' % (x1, x2, d1 - d2, want)
    return None


# ================================================================== R16 oracles
def flat(r):
    return list(r) if isinstance(r, tuple) else [r]


def same(a, b):
    return _B().same(a, b)


def same_out(r1, r2):
    a, b = flat(r1), flat(r2)
    return len(a) == len(b) and all(same(np.asarray(x), np.asarray(y)) for x, y in zip(a, b))


def full_rank_basis(rs, m, k, cplx):
    for _ in range(200):
        a = rs.randn(m, k) + (1j * rs.randn(m, k) if cplx else 0)
        if k == 0 or np.linalg.cond(a) <= 30:
            return a
    return np.eye(m, k) + (0j if cplx else 0.0)


def herm_margin(rs, n, cplx):
    """Hermitian, eigenvalues an absolute 0.5 apart (no near-tie for the argsort)"""
    u = unitary(rs, n, cplx)
    w = rs.permutation(n) * 1.0 - n / 3.0 + rs.uniform(-0.2, 0.2, size=n)
    a = (u * w) @ H(u)
    return (a + H(a)) / 2


def rect_gap(rs, m, c, cplx):
    """m x c with singular values a relative 0.1 apart"""
    r = min(m, c)
    s = np.sort(1.0 + np.arange(r) * 0.5 + rs.uniform(0, 0.2, size=r))[::-1]
    sm = np.zeros((m, c))
    sm[np.arange(r), np.arange(r)] = s
    return unitary(rs, m, cplx) @ sm @ H(unitary(rs, c, cplx))


# ---- first-principles checks: (contents at call time, extra, result) -> None | text
def chk_proj(orth):
    def chk(cont, extra, r):
        a = cont[0]
        m = a.shape[0]
        ref = _B().ref_projector(a)
        if orth:
            ref = np.eye(m) - ref
        tol = 64 * EPS * max(m, 1) * np.linalg.cond(a) ** 2 if a.size else 64 * EPS
        if np.shape(r) != (m, m):
            return 'shape %s' % (np.shape(r),)
        e = float(np.abs(r - ref).max()) if m else 0.0
        return None if e <= tol else 'is %.3g away from the projector of the contents at call time (rounding allows %.3g)' % (e, tol)
    return chk


def ref_chordal(a, b):
    """sqrt((|(1 - Pa) Ub|^2 + |(1 - Pb) Ua|^2) / 2) from SVD bases (no cancellation for close subspaces)"""
    ua = np.linalg.svd(a, full_matrices=False)[0]
    ub = np.linalg.svd(b, full_matrices=False)[0]
    ra = ub - ua @ (H(ua) @ ub)
    rb = ua - ub @ (H(ub) @ ua)
    return math.sqrt((float(np.sum(np.abs(ra) ** 2)) + float(np.sum(np.abs(rb) ** 2))) / 2)


def chk_chordal(cont, extra, r):
    a, b = cont[0], cont[1]
    ref = ref_chordal(a, b)
    tol = 64 * EPS * a.shape[0] * max(np.linalg.cond(a), np.linalg.cond(b)) ** 2
    if np.ndim(r) != 0:
        return 'not a scalar'
    return None if abs(float(r) - ref) <= tol else 'is %r, the chordal distance of the contents at call time is %r' % (float(r), ref)


def chk_angles(cont, extra, r):
    a, b = cont[0], cont[1]
    ua = np.linalg.svd(a, full_matrices=False)[0]
    ub = np.linalg.svd(b, full_matrices=False)[0]
    cs = np.minimum(np.linalg.svd(H(ua) @ ub, compute_uv=False), 1.0)
    tol = 64 * EPS * a.shape[0] * max(np.linalg.cond(a), np.linalg.cond(b)) ** 2
    r = np.asarray(r, dtype=float)
    if r.shape != cs.shape:
        return 'shape %s' % (r.shape,)
    e = float(np.abs(np.cos(r) ** 2 - cs ** 2).max()) if cs.size else 0.0
    return None if e <= tol else 'cosines %r, principal cosines of the contents at call time %r' % (np.cos(r).tolist(), cs.tolist())


def chk_angle_dist(cont, extra, r):
    ref = math.sqrt(sum(math.sin(float(t)) ** 2 for t in cont[0]))
    return None if abs(float(r) - ref) <= 16 * EPS * max(ref, 1.0) * max(1, cont[0].size) else 'is %r, sqrt(sum sin^2) of the contents at call time is %r' % (float(r), ref)


def chk_gmd(cont, extra, r):
    u, s, vh = cont
    q, rr, pm = r
    m, n = u.shape[0], vh.shape[0]
    tol0 = float(extra.get('tol') or 0.0)
    p = int(np.sum(s >= tol0))
    sp = np.zeros((m, n))
    sp[np.arange(p), np.arange(p)] = s[:p]
    tol = 64 * EPS * max(m, n) * float(s[0] / s[p - 1])
    if q.shape != (m, m) or rr.shape != (m, n) or pm.shape != (n, n):
        return 'shapes %s %s %s' % (q.shape, rr.shape, pm.shape)
    e = float(np.abs(q @ rr @ H(pm) - u @ sp @ vh).max()) / s[0]
    if not e <= tol:
        return 'Q R P^H is %.3g (relative) away from U S V^H of the contents at call time' % e
    e = max(float(np.abs(H(q) @ q - np.eye(m)).max()), float(np.abs(H(pm) @ pm - np.eye(n)).max()))
    if not e <= tol:
        return 'factors not orthonormal (%.3g)' % e
    if np.any(np.tril(rr, -1) != 0):
        return 'R not upper triangular'
    gm = math.exp(float(np.mean(np.log(s[:p]))))
    if not float(np.abs(np.diag(rr)[:p] - gm).max()) <= tol * gm:
        return 'diagonal of R is not the geometric mean of the singular values at call time'
    return None


def chk_eig(which):
    def chk(cont, extra, r):
        a, k = cont[0], int(extra['n'])
        n = a.shape[0]
        w = np.linalg.eigvalsh(a)
        want = w[::-1][:k] if which == 'peig' else w[:k]
        sc = nz(np.abs(w).max())
        v, d = r
        if v.shape != (n, k) or np.shape(d) != (k,):
            return 'shapes %s %s' % (v.shape, np.shape(d))
        if k and not np.all(np.abs(np.asarray(d) - want) <= 256 * EPS * n * sc):
            return 'eigenvalues %r, the %d %s of the contents at call time are %r' % (
                np.asarray(d).tolist(), k, 'largest' if which == 'peig' else 'smallest', want.tolist())
        if k and not float(np.abs(a @ v - v * d).max()) <= 1024 * EPS * n * sc:
            return 'not eigenvectors of the contents at call time'
        return None
    return chk


def chk_lrsv(cont, extra, r):
    a, k = cont[0], int(extra['n'])
    m, c = a.shape
    v0, v1, s1 = r
    sv = np.zeros(c)
    sv[:min(m, c)] = np.linalg.svd(a, compute_uv=False)
    asc = sv[::-1]
    tol = 256 * EPS * max(m, c) * nz(sv[0])
    if v0.shape != (c, k) or v1.shape != (c, c - k) or np.shape(s1) != (c - k,):
        return 'shapes'
    if not np.all(np.abs(np.asarray(s1) - asc[k:]) <= tol):
        return 'S = %r, singular values of the contents at call time %r' % (np.asarray(s1).tolist(), asc[k:].tolist())
    if k and not np.all(np.abs(np.linalg.norm(a @ v0, axis=0) - asc[:k]) <= tol):
        return 'V0 does not belong to the least singular values of the contents at call time'
    if c - k and not np.all(np.abs(np.linalg.norm(a @ v1, axis=0) - asc[k:]) <= tol):
        return 'V1 does not belong to S for the contents at call time'
    return None


def chk_gpcm(cont, extra, r):
    a, k = cont[0], int(extra['k'])
    u, s, vh = np.linalg.svd(a.astype(complex), full_matrices=False)
    want = ((u[:, :k] * s[:k]) @ vh[:k, :])[:, :k]
    gap = float(s[k - 1] - (s[k] if k < s.size else 0.0)) / s[0]
    if np.shape(r) != want.shape:
        return 'shape %s' % (np.shape(r),)
    e = float(np.abs(r - want).max())
    tol = 256 * EPS * max(a.shape) * s[0] / gap
    return None if e <= tol else 'is %.3g away from the principal components of the contents at call time' % e


def chk_whiten(cont, extra, r):
    c = cont[0]
    n = c.shape[0]
    e = float(np.abs(H(r) @ c @ r - np.eye(n)).max())
    tol = 256 * EPS * n * np.linalg.cond(c)
    return None if e <= tol else 'W^H C W is %.3g away from the identity for the contents at call time' % e


def chk_uisd(cont, extra, r):
    inv_a, d = cont[0], np.asarray(cont[1]).reshape(-1)
    n = inv_a.shape[0]
    a = np.linalg.inv(inv_a)
    full = np.zeros(n, dtype=np.result_type(d.dtype, float))
    full[:d.size] = d
    conds = [np.linalg.cond(a)] + [np.linalg.cond(a + np.diag(np.concatenate([full[:i + 1], np.zeros(n - i - 1)]))) for i in range(d.size)]
    tol = 256 * EPS * n * max(conds) ** 2
    if np.shape(r) != (n, n):
        return 'shape %s' % (np.shape(r),)
    e = float(np.abs(r @ (a + np.diag(full)) - np.eye(n)).max())
    return None if e <= tol else 'out (A + D) is %.3g away from the identity for the contents at call time' % e


def chk_conv(nm):
    def chk(cont, extra, r):
        vals = np.asarray(cont[0], dtype=float).reshape(-1)
        b = int(cont[1]) if len(cont) > 1 else None
        out = np.asarray(r)
        if out.shape != np.shape(cont[0]):
            return 'shape %s' % (out.shape,)
        for v, g in zip(vals, out.reshape(-1)):
            e = conv_value_error(nm, g, float(v), b)
            if e:
                return e
        return None
    return chk


# ---- entry points: name -> (fill(rs, dims, cplx, extra) -> contents, call(bufs, extra), check, same-object pair)
def _entries():
    proj, met, misc, conv = _impl()

    def basis1(rs, d, cplx, ex):
        return [full_rank_basis(rs, d['m'], d['k'], cplx)]

    def basis2(rs, d, cplx, ex):
        return [full_rank_basis(rs, d['m'], d['k'], cplx), full_rank_basis(rs, d['m'], d['k'], cplx)]

    def gmd_in(rs, d, cplx, ex):
        n = d['m']
        s = np.sort(rs.uniform(0.5, 3.0, size=n))[::-1]
        return [unitary(rs, n, cplx), s, unitary(rs, n, cplx)]

    def herm(rs, d, cplx, ex):
        return [herm_margin(rs, d['m'], cplx)]

    def rect(rs, d, cplx, ex):
        return [rect_gap(rs, d['m'], d['k'], cplx)]

    def cov(rs, d, cplx, ex):
        x = rs.randn(d['m'], d['m'] + 2) + (1j * rs.randn(d['m'], d['m'] + 2) if cplx else 0)
        c = x @ H(x) + np.eye(d['m'])
        return [(c + H(c)) / 2]

    def uisd_in(rs, d, cplx, ex):
        c = cov(rs, d, cplx, ex)[0]
        return [np.linalg.inv(c), rs.uniform(0.5, 2.0, size=d['m']) + (0j if cplx else 0.0)]

    def lin(rs, d, cplx, ex):
        return [10.0 ** rs.uniform(-12, 12, size=d['m'])]

    def db(rs, d, cplx, ex):
        return [rs.uniform(-120, 120, size=d['m'])]

    def db_bits(rs, d, cplx, ex):
        return [rs.uniform(-120, 120, size=d['m']), np.array(int(rs.randint(1, 11)))]

    def angles(rs, d, cplx, ex):
        return [rs.uniform(0, math.pi / 2, size=d['m'])]

    E = {
        'calcProjectionMatrix': (basis1, lambda b, ex: proj.calcProjectionMatrix(b[0]), chk_proj(False), None),
        'calcOrthogonalProjectionMatrix': (basis1, lambda b, ex: proj.calcOrthogonalProjectionMatrix(b[0]), chk_proj(True), None),
        'Projection.Q': (basis1, lambda b, ex: proj.Projection(b[0]).Q, chk_proj(False), None),
        'calc_chordal_distance': (basis2, lambda b, ex: met.calc_chordal_distance(b[0], b[1]), chk_chordal, (0, 1)),
        'calc_chordal_distance_2': (basis2, lambda b, ex: met.calc_chordal_distance_2(b[0], b[1]), chk_chordal, (0, 1)),
        'calc_principal_angles': (basis2, lambda b, ex: met.calc_principal_angles(b[0], b[1]), chk_angles, (0, 1)),
        'calc_chordal_distance_from_principal_angles': (
            angles, lambda b, ex: met.calc_chordal_distance_from_principal_angles(b[0]), chk_angle_dist, None),
        'gmd': (gmd_in, lambda b, ex: misc.gmd(b[0], b[1], b[2], float(ex.get('tol') or 0.0)) if ex.get('tol') else misc.gmd(b[0], b[1], b[2]),
                chk_gmd, (0, 2)),
        'peig': (herm, lambda b, ex: misc.peig(b[0], int(ex['n'])), chk_eig('peig'), None),
        'leig': (herm, lambda b, ex: misc.leig(b[0], int(ex['n'])), chk_eig('leig'), None),
        'least_right_singular_vectors': (rect, lambda b, ex: misc.least_right_singular_vectors(b[0], int(ex['n'])), chk_lrsv, None),
        'get_principal_component_matrix': (rect, lambda b, ex: misc.get_principal_component_matrix(b[0], int(ex['k'])), chk_gpcm, None),
        'calc_whitening_matrix': (cov, lambda b, ex: misc.calc_whitening_matrix(b[0]), chk_whiten, None),
        'update_inv_sum_diag': (uisd_in, lambda b, ex: misc.update_inv_sum_diag(b[0], b[1]), chk_uisd, None),
        'linear2dB': (lin, lambda b, ex: conv.linear2dB(b[0]), chk_conv('linear2dB'), None),
        'linear2dBm': (lin, lambda b, ex: conv.linear2dBm(b[0]), chk_conv('linear2dBm'), None),
        'dB2Linear': (db, lambda b, ex: conv.dB2Linear(b[0]), chk_conv('dB2Linear'), None),
        'dBm2Linear': (db, lambda b, ex: conv.dBm2Linear(b[0]), chk_conv('dBm2Linear'), None),
        'SNR_dB_to_EbN0_dB': (db_bits, lambda b, ex: conv.SNR_dB_to_EbN0_dB(b[0], b[1]), chk_conv('SNR_dB_to_EbN0_dB'), None),
        'EbN0_dB_to_SNR_dB': (db_bits, lambda b, ex: conv.EbN0_dB_to_SNR_dB(b[0], b[1]), chk_conv('EbN0_dB_to_SNR_dB'), None),
    }
    return E


ENTRY_NAMES = ['calcProjectionMatrix', 'calcOrthogonalProjectionMatrix', 'Projection.Q', 'calc_chordal_distance',
               'calc_chordal_distance_2', 'calc_principal_angles', 'calc_chordal_distance_from_principal_angles', 'gmd',
               'peig', 'leig', 'least_right_singular_vectors', 'get_principal_component_matrix', 'calc_whitening_matrix',
               'update_inv_sum_diag', 'linear2dB', 'linear2dBm', 'dB2Linear', 'dBm2Linear', 'SNR_dB_to_EbN0_dB',
               'EbN0_dB_to_SNR_dB']
REAL_ONLY = ('linear2dB', 'linear2dBm', 'dB2Linear', 'dBm2Linear', 'SNR_dB_to_EbN0_dB', 'EbN0_dB_to_SNR_dB',
             'calc_chordal_distance_from_principal_angles')


def history_contents(case, k):
    fill = _entries()[case['entry']][0]
    st = case['steps'][k]
    return fill(_rs(case['seed'], k, 7), case['dims'], bool(case['cplx']), st.get('extra') or {})


def o_r16_history(case):
    """ONE preallocated array per parameter, refilled in place before every call of the history; optionally the
    same array in two roles; the arguments overwritten right after the call; an equal-content copy at the end"""
    entry = case['entry']
    fill, call, check, pair = _entries()[entry]
    bufs, kept, lst = None, [], None
    r = cont = extra = args_same = None
    for k, st in enumerate(case['steps']):
        extra = st.get('extra') or {}
        cont = history_contents(case, k)
        args_same = bool(st.get('same')) and pair is not None
        if args_same:
            cont[pair[1]] = cont[pair[0]]
        if bufs is None:
            bufs = [np.zeros(np.shape(c), dtype=np.asarray(c).dtype) for c in cont]
            lst = [0.0] * len(cont[0]) if case.get('container') == 'list' else None
        for b, c in zip(bufs, cont):
            b[...] = c
        args = list(bufs)
        if lst is not None:                          # ONE python list, refilled in place (`lst[:] = values`)
            lst[:] = [float(v) for v in cont[0]]
            args[0] = lst
        if args_same:
            args[pair[1]] = bufs[pair[0]]
        role = ':same-object-both-roles' if args_same else ''
        r = call(args, extra)
        if lst is not None and lst != [float(v) for v in cont[0]]:
            return 'R16:argument-modified:' + entry + ':list', 'call %d changed the caller\'s list' % (k + 1)
        why = check([np.array(c, copy=True) for c in cont], extra, r)
        if why:
            stale = any(same_out(r, tuple(cp)) for _, cp, _ in kept)
            return ('R16:stale-result:' if stale else 'R16:wrong-result:') + entry + role, (
                'call %d of the history on the same array object(s), refilled in place: result %s%s' % (
                    k + 1, why, ' - it is bit for bit the result of an earlier call' if stale else ''))
        for b, c in zip(bufs, cont):
            if not same(b, np.asarray(c)):
                return 'R16:argument-modified:' + entry + role, 'call %d changed the caller\'s array' % (k + 1)
        outs = flat(r)
        for o in outs:
            if isinstance(o, np.ndarray) and o.size and any(b.size and np.shares_memory(o, b) for b in bufs):
                return 'R16:result-aliases-argument:' + entry + role, 'call %d' % (k + 1)
        for j, (objs, cps, _) in enumerate(kept):
            if not same_out(tuple(objs), tuple(cps)):
                return 'R16:earlier-result-changed:' + entry, 'the result of call %d changed during call %d' % (j + 1, k + 1)
            for o in outs:
                for e in objs:
                    if isinstance(o, np.ndarray) and isinstance(e, np.ndarray) and o.size and e.size and np.shares_memory(o, e):
                        return 'R16:result-aliases-earlier-result:' + entry, 'calls %d and %d return overlapping arrays' % (j + 1, k + 1)
        cps = [np.array(o, copy=True) for o in outs]
        kept.append((outs, cps, k))
        for b in bufs:                               # (iii) the caller overwrites its arrays right after the call
            b[...] = 3
        if not same_out(tuple(outs), tuple(cps)):
            return 'R16:result-follows-argument:' + entry + role, 'the result of call %d changed when the argument was overwritten' % (k + 1)
    # (iv) equal content, different objects - only at the end (an interposed call on another object would hide
    # an implementation that remembers its last argument)
    fresh = [np.array(c, copy=True) for c in cont]
    if args_same:
        fresh[pair[1]] = fresh[pair[0]]
    r2 = call(fresh, extra)
    if not same_out(tuple(kept[-1][1]), r2):
        return 'R16:equal-content-copy-differs:' + entry, 'the last call repeated on fresh arrays of equal content gives another result'
    return None


def o_r16_projection(case):
    """Projection objects built from ONE basis array that the caller refills afterwards; M handed over in ONE
    array refilled between the calls; the basis array itself as M; reflect applied to its own result written
    back into the argument array"""
    proj, _, _, _ = _impl()
    B = _B()
    m, k, cplx = int(case['m']), int(case['k']), bool(case['cplx'])
    rs = _rs(case['seed'])
    a1, a2, a3 = (full_rank_basis(rs, m, k, cplx) for _ in range(3))
    p1, p2 = B.ref_projector(a1), B.ref_projector(a2)
    tol = 64 * EPS * m * max(np.linalg.cond(a1), np.linalg.cond(a2)) ** 2
    buf_a = np.zeros((m, k), dtype=a1.dtype)
    buf_m = np.zeros((m, k), dtype=a1.dtype)
    buf_a[...] = a1
    obj1 = proj.Projection(buf_a)
    if not float(np.abs(obj1.Q - p1).max()) <= tol:
        return 'R16:projection:wrong-projector', 'Projection(A).Q is not the projector of A'
    buf_a[...] = a2                                   # the caller reuses its array
    obj2 = proj.Projection(buf_a)
    objs = {1: (obj1, p1), 2: (obj2, p2)}
    eye = np.eye(m)
    refs = {'project': lambda p, x: p @ x, 'oProject': lambda p, x: (eye - p) @ x, 'reflect': lambda p, x: (eye - 2 * p) @ x}
    kept = []
    for step, (oi, op, how) in enumerate(case['ops']):
        obj, p = objs[int(oi)]
        if how == 'basis-array':                      # the very array the (second) object was built from
            arg, x = buf_a, a2
        else:
            x = rs.randn(m, k) + (1j * rs.randn(m, k) if cplx else 0)
            buf_m[...] = x
            arg = buf_m
        r = getattr(obj, op)(arg)
        want = refs[op](p, x)
        sc = nz(np.abs(x).max())
        role = ':same-object-both-roles' if how == 'basis-array' else ''
        if np.shape(r) != want.shape or not float(np.abs(r - want).max()) <= 4 * tol * sc:
            stale = any(same(r, cp) for _, cp in kept)
            return ('R16:stale-result:Projection.' if stale else 'R16:wrong-result:Projection.') + op + role, (
                'step %d: object %s built from the contents its basis array had at construction, %s(%s): result is %.3g away' % (
                    step + 1, oi, op, 'the basis array, refilled since' if role else 'M array refilled in place',
                    float(np.abs(r - want).max()) if np.shape(r) == want.shape else float('nan')))
        if not same(arg, x):
            return 'R16:argument-modified:Projection.' + op + role, 'step %d' % (step + 1)
        if r.size and (np.shares_memory(r, buf_a) or np.shares_memory(r, buf_m) or np.shares_memory(r, obj.Q) or np.shares_memory(r, obj.oQ)):
            return 'R16:result-aliases-argument:Projection.' + op + role, 'step %d' % (step + 1)
        for j, (o, cp) in enumerate(kept):
            if not same(o, cp):
                return 'R16:earlier-result-changed:Projection.' + op, 'the result of step %d changed during step %d' % (j + 1, step + 1)
        kept.append((r, r.copy()))
        if how != 'basis-array':
            buf_m[...] = 3
            if not same(r, kept[-1][1]):
                return 'R16:result-follows-argument:Projection.' + op, 'step %d' % (step + 1)
        if how == 'feed-back' and op == 'reflect':    # reflect its own result, written back into the same array
            buf_m[...] = r
            r2 = obj.reflect(buf_m)
            if not float(np.abs(r2 - x).max()) <= 8 * tol * sc:
                return 'R16:wrong-result:Projection.reflect:result-written-back', 'reflecting twice through one array is %.3g away from the identity' % float(np.abs(r2 - x).max())
    buf_a[...] = a3
    for oi, (obj, p) in objs.items():
        if not (float(np.abs(obj.Q - p).max()) <= tol and float(np.abs(obj.oQ - (eye - p)).max()) <= tol):
            return 'R16:projection:object-follows-basis-array', 'object %d changed when the caller refilled the basis array' % oi
    if np.shares_memory(obj1.Q, obj2.Q) or np.shares_memory(obj1.oQ, obj2.oQ) or np.shares_memory(obj1.Q, buf_a):
        return 'R16:projection:objects-share-memory', 'two objects built from one array share their matrices'
    x = rs.randn(m, k) + (1j * rs.randn(m, k) if cplx else 0)
    buf_m[...] = x
    for op in ('project', 'oProject', 'reflect'):
        if not same(getattr(obj2, op)(buf_m), getattr(proj.Projection(a2.copy()), op)(x.copy())):
            return 'R16:equal-content-copy-differs:Projection.' + op, 'fresh object / fresh arrays of equal content give another result'
    return None


ORACLES = {
    'R15.subspaces': o_r15_subspaces,
    'R15.gmd': o_r15_gmd,
    'R15.eigen': o_r15_eigen,
    'R15.singular': o_r15_singular,
    'R15.conversions': o_r15_conversions,
    'R16.history': o_r16_history,
    'R16.projection': o_r16_projection,
}


# ================================================================== generators
R15_KINDS = ['tiny', 'rel-1e-6', 'adjacent-doubles', '12th-decimal', 'below-1e-8', 'tiny-magnitude']


def th_of_cos_deficit(x):
    """the angle whose cosine is 1 - x"""
    return math.sqrt(2 * x)


def subspace_cases(rng, quick):
    out = []

    def add(kind, m, p, cplx, steps):
        out.append({'kind': kind, 'm': m, 'p': p, 'cplx': cplx, 'seed': rng.below(2 ** 31), 'steps': steps})

    for i, cplx in enumerate((False, True)):
        t6 = th_of_cos_deficit(1e-6)                  # cosine 1 - 1e-6: inside rtol = 1e-5 of one
        add('rel-1e-6', 6, 2, cplx, [{'theta': [t6, t6]}, {'theta': [t6 * (1 + 1e-6), 0.5]}, {'theta': [0.5, 0.5 * (1 + 1e-6)]},
                                      {'theta': [0.5, 0.5]}])
        t8 = th_of_cos_deficit(5e-9)                  # cosine 1 - 5e-9: inside atol = 1e-8 of one
        add('below-1e-8', 4, 2, cplx, [{'theta': [t8, 2 * t8]}, {'theta': [t8, t8]}, {'theta': [t8 / 2, 0.0]}])
        add('tiny', 8, 3, cplx, [{'theta': [1e-5, 3e-6, 1e-7]}, {'theta': [1e-5, 3e-6, 2e-7]}, {'theta': [1e-7, 1e-7, 1e-7]},
                                 {'theta': [0.0, 0.0, 1e-5]}])
        add('12th-decimal', 5, 2, cplx, [{'theta': [1e-6, 0.7]}, {'theta': [1e-6, round(0.7 + 3e-13, 12)]}, {'theta': [0.0, 1e-6]}])
        ta = th_of_cos_deficit(2.0 ** -53)            # cosine = the double below one
        add('adjacent-doubles', 2, 1, cplx, [{'theta': [ta]}, {'theta': [0.0]}, {'theta': [2 * ta]}])
        add('adjacent-doubles', 4, 2, cplx, [{'theta': [0.3, ta]}, {'theta': [up(0.3), ta]}])
        # tiny entries: every array is `allclose` to every other one, the subspaces are unrelated
        add('tiny-magnitude', 4, 2, cplx, [{'theta': [0.3, 1.0], 'sa': 4e-12, 'sb': 4e-13, 'basis': 1},
                                           {'theta': [1.2, 0.1], 'sa': 4e-12, 'sb': 4e-13, 'basis': 2},
                                           {'theta': [0.7, 0.7], 'sa': 1e-9, 'sb': 3e-15, 'basis': 3},
                                           {'theta': [1e-5, 0.2], 'sa': 1e-15, 'sb': 1e-9, 'basis': 4}])
    for _ in range(6 if quick else 60):
        cplx = rng.chance(0.5)
        m = rng.randint(2, 8)
        p = rng.randint(1, m // 2)
        kind = rng.choice(['tiny', 'rel-1e-6', 'below-1e-8', 'tiny-magnitude'])
        steps = []
        for k in range(rng.randint(2, 4)):
            if kind == 'tiny-magnitude':
                steps.append({'theta': [rng.uniform(0.05, 1.5) for _ in range(p)], 'sa': 10.0 ** -rng.uniform(9, 15),
                              'sb': 10.0 ** -rng.uniform(9, 15), 'basis': k})
            else:
                lo, hi = {'tiny': (-7.5, -5), 'rel-1e-6': (-3.2, -2.7), 'below-1e-8': (-4.3, -3.9)}[kind]
                steps.append({'theta': [10.0 ** rng.uniform(lo, hi) for _ in range(p)]})
        add(kind, m, p, cplx, steps)
    return out


def spectrum_sets():
    """(kind, values): close-but-distinct / tiny positive spectra"""
    return [
        ('rel-1e-6', [1.0, 1.000001, 1.000002, 5.0]),
        ('rel-1e-6', [2.4e9, 2.4e9 + 2e4, 1e9]),
        ('below-1e-8', [1.0, 1.0 + 1e-9, 1.0 - 1e-9, 0.5]),
        ('12th-decimal', [0.123456789012345, 0.123456789012, 0.2, 0.1]),
        ('tiny', [1.0, 1.0 + 1e-11, 2.0]),
        ('adjacent-doubles', [0.3, up(0.3) + 1e-13, 0.7]),
        ('tiny-magnitude', [4e-12, 4.00002e-12, 4e-13]),
        ('tiny-magnitude', [1e-9, 1e-12, 1e-15]),
        ('tiny-magnitude', [4e-12, 4e-13, 3e-15, 2e-12]),
    ]


def gmd_cases(rng, quick):
    sets = [
        ('rel-1e-6', [1 + 2e-6, 1 + 1e-6, 1 - 1e-6, 1 - 2e-6]),
        ('below-1e-8', [5.0, 1 + 1e-9, 1.0, 1 - 1e-9, 0.2]),
        ('below-1e-8', [7.0, 1 + 3e-9, 1 + 2e-9, 1 + 1e-9, 1 / 7.0]),
        ('adjacent-doubles', [up(1.0), 1.0, down(1.0)]),
        ('adjacent-doubles', [up(0.3), 0.3, down(0.3), down(down(0.3))]),
        ('tiny', [1 + 1e-12, 1.0, 1 - 1e-12]),
        ('12th-decimal', [0.123456789012345, 0.123456789012, 0.1234567890119]),
        ('tiny-magnitude', [4e-12, 4e-13, 3e-15]),
        ('tiny-magnitude', [1e-9, 1e-12, 1e-15]),
        ('rel-1e-6', [2.4e9 + 2e4, 2.4e9, 2.4e9 - 2e4]),
    ]
    out = []
    for i, (kind, s) in enumerate(sets):
        s = sorted((float(x) for x in s), reverse=True)
        p0 = len(s)
        # tol next to a singular value: a relative 1e-9 above / below, exactly at it, the next double
        tols = [0.0, s[1] * (1 + 1e-9), s[1] * (1 - 1e-9), s[1], up(s[1]), s[-1] * (1 - 1e-9), s[-1] / 2]
        shapes = [(p0, p0), (p0 + 2, p0), (p0, p0 + 1)]
        for j, (m, n) in enumerate(shapes if not quick else [shapes[i % 3]]):
            out.append({'kind': kind, 'm': m, 'n': n, 'cplx': (i + j) % 2 == 0, 'seed': rng.below(2 ** 31), 'S': s, 'tols': tols})
    for _ in range(6 if quick else 80):
        p0 = rng.randint(2, 6)
        g = 10.0 ** rng.uniform(-12, 9)
        kind = rng.choice(['rel-1e-6', 'below-1e-8', 'tiny', 'adjacent-doubles'])
        rel = {'rel-1e-6': 1e-6, 'below-1e-8': 1e-9, 'tiny': 1e-12}.get(kind)
        if rel is None:
            s = [g]
            for _ in range(p0 - 1):
                s.append(down(s[-1]))
        else:
            s = [g * (1 + rel * rng.randint(-5, 5) + rel * rng.uniform(0, 0.5)) for _ in range(p0)]
        s = sorted(set(s), reverse=True)
        if len(s) < 2:
            continue
        m = len(s) + rng.randint(0, 2)
        n = len(s) + (rng.randint(0, 2) if m == len(s) else 0)
        j = rng.randint(0, len(s) - 1)
        out.append({'kind': 'tiny-magnitude' if g < 1e-8 else kind, 'm': m, 'n': n, 'cplx': rng.chance(0.5), 'seed': rng.below(2 ** 31),
                    'S': s, 'tols': [0.0, s[j], up(s[j]), s[j] * (1 - 1e-9)]})
    return out


def eigen_cases(rng, quick):
    out = []
    for i, (kind, w) in enumerate(spectrum_sets()):
        sc = max(abs(x) for x in w)
        n = len(w)
        diags = [[1e-9 * sc, 1e-6 * sc, sc, sc][:n], [sc * (1 + 1e-6)] * n, [sc] * n, list(reversed(w)), [1e-6 * sc] * (n - 1)]
        for cplx in ((False, True) if not quick else (i % 2 == 0,)):
            out.append({'kind': kind, 'cplx': cplx, 'seed': rng.below(2 ** 31), 'w': w, 'diagonals': diags})
        # the same set with one negative eigenvalue (selectors only)
        out.append({'kind': kind, 'cplx': i % 2 == 1, 'seed': rng.below(2 ** 31), 'w': w + [-0.5 * sc]})
    for _ in range(0 if quick else 60):
        n = rng.randint(2, 6)
        g = 10.0 ** rng.uniform(-13, 9)
        rel = rng.choice([1e-6, 1e-9, 1e-11])
        ks = list(range(-8, 9))
        rng.shuffle(ks)
        w = sorted(set(g * (1 + rel * k) for k in ks[:n]))
        out.append({'kind': 'tiny-magnitude' if g < 1e-8 else {1e-6: 'rel-1e-6', 1e-9: 'below-1e-8', 1e-11: 'tiny'}[rel],
                    'cplx': rng.chance(0.5), 'seed': rng.below(2 ** 31), 'w': w, 'diagonals': [[g * rel] * len(w), [g] * len(w)]})
    return out


def singular_cases(rng, quick):
    out = []
    for i, (kind, s) in enumerate(spectrum_sets()):
        r = len(s)
        for j, (m, c) in enumerate([(r + 1, r), (r, r + 2), (r, r)] if not quick else [[(r + 1, r), (r, r + 2), (r, r)][i % 3]]):
            out.append({'kind': kind, 'cplx': (i + j) % 2 == 0, 'seed': rng.below(2 ** 31), 's': s, 'm': m, 'c': c})
    return out


def conversion_cases():
    return [
        {'kind': 'below-1e-8', 'xs': [1.0, 1 + 1e-9, 1 - 1e-9, 1 + 3e-9, 1.0], 'ys': [0.0, 1e-9, -1e-9, 3e-9, 30.0, 30 + 1e-9, 30 - 1e-9],
         'bits': [1, 2]},
        {'kind': 'tiny', 'xs': [1 + 1e-12, 1.0, 1 - 1e-12, 1e-3 * (1 + 1e-12), 1e-3], 'ys': [1e-12, -3e-15, 1e-15, 0.0, 1e-300], 'bits': [1, 6]},
        {'kind': 'adjacent-doubles', 'xs': [1.0, up(1.0), down(1.0), 0.3, up(0.3), 0.1 + 0.2, 1e-3, up(1e-3)],
         'ys': [0.3, up(0.3), 30.0, up(30.0), -120.0, up(-120.0), 5e-324], 'bits': [4]},
        {'kind': 'tiny-magnitude', 'xs': [4e-12, 4e-13, 4.00002e-12, 1e-15, 3e-15, 1e-9, 1e-300],
         'ys': [-114.0, -124.0, -113.99998, -150.0, -145.2], 'bits': [2, 10]},
        {'kind': 'rel-1e-6', 'xs': [2.4e9, 2.4e9 + 2e4, 2.4e9 - 2e4, 5.0, 5.000005],
         'ys': [93.8, 93.8000362, 93.8 * (1 + 1e-6), -120.0, -120.000001, 20.0, 20.00002], 'bits': [1, 8]},
        {'kind': '12th-decimal', 'xs': [0.123456789012345, 0.123456789012, 0.1234567890123, 0.12345678901],
         'ys': [12.3456789012345, 12.3456789012, round(12.3456789012345, 11), -9.087654321098765, -9.087654321099], 'bits': [3]},
    ]


def history_cases(rng, quick):
    """every entry point four times on the same array objects (A/B, A/B, then the same object in both roles
    twice where the routine has two array parameters of one shape)"""
    out = []
    for i, entry in enumerate(ENTRY_NAMES):
        for rep in range(2 if quick else 6):
            cplx = (entry not in REAL_ONLY) and ((i + rep) % 2 == 0)
            if entry == 'gmd':
                dims = {'m': rng.randint(2, 5), 'k': 0}
            elif entry in ('calc_chordal_distance', 'calc_chordal_distance_2', 'calc_principal_angles', 'calcProjectionMatrix',
                           'calcOrthogonalProjectionMatrix', 'Projection.Q'):
                m = rng.randint(2, 7)
                dims = {'m': m, 'k': rng.randint(1, m - 1)}
            elif entry in ('least_right_singular_vectors', 'get_principal_component_matrix'):
                dims = {'m': rng.randint(2, 6), 'k': rng.randint(2, 6)}
            else:
                dims = {'m': rng.randint(2, 6), 'k': 0}
            n_steps = 4 if rep == 0 else rng.randint(2, 4)
            steps = []
            for k in range(n_steps):
                st = {}
                if entry in ('peig', 'leig'):
                    st['extra'] = {'n': rng.randint(1, dims['m'])}
                elif entry == 'least_right_singular_vectors':
                    st['extra'] = {'n': rng.randint(0, dims['k'])}
                elif entry == 'get_principal_component_matrix':
                    st['extra'] = {'k': rng.randint(1, min(dims['m'], dims['k']))}
                elif entry == 'gmd' and k % 2 == 1:
                    st['extra'] = {'tol': 0.4}
                if entry in ('calc_chordal_distance', 'calc_chordal_distance_2', 'calc_principal_angles', 'gmd'):
                    st['same'] = k >= 2 if rep == 0 else rng.chance(0.3)
                steps.append(st)
            if rep == 0:      # one parameter value per history: repeated calls look alike to a memo
                for st in steps:
                    if 'extra' in st and entry != 'gmd':
                        st['extra'] = steps[0]['extra']
            out.append({'entry': entry, 'cplx': cplx, 'dims': dims, 'seed': rng.below(2 ** 31), 'steps': steps})
    # the one routine that accepts a python list: ONE list refilled in place
    out.append({'entry': 'linear2dB', 'cplx': False, 'dims': {'m': rng.randint(2, 6), 'k': 0}, 'seed': rng.below(2 ** 31),
                'steps': [{}, {}, {}], 'container': 'list'})
    return out


def projection_cases(rng, quick):
    out = []
    for rep in range(4 if quick else 40):
        m = rng.randint(2, 7)
        k = rng.randint(1, m - 1)
        ops = [(1, 'project', 'buffer'), (2, 'project', 'buffer'), (2, 'project', 'basis-array'), (1, 'project', 'basis-array'),
               (2, 'oProject', 'basis-array'), (2, 'reflect', 'basis-array'), (1, 'reflect', 'feed-back'), (2, 'oProject', 'buffer')]
        if rep >= 2:
            ops = [(rng.randint(1, 2), rng.choice(['project', 'oProject', 'reflect']), rng.choice(['buffer', 'basis-array', 'feed-back']))
                   for _ in range(rng.randint(3, 8))]
        out.append({'m': m, 'k': k, 'cplx': rep % 2 == 0, 'seed': rng.below(2 ** 31), 'ops': [list(o) for o in ops]})
    return out


ORACLE_BRANCHES = (['oracle-R15:' + k for k in R15_KINDS] +
                   ['oracle-R15:subspaces', 'oracle-R15:gmd-threshold', 'oracle-R15:eigen', 'oracle-R15:singular', 'oracle-R15:conversions',
                    'oracle-R16:buffer-refilled-in-place', 'oracle-R16:same-object-both-roles', 'oracle-R16:projection-object',
                    'oracle-R16:list-refilled-in-place'] +
                   ['oracle-R16:entry:' + e for e in ENTRY_NAMES])


def oracles(ctx, run_oracle, quick):
    rng = ctx.rng.fork('r15r16')
    for case in subspace_cases(rng, quick):
        run_oracle(ctx, 'R15.subspaces', case, key=('r15sub', case['kind'], case['m'], case['p'], case['cplx'], repr(case['steps'])[:120]))
        ctx.branch('oracle-R15:' + case['kind'])
        ctx.branch('oracle-R15:subspaces')
    for case in gmd_cases(rng, quick):
        run_oracle(ctx, 'R15.gmd', case, key=('r15gmd', case['kind'], case['m'], case['n'], case['cplx'], repr(case['S'])))
        ctx.branch('oracle-R15:' + case['kind'])
        ctx.branch('oracle-R15:gmd-threshold')
    for case in eigen_cases(rng, quick):
        run_oracle(ctx, 'R15.eigen', case, key=('r15eig', case['kind'], case['cplx'], repr(case['w'])))
        ctx.branch('oracle-R15:' + case['kind'])
        ctx.branch('oracle-R15:eigen')
    for case in singular_cases(rng, quick):
        run_oracle(ctx, 'R15.singular', case, key=('r15sv', case['kind'], case['m'], case['c'], case['cplx'], repr(case['s'])))
        ctx.branch('oracle-R15:' + case['kind'])
        ctx.branch('oracle-R15:singular')
    for case in conversion_cases():
        run_oracle(ctx, 'R15.conversions', case, key=('r15conv', case['kind']))
        ctx.branch('oracle-R15:' + case['kind'])
        ctx.branch('oracle-R15:conversions')
    for case in history_cases(rng, quick):
        run_oracle(ctx, 'R16.history', case, key=('r16hist', case['entry'], case['cplx'], repr(case['dims']), case['seed']))
        ctx.branch('oracle-R16:buffer-refilled-in-place')
        ctx.branch('oracle-R16:entry:' + case['entry'])
        if any(st.get('same') for st in case['steps']):
            ctx.branch('oracle-R16:same-object-both-roles')
        if case.get('container') == 'list':
            ctx.branch('oracle-R16:list-refilled-in-place')
    for case in projection_cases(rng, quick):
        run_oracle(ctx, 'R16.projection', case, key=('r16proj', case['m'], case['k'], case['cplx'], case['seed']))
        ctx.branch('oracle-R16:projection-object')
        if any(o[2] == 'basis-array' for o in case['ops']):
            ctx.branch('oracle-R16:same-object-both-roles')


# ================================================================== correspondence with the Lean model
def _tok_refill(i, x):
    x = np.atleast_2d(np.asarray(x))
    return ['R', str(i), str(x.shape[0]), str(x.shape[1]), _B().cline(x)]


def _content_seq(rs, shape, cplx, n, mode):
    """n successive contents of one array: unrelated / close to the previous one / tiny magnitudes"""
    out = []
    for t in range(n):
        if mode == 'close' and out:
            e = rs.randn(*shape) + (1j * rs.randn(*shape) if cplx else 0)
            out.append(out[-1] + [1e-6, 1e-9, 1e-12][t % 3] * e)
        else:
            x = rs.randn(*shape) + (1j * rs.randn(*shape) if cplx else 0)
            while min(shape) and np.linalg.cond(x) > 30:
                x = rs.randn(*shape) + (1j * rs.randn(*shape) if cplx else 0)
            out.append(x * ([4e-12, 4e-13, 1e-9, 3e-15][t % 4] if mode == 'tiny-magnitude' else 1.0))
    return out


def corr_subspace_history(ctx, drv, seed, mode):
    """T1: ONE basis array A, ONE second basis B, ONE array M — projector, chordal distance (A, B) and (A, A),
    a Projection object built from A, A refilled afterwards, project / reflect of M and of A itself"""
    B = _B()
    proj, met, _, _ = _impl()
    rs = _rs(seed, 11)
    cplx = bool(seed % 2)
    m = int(rs.randint(2, 7))
    k = int(rs.randint(1, m))
    seq_a = _content_seq(rs, (m, k), cplx, 3, mode)
    seq_b = _content_seq(rs, (m, k), cplx, 2, mode)
    seq_m = _content_seq(rs, (m, k), cplx, 2, 'fresh')
    dt = complex if cplx else float
    buf_a, buf_b, buf_m = (np.zeros((m, k), dtype=dt) for _ in range(3))
    toks, checks = ['hist', '3'], []       # checks: (kind, impl values, context) per operation, '-' for refills

    def refill(i, buf, x):
        buf[...] = x
        toks.extend(_tok_refill(i, x))
        checks.append(None)

    def do_proj(i, buf):
        with B.Tap() as tap:
            p = proj.calcProjectionMatrix(buf)
        with B.Tap() as tap2:
            op = proj.calcOrthogonalProjectionMatrix(buf)
        names = [c[0] for c in tap.log] + [c[0] for c in tap2.log]
        g = tap.log[0][3] if names == ['inv', 'inv'] else None
        toks.extend(['proj', str(i), B.cline(g if g is not None else np.eye(k))])
        checks.append(('proj', names, buf.copy(), g, p, op))

    def do_chord2(i, j, x, y):
        with B.Tap() as tap:
            d = float(met.calc_chordal_distance_2(x, y))
        names = [c[0] for c in tap.log]
        ga, gb = (tap.log[0][3], tap.log[1][3]) if names == ['inv', 'inv'] else (np.eye(k), np.eye(k))
        toks.extend(['chord2', str(i), str(j), B.cline(ga), B.cline(gb)])
        checks.append(('chord2', names, x.copy(), y.copy(), ga, gb, d, i == j))

    def do_apply(i, buf, obj, q_at_construction):
        pm, rm = obj.project(buf), obj.reflect(buf)
        toks.extend(['apply', str(i), B.cline(q_at_construction)])
        checks.append(('apply', q_at_construction, buf.copy(), pm, rm, obj.Q.copy()))
        om = obj.oProject(buf)                   # oQ = eye - Q as computed at construction
        oq0 = np.eye(q_at_construction.shape[0]) - q_at_construction
        toks.extend(['apply', str(i), B.cline(oq0)])
        checks.append(('oapply', oq0, buf.copy(), om))

    refill(0, buf_a, seq_a[0])
    refill(1, buf_b, seq_b[0])
    do_proj(0, buf_a)
    do_chord2(0, 1, buf_a, buf_b)
    refill(0, buf_a, seq_a[1])
    do_proj(0, buf_a)
    do_chord2(0, 1, buf_a, buf_b)
    do_chord2(0, 0, buf_a, buf_a)
    obj = proj.Projection(buf_a)
    q0 = obj.Q.copy()
    refill(0, buf_a, seq_a[2])                   # the basis array is reused right after the object was built
    refill(2, buf_m, seq_m[0])
    do_apply(2, buf_m, obj, q0)
    refill(1, buf_b, seq_b[1])
    do_apply(0, buf_a, obj, q0)                  # ... and handed to the object's own methods
    refill(2, buf_m, seq_m[1])
    do_apply(2, buf_m, obj, q0)
    do_proj(0, buf_a)
    do_chord2(1, 0, buf_b, buf_a)
    heap = [buf_a.copy(), buf_b.copy(), buf_m.copy()]
    return toks, checks, heap, {'template': 'subspace', 'seed': seed, 'mode': mode, 'm': m, 'k': k, 'cplx': cplx}


def compare_subspace(ctx, checks, outs, heap, heap_s, case):
    B = _B()
    name = 'R16.history:' + case['template']
    ok_all = True
    for idx, (chk, out) in enumerate(zip(checks, outs)):
        key = (name, case['seed'], case['mode'], idx)
        if chk is None:
            ok_all &= ctx.corr(name + '.refill', case, '-', out, key=key)
            continue
        kind = chk[0]
        if kind == 'proj':
            _, names, a, g, p, op = chk
            if names != ['inv', 'inv']:
                ok_all &= ctx.corr(name + '.kernel-calls', case, 'call %d: %r' % (idx, names), "call %d: ['inv', 'inv']" % idx, key=key)
                continue
            m, k = a.shape
            p_s, o_s = out.split('|')
            bound = B.abs3(a, g, H(a))
            ok1, w1 = B.within(p, B.parse_c(p_s, (m, m)), bound)
            ok2, w2 = B.within(op, B.parse_c(o_s, (m, m)), bound + np.eye(m))
            gram = H(a) @ a
            res = float(np.abs(g @ gram - np.eye(k)).max())
            if not res <= max(1e-9, 100 * EPS * np.linalg.cond(a) ** 2 * k):
                ctx.tie_broken('correspondence', 'contract:inv', 'G (A^H A) - I = %.3e in a history on a reused array' % res, case)
            ok_all &= ctx.corr(name + '.calcProjectionMatrix', case, 'agree' if ok1 and ok2 else 'call %d differs: %s %s' % (idx, w1, w2), 'agree', key=key)
        elif kind == 'chord2':
            _, names, a, b, ga, gb, d, same_obj = chk
            if names != ['inv', 'inv']:
                ok_all &= ctx.corr(name + '.kernel-calls', case, 'call %d: %r' % (idx, names), "call %d: ['inv', 'inv']" % idx, key=key)
                continue
            md = core.s2f(out)
            bound = float(np.max(B.abs3(a, ga, H(a))) + np.max(B.abs3(b, gb, H(b)))) * a.shape[0]
            ok = abs(md - d) <= 1e-9 * max(bound, 1.0)
            ok_all &= ctx.corr(name + '.calc_chordal_distance_2', case, 'agree' if ok else 'call %d differs: impl %r model %r' % (idx, d, md), 'agree', key=key)
            if same_obj:
                ctx.branch('corr-R16:same-object-both-roles')
        elif kind == 'apply':
            _, q0, x, pm, rm, q_now = chk
            m = q0.shape[0]
            if not np.array_equal(q_now, q0):
                ok_all &= ctx.corr(name + '.Projection.Q', case, 'Q changed after construction (call %d)' % idx, 'Q as at construction', key=key)
                continue
            pr_s, rf_s = out.split('|')
            ok1, w1 = B.within(pm, B.parse_c(pr_s, x.shape), np.abs(q0) @ np.abs(x))
            ok2, w2 = B.within(rm, B.parse_c(rf_s, x.shape), (np.eye(m) + 2 * np.abs(q0)) @ np.abs(x))
            ok_all &= ctx.corr(name + '.Projection.project/reflect', case, 'agree' if ok1 and ok2 else 'call %d differs: %s %s' % (idx, w1, w2), 'agree', key=key)
            ctx.branch('corr-R16:projection-object')
        elif kind == 'oapply':
            _, oq0, x, om = chk
            ok1, w1 = B.within(om, B.parse_c(out.split('|')[0], x.shape), np.abs(oq0) @ np.abs(x))
            ok_all &= ctx.corr(name + '.Projection.oProject', case, 'agree' if ok1 else 'call %d differs: %s' % (idx, w1), 'agree', key=key)
    return ok_all


def corr_generic_history(ctx, drv, seed, template):
    """T2 update_inv_sum_diag(inv, d) / T3 gmd(U, S, V_H) incl. gmd(U, S, U) / T4 the conversions — ONE array per
    parameter, refilled in place between the calls"""
    B = _B()
    _, _, misc, conv = _impl()
    rs = _rs(seed, 13)
    cplx = bool(seed % 2) and template != 'conv'
    n = int(rs.randint(2, 5))
    toks, checks = ['hist', '3'], []
    dt = complex if cplx else float
    if template == 'uisd':
        bufs = [np.zeros((n, n), dtype=dt), np.zeros(n, dtype=float), np.zeros((1, 1))]
        for t in range(4):
            if t in (0, 2):
                x = rs.randn(n, n + 2) + (1j * rs.randn(n, n + 2) if cplx else 0)
                c = x @ H(x) + np.eye(n)
                bufs[0][...] = np.linalg.inv((c + H(c)) / 2)
                toks.extend(_tok_refill(0, bufs[0]))
                checks.append(None)
            d = rs.uniform(0.5, 2.0, size=n) if t != 1 else bufs[1] * (1 + 1e-6)      # R15: a close diagonal
            bufs[1][...] = d
            toks.extend(_tok_refill(1, bufs[1]))
            checks.append(None)
            with B.Tap() as tap:
                out = misc.update_inv_sum_diag(bufs[0], bufs[1])
            toks.extend(['uisd', '0', '1'])
            checks.append(('uisd', bufs[0].copy(), bufs[1].copy(), out, len(tap.log)))
    elif template == 'gmd':
        bufs = [np.zeros((n, n), dtype=dt), np.zeros(n), np.zeros((n, n), dtype=dt)]
        for t in range(4):
            same_obj = t >= 2
            u = unitary(rs, n, cplx)
            s = np.sort(rs.uniform(0.5, 3.0, size=n))[::-1]
            bufs[0][...] = u
            bufs[1][...] = s
            toks.extend(_tok_refill(0, bufs[0]) + _tok_refill(1, bufs[1]))
            checks.extend([None, None])
            if not same_obj:
                bufs[2][...] = unitary(rs, n, cplx)
                toks.extend(_tok_refill(2, bufs[2]))
                checks.append(None)
            vh = bufs[0] if same_obj else bufs[2]
            q, r, pm = misc.gmd(bufs[0], bufs[1], vh)
            sb = float(math.exp(np.mean(np.log(s)).item()))
            toks.extend(['gmd', '0', '1', '0' if same_obj else '2', str(n), core.f2s(sb)])
            checks.append(('gmd', s.copy(), q, r, pm, same_obj))
    else:
        k = int(rs.randint(2, 6))
        bufs = [np.zeros(k), np.array(1), np.zeros((1, 1))]
        for t, nm in enumerate(['lin2db', 'db2lin', 'snr2ebn0', 'lin2dbm', 'dbm2lin', 'ebn02snr', 'lin2db', 'db2lin']):
            if nm.startswith('lin'):
                vals = 10.0 ** rs.uniform(-12, 12, size=k) if t < 6 else np.array([1 + 1e-9, 1 - 1e-12, up(1.0), 4e-13, 2.4e9 + 2e4, 1.0][:k])
            else:
                vals = rs.uniform(-120, 120, size=k) if t < 6 else np.array([1e-9, -3e-15, up(30.0), 0.0, 93.8000362, 1e-12][:k])
            bufs[0][...] = vals
            toks.extend(_tok_refill(0, bufs[0]))
            checks.append(None)
            if nm in ('snr2ebn0', 'ebn02snr'):
                bufs[1][...] = int(rs.randint(1, 11))
                toks.extend(_tok_refill(1, bufs[1]))
                checks.append(None)
                fn = conv.SNR_dB_to_EbN0_dB if nm == 'snr2ebn0' else conv.EbN0_dB_to_SNR_dB
                out = fn(bufs[0], bufs[1])
                toks.extend([nm, '0', '1'])
                checks.append(('conv', nm, bufs[0].copy(), int(bufs[1]), np.asarray(out)))
            else:
                fn = {'lin2db': conv.linear2dB, 'db2lin': conv.dB2Linear, 'lin2dbm': conv.linear2dBm, 'dbm2lin': conv.dBm2Linear}[nm]
                out = fn(bufs[0])
                toks.extend([nm, '0'])
                checks.append(('conv', nm, bufs[0].copy(), None, np.asarray(out)))
    nb = 3 if template == 'gmd' else 2
    toks[1] = str(nb)
    heap = [np.array(b, copy=True) for b in bufs[:nb]]
    return toks, checks, heap, {'template': template, 'seed': seed, 'n': n, 'cplx': cplx}


CONV_NAMES = {'lin2db': 'linear2dB', 'db2lin': 'dB2Linear', 'lin2dbm': 'linear2dBm', 'dbm2lin': 'dBm2Linear',
              'snr2ebn0': 'SNR_dB_to_EbN0_dB', 'ebn02snr': 'EbN0_dB_to_SNR_dB'}


def compare_generic(ctx, checks, outs, case):
    B = _B()
    name = 'R16.history:' + case['template']
    for idx, (chk, out) in enumerate(zip(checks, outs)):
        key = (name, case['seed'], idx)
        if chk is None:
            ctx.corr(name + '.refill', case, '-', out, key=key)
            continue
        if chk[0] == 'uisd':
            _, inv_a, d, res, ncalls = chk
            n = inv_a.shape[0]
            if out.startswith('error'):
                ctx.corr(name + '.update_inv_sum_diag', case, 'value', out, key=key)
                continue
            mo = B.parse_c(out, (n, n))
            piv, cur = [], np.array(inv_a, dtype=complex)
            for i, di in enumerate(d):
                piv.append(1 + di * cur[i, i])
                cur = cur - di * np.outer(cur[:, i], cur[i, :]) / piv[-1]
            scale = nz(max(float(np.abs(inv_a).max()), float(np.abs(res).max()))) * max(1.0, float(np.max(1 / np.abs(piv))))
            ok, why = B.within(res, mo, scale * np.ones((n, n)))
            ctx.corr(name + '.update_inv_sum_diag', case, 'agree' if ok and not ncalls else 'call %d differs: %s (kernel calls %d)' % (idx, why, ncalls), 'agree', key=key)
        elif chk[0] == 'gmd':
            _, s, q, r, pm, same_obj = chk
            n = s.size
            if out.startswith('error'):
                ctx.corr(name + '.gmd', case, 'value', out, key=key)
                continue
            q_s, r_s, p_s, mg_s = out.split('|')
            if same_obj:
                ctx.branch('corr-R16:same-object-both-roles')
            if not core.s2f(mg_s) >= 1e-6:
                ctx.branch('gmd:ill-conditioned-rotation-skipped')
                continue
            scale = max(1.0, float(s[0] / s[-1])) / core.s2f(mg_s)
            ok1, w1 = B.within(q, B.parse_c(q_s, (n, n)), scale * np.ones((n, n)), rtol=1e-11)
            ok2, w2 = B.within(r, B.parse_c(r_s, (n, n)), scale * float(s[0]) * np.ones((n, n)), rtol=1e-11)
            ok3, w3 = B.within(pm, B.parse_c(p_s, (n, n)), scale * np.ones((n, n)), rtol=1e-11)
            ctx.corr(name + '.gmd', case, 'agree' if ok1 and ok2 and ok3 else 'call %d differs: Q %s R %s P %s' % (idx, w1, w2, w3), 'agree', key=key)
        else:
            _, nm, vals, b, res = chk
            mv = B.parse_f(out)
            full = CONV_NAMES[nm]
            ok = res.shape == vals.shape and mv.shape == vals.shape
            why = 'shape'
            if ok:
                for v, g, mdl in zip(vals, res, mv):
                    if not abs(float(g) - mdl) <= 4 * conv_tol(full, float(v), mdl, b):
                        ok, why = False, '%s(%r) impl %r model %r' % (full, float(v), float(g), mdl)
                        break
            ctx.corr(name + '.' + full, case, 'agree' if ok else 'call %d differs: %s' % (idx, why), 'agree', key=key)


def _heap_repr(heap):
    B = _B()
    out = []
    for b in heap:
        x = np.atleast_2d(np.asarray(b))
        out.append('%dx%d:%s' % (x.shape[0], x.shape[1], '' if x.size == 0 else B.cline(x)))
    return ';'.join(out)


def corr_histories(ctx, drv, quick):
    runs = []
    n = 3 if quick else 40
    for mode in ('fresh', 'close', 'tiny-magnitude'):
        for t in range(n):
            runs.append(corr_subspace_history(ctx, drv, 1000 * ctx.seed + 10 * t + len(mode), mode))
    for template in ('uisd', 'gmd', 'conv'):
        for t in range(n):
            runs.append(corr_generic_history(ctx, drv, 1000 * ctx.seed + 10 * t + len(template), template))
    replies = drv.ask([' '.join(r[0]) for r in runs])
    for (toks, checks, heap, case), rep in zip(runs, replies):
        if ' # ' not in rep:
            ctx.corr('R16.history:' + case['template'], case, 'values', rep)
            continue
        outs_s, heap_s = rep.split(' # ')
        outs = outs_s.split(';')
        if len(outs) != len(checks):
            ctx.corr('R16.history:' + case['template'], case, '%d operations' % len(checks), '%d results' % len(outs))
            continue
        # calls never write to the caller's arrays: the real arrays after the history = the model heap
        ctx.corr('R16.history:%s.arrays-after' % case['template'], case, _heap_repr(heap), heap_s,
                 key=('r16heap', case['template'], case['seed'], case.get('mode')))
        if case['template'] == 'subspace':
            compare_subspace(ctx, checks, outs, heap, heap_s, case)
            if case['mode'] == 'close':
                ctx.branch('corr-R15:close-contents')
            elif case['mode'] == 'tiny-magnitude':
                ctx.branch('corr-R15:tiny-magnitude')
        else:
            compare_generic(ctx, checks, outs, case)
        ctx.branch('corr-R16:buffer-refilled-in-place')
        ctx.branch('corr-R16:history:' + case['template'])


def corr_r15_values(ctx, drv, quick):
    """close-but-distinct values through the single-call model operations: principal angles of subspaces a tiny
    angle apart (tapped singular values -> `angles`), eigenvalue selection on close spectra (tapped argsort ->
    `peig` / `leig`), the conversions next to 1 / 0 (strictly relative comparison)"""
    B = _B()
    _, met, misc, conv = _impl()
    rng = ctx.rng.fork('r15corr')
    lines, items = [], []
    for case in subspace_cases(rng, quick):
        for st in case['steps']:
            a, b, _, _, th = subspace_pair(case, st)
            with B.Tap() as tap:
                ang = met.calc_principal_angles(a, b)
            names = [c[0] for c in tap.log]
            if names != ['qr', 'qr', 'svd']:
                ctx.corr('R15.calc_principal_angles.kernel-calls', {'kind': case['kind']}, repr(names), "['qr', 'qr', 'svd']")
                continue
            sv = tap.log[2][3][1]
            d3 = float(met.calc_chordal_distance_from_principal_angles(ang))
            lines.append('angles %s' % B.fline(sv))
            items.append(('angles', case['kind'], th.tolist(), np.asarray(ang, dtype=float), d3))
    for case in eigen_cases(rng, quick):
        w = np.array(case['w'])
        n = w.size
        u = unitary(_rs(case['seed']), n, bool(case['cplx']))
        a = (u * w) @ H(u)
        a = (a + H(a)) / 2
        for which, fn in (('peig', misc.peig), ('leig', misc.leig)):
            k = 1 + (case['seed'] % n)
            with B.Tap() as tap:
                v, d = fn(a, k)
            tap.add_implicit_argsort()
            names = [c[0] for c in tap.log]
            ok_args = names == ['eig', 'argsort'] and np.array_equal(tap.log[0][1][0], a) and np.array_equal(tap.log[1][1][0], tap.log[0][3][0].real)
            if not ok_args:
                ctx.corr('R15.%s.kernel-arguments' % which, {'kind': case['kind'], 'w': case['w']}, 'other: %r' % names, 'eig(A),argsort(D.real)')
                continue
            perm = tap.log[1][3].tolist()
            lines.append('%s %d %d %s' % (which, n, k, ','.join(map(str, perm))))
            items.append(('select', case['kind'], case['w'], which, v, d, tap.log[0][3]))
    for case in conversion_cases():
        for x in case['xs']:
            for op, nm in (('lin2db', 'linear2dB'), ('lin2dbm', 'linear2dBm')):
                lines.append('%s %s' % (op, core.f2s(x)))
                items.append(('conv', case['kind'], nm, x, None, float(getattr(conv, nm)(x))))
        for y in case['ys']:
            for op, nm in (('db2lin', 'dB2Linear'), ('dbm2lin', 'dBm2Linear')):
                lines.append('%s %s' % (op, core.f2s(y)))
                items.append(('conv', case['kind'], nm, y, None, float(getattr(conv, nm)(y))))
            b = case['bits'][0]
            lines.append('snr2ebn0 %s %s' % (core.f2s(y), core.f2s(float(b))))
            items.append(('conv', case['kind'], 'SNR_dB_to_EbN0_dB', y, b, float(conv.SNR_dB_to_EbN0_dB(y, b))))
    out = drv.ask(lines)
    for i, (it, rep) in enumerate(zip(items, out)):
        if it[0] == 'angles':
            _, kind, th, ang, d3 = it
            a_s, d_s = rep.split('|')
            mang = B.parse_f(a_s)
            ok = mang.shape == ang.shape and bool(np.all(np.abs(mang - ang) <= 64 * EPS * np.maximum(np.abs(mang), np.abs(ang))))
            ctx.corr('R15.calc_principal_angles', {'kind': kind, 'theta': th}, 'agree' if ok else 'differs: impl %r model %r' % (ang.tolist(), mang.tolist()),
                     'agree', key=('r15ang', kind, i))
            md3 = core.s2f(d_s)
            ok = abs(md3 - d3) <= 64 * EPS * max(abs(md3), abs(d3))
            ctx.corr('R15.calc_chordal_distance_from_principal_angles', {'kind': kind, 'theta': th},
                     'agree' if ok else 'differs: impl %r model %r' % (d3, md3), 'agree', key=('r15angd', kind, i))
            ctx.branch('corr-R15:angles')
        elif it[0] == 'select':
            _, kind, w, which, v, d, (dvals, vmat) = it
            idx = [int(t) for t in rep.split(',')] if rep and not rep.startswith('error') else None
            ok = idx is not None and np.array_equal(v, vmat[:, idx]) and np.array_equal(d, dvals[idx])
            ctx.corr('R15.' + which, {'kind': kind, 'w': w}, 'V[:,idx],D[idx] idx=%s' % idx if ok else 'differs', 'V[:,idx],D[idx] idx=%s' % idx,
                     key=('r15sel', kind, i))
            ctx.branch('corr-R15:selectors')
        else:
            _, kind, nm, v, b, got = it
            mv = core.s2f(rep)
            ok = abs(got - mv) <= 4 * conv_tol(nm, v, mv, b)
            ctx.corr('R15.' + nm, {'kind': kind, 'value': v, 'bits': b}, 'agree' if ok else 'differs: impl %r model %r' % (got, mv), 'agree',
                     key=('r15conv', nm, kind, i))
            ctx.branch('corr-R15:conversions')


def corr_kernel_histories(ctx, drv, quick):
    """entry points whose model takes the kernel results only (calc_chordal_distance, calc_principal_angles,
    calc_whitening_matrix, peig / leig, least_right_singular_vectors, get_principal_component_matrix): four
    calls on ONE array per parameter refilled in place (the last two with the same array in both roles where
    there are two).  Every call must make exactly the kernel calls of a fresh call, on the contents the
    array has at call time, and return the model's value for what the kernels returned."""
    B = _B()
    _, met, misc, _ = _impl()
    E = _entries()
    expect = {'calc_chordal_distance': ['qr', 'qr'], 'calc_principal_angles': ['qr', 'qr', 'svd'],
              'calc_whitening_matrix': ['eig', 'qr'], 'peig': ['eig', 'argsort'], 'leig': ['eig', 'argsort'],
              'least_right_singular_vectors': ['svd'], 'get_principal_component_matrix': ['svd']}
    lines, items = [], []
    for rep in range(1 if quick else 20):
        for e_i, entry in enumerate(expect):
            fill, call, _, pair = E[entry]
            seed = 1000 * ctx.seed + 50 * rep + e_i
            rs0 = _rs(seed, 17)
            cplx = bool((seed + rep) % 2)
            m = int(rs0.randint(2, 7))
            dims = {'m': m, 'k': int(rs0.randint(1, m)) if entry.startswith('calc_c') or entry.startswith('calc_p') else int(rs0.randint(2, 7))}
            extra = {'n': int(rs0.randint(1, m + 1))} if entry in ('peig', 'leig') else {}
            if entry == 'least_right_singular_vectors':
                extra = {'n': int(rs0.randint(0, dims['k'] + 1))}
            if entry == 'get_principal_component_matrix':
                extra = {'k': int(rs0.randint(1, min(dims['m'], dims['k']) + 1))}
            bufs = None
            for k in range(4):
                cont = fill(_rs(seed, k, 19), dims, cplx, extra)
                same_obj = pair is not None and k >= 2
                if same_obj:
                    cont[pair[1]] = cont[pair[0]]
                if bufs is None:
                    bufs = [np.zeros(np.shape(c), dtype=np.asarray(c).dtype) for c in cont]
                for b, c in zip(bufs, cont):
                    b[...] = c
                args = list(bufs)
                if same_obj:
                    args[pair[1]] = bufs[pair[0]]
                with B.Tap() as tap:
                    r = call(args, extra)
                if entry in ('peig', 'leig'):
                    tap.add_implicit_argsort()
                names = [c[0] for c in tap.log]
                case = {'entry': entry, 'seed': seed, 'call': k + 1, 'dims': dims, 'cplx': cplx, 'same-object': same_obj}
                key = ('r16kern', entry, seed, k)
                ctx.branch('corr-R16:kernel-history')
                if same_obj:
                    ctx.branch('corr-R16:same-object-both-roles')
                if not ctx.corr('R16.history:%s.kernel-calls' % entry, case, 'call %d: %r' % (k + 1, names),
                                'call %d: %r' % (k + 1, expect[entry]), key=key + ('names',)):
                    continue
                # the first kernel call(s) read the contents the arrays have NOW
                if entry in ('calc_chordal_distance', 'calc_principal_angles'):
                    ok = np.array_equal(tap.log[0][1][0], cont[0]) and np.array_equal(tap.log[1][1][0], cont[1])
                else:
                    ok = np.array_equal(tap.log[0][1][0], cont[0])
                ctx.corr('R16.history:%s.kernel-arguments' % entry, case, 'contents at call time' if ok else 'call %d: other' % (k + 1),
                         'contents at call time', key=key + ('args',))
                a = cont[0]
                if entry == 'calc_chordal_distance':
                    q1, q2 = tap.log[0][3][0], tap.log[1][3][0]
                    lines.append('chord %d %d %d %s %s' % (a.shape[0], q1.shape[1], q2.shape[1], B.cline(q1), B.cline(q2)))
                    items.append((entry, case, key, float(r), a.shape[0]))
                elif entry == 'calc_principal_angles':
                    lines.append('angles %s' % B.fline(tap.log[2][3][1]))
                    items.append((entry, case, key, np.asarray(r, dtype=float), None))
                elif entry == 'calc_whitening_matrix':
                    lam, v = tap.log[0][3][0], tap.log[1][3][0]
                    lines.append('whiten %d %s %s' % (a.shape[0], B.cline(lam), B.cline(v)))
                    items.append((entry, case, key, r, (lam, v)))
                elif entry in ('peig', 'leig'):
                    perm = tap.log[1][3].tolist()
                    lines.append('%s %d %d %s' % (entry, a.shape[1], extra['n'], ','.join(map(str, perm))))
                    items.append((entry, case, key, r, tap.log[0][3]))
                elif entry == 'least_right_singular_vectors':
                    lines.append('lrsv %d %d %s' % (a.shape[1], extra['n'], B.fline(tap.log[0][3][1])))
                    items.append((entry, case, key, r, tap.log[0][3]))
                else:
                    u, sv, vh = tap.log[0][3]
                    lines.append('gpcm %d %d %d %s %s %s' % (a.shape[0], a.shape[1], extra['k'], B.cline(u), B.cline(sv), B.cline(vh)))
                    items.append((entry, case, key, r, (u, sv, vh)))
    out = drv.ask(lines)
    for (entry, case, key, r, aux), rep in zip(items, out):
        name = 'R16.history:' + entry
        if entry == 'calc_chordal_distance':
            md = core.s2f(rep.split('|')[0])
            ctx.corr(name, case, 'agree' if abs(md - r) <= 1e-9 * max(1.0, aux) else 'differs: impl %r model %r' % (r, md), 'agree', key=key)
        elif entry == 'calc_principal_angles':
            mang = B.parse_f(rep.split('|')[0])
            ok = mang.shape == r.shape and bool(np.all(np.abs(mang - r) <= 1e-12))
            ctx.corr(name, case, 'agree' if ok else 'differs: impl %r model %r' % (r.tolist(), mang.tolist()), 'agree', key=key)
        elif entry == 'calc_whitening_matrix':
            lam, v = aux
            n = v.shape[0]
            ok, why = B.within(r, B.parse_c(rep, (n, n)), np.abs(v) @ np.diag(1 / np.sqrt(np.abs(lam))), rtol=1e-12)
            ctx.corr(name, case, 'agree' if ok else 'differs: ' + why, 'agree', key=key)
        elif entry in ('peig', 'leig'):
            dvals, vmat = aux
            idx = [int(t) for t in rep.split(',')] if rep and not rep.startswith('error') else []
            ok = np.array_equal(r[0], vmat[:, idx]) and np.array_equal(r[1], dvals[idx])
            ctx.corr(name, case, 'V[:,idx],D[idx] idx=%s' % idx if ok else 'differs', 'V[:,idx],D[idx] idx=%s' % idx, key=key)
        elif entry == 'least_right_singular_vectors':
            i0_s, i1_s, s_s = rep.split('|')
            i0 = [int(t) for t in i0_s.split(',')] if i0_s else []
            i1 = [int(t) for t in i1_s.split(',')] if i1_s else []
            vfull = H(aux[2])
            ok = (not s_s.startswith('error') and np.array_equal(r[0], vfull[:, i0]) and np.array_equal(r[1], vfull[:, i1])
                  and np.array_equal(np.asarray(r[2]), B.parse_f(s_s)))
            ctx.corr(name, case, 'V[:,idx0],V[:,idx1],S[idx1]' if ok else 'differs', 'V[:,idx0],V[:,idx1],S[idx1]', key=key)
        else:
            u, sv, vh = aux
            kk = case and np.shape(r)[1]
            if rep.startswith('error') or rep == 'out-of-model':
                ctx.corr(name, case, 'value', rep, key=key)
                continue
            mo = B.parse_c(rep, np.shape(r))
            bound = (np.abs(u[:, :sv.size]) * sv) @ np.abs(vh[:sv.size, :kk])
            ok, why = B.within(r, mo, bound + 1e-300)
            ctx.corr(name, case, 'agree' if ok else 'differs: ' + why, 'agree', key=key)


CORR_BRANCHES = ['corr-R16:kernel-history', 'corr-R16:buffer-refilled-in-place', 'corr-R16:same-object-both-roles', 'corr-R16:projection-object',
                 'corr-R16:history:subspace', 'corr-R16:history:uisd', 'corr-R16:history:gmd', 'corr-R16:history:conv',
                 'corr-R15:close-contents', 'corr-R15:tiny-magnitude', 'corr-R15:angles', 'corr-R15:selectors', 'corr-R15:conversions']


def correspondence(ctx, quick):
    drv = core.Driver(DRIVER)
    corr_histories(ctx, drv, quick)
    corr_kernel_histories(ctx, drv, quick)
    corr_r15_values(ctx, drv, quick)
