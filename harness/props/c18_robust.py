"""C18 — robustness classes R1–R7 (helper module of harness/props/c18.py; not a property module).

R1 element types, R2 memory layout / degenerate shapes, R3 input immutability and
output independence, R4 rejected calls, R5 boundary values, R6 scale, R7
long-lived / shared objects.  Every class has a correspondence part (model on the
LOGICAL values vs the code on the variant input) and an oracle part (first
principles or fresh-twin comparison on the real code), each with its own branch
(`corr:Rk`, `oracle:Rk`) and failure classes computed from the input.
"""
import math
from fractions import Fraction

import numpy as np

from harness import core


def B():
    from harness.props import c18
    return c18


INT_TYPES = ['int8', 'uint8', 'int16', 'uint16', 'int32', 'int64']
PRIME_SQUARES = [25, 49, 121, 169, 289, 361, 529, 841, 961]
POW2_PM1 = [31, 32, 33, 63, 64, 65, 127, 128, 129, 255, 256, 257, 511, 512, 513, 1023, 1024, 1025]


def rel_close(a, b, rel):
    """|a-b| <= rel * max(|a|,|b|) elementwise-max norm; exact equality required when both vanish (R6)"""
    a, b = np.asarray(a), np.asarray(b)
    if a.shape != b.shape:
        return False, float('inf'), 0.0
    if a.size == 0:
        return True, 0.0, 0.0
    mag = max(float(np.max(np.abs(a))), float(np.max(np.abs(b))))
    d = float(np.max(np.abs(a - b)))
    return d <= rel * mag, d, mag


def rnd_y(seed, shape, kind):
    """seeded observation; kind: complex128/complex64/float64/float32 -> gaussian, int types -> integers"""
    r = np.random.RandomState(seed)
    if kind in INT_TYPES:
        lo = 0 if kind.startswith('u') else -50
        return r.randint(lo, 51, size=shape).astype(kind)
    if np.dtype(kind).kind == 'c':
        return np.asarray(r.randn(*shape) + 1j * r.randn(*shape)).astype(kind)
    return np.asarray(r.randn(*shape)).astype(kind)


def history_feature(ops, upto):
    """class suffix of a shared-root history: computed from the operations performed so far"""
    for op in ops[:upto + 1]:
        if op['ncs'] == 0 and op['norm'] and op['ncs'] < op['D']:
            return 'after-shift0-normalised'
    for op in ops[:upto + 1]:
        if op['norm'] and op['ncs'] < op['D']:
            return 'after-normalised-user'
    return 'plain-users'


# ------------------------------------------------------------------ oracle: one shared root, several users
def o_shared_root(case):
    """R3/R4/R7: users are built in sequence from ONE RootSequence object; after every construction the root
    and every earlier user are what they were, every user equals the one built from a fresh root, a rejected
    construction changes nothing; the users then transmit together and each estimator is exact."""
    b = B()
    ce = b._impl()[4]
    rs = case['root']
    root = b.impl_root(rs['u'], rs['size'], rs['nzc'])
    seq0 = np.array(root.seq_array(), copy=True)
    obs0 = (root.Nzc, root.size, root.index)
    n = seq0.size
    if np.max(np.abs(np.abs(seq0) - 1.0)) > 1e-12:
        return 'not-unit-amplitude', 'fresh root is not unit amplitude'
    users, snaps, specs = [], [], []
    ops = case['ops']
    for i, op in enumerate(ops):
        feat = history_feature(ops, i)
        bad = op['ncs'] >= op['D']
        try:
            ue = b.make_ue(root, op)
            raised = None
        except AssertionError as e:
            ue, raised = None, e
        if bad and raised is None:
            return 'bad-shift-accepted', 'op %d: shift %d accepted with D=%d' % (i, op['ncs'], op['D'])
        if not bad and raised is not None:
            return 'exception:AssertionError', 'op %d raised for a valid shift' % i
        # the shared root
        now = np.asarray(root.seq_array())
        if now.shape != seq0.shape or not np.array_equal(now, seq0) or (root.Nzc, root.size, root.index) != obs0:
            cls = 'rejected-call-changed-state' if bad else 'shared-root-modified:' + feat
            return cls, 'after op %d (D=%d ncs=%d norm=%s cover=%s) the shared root changed: |r| in [%.4g, %.4g]' % (
                i, op['D'], op['ncs'], op['norm'], op['cover'], np.abs(now).min(), np.abs(now).max())
        # every earlier user
        for j, (uj, sj) in enumerate(zip(users, snaps)):
            if not np.array_equal(np.asarray(uj.seq_array()), sj):
                cls = 'rejected-call-changed-state' if bad else 'earlier-user-modified:' + feat
                return cls, 'after op %d user %d changed' % (i, j)
        if bad:
            continue
        arr = np.asarray(ue.seq_array())
        fresh_root = b.impl_root(rs['u'], rs['size'], rs['nzc'])
        fresh = np.asarray(b.make_ue(fresh_root, op).seq_array())
        if arr.shape != fresh.shape or not np.array_equal(arr, fresh):
            return 'user-differs-from-fresh-root:' + feat, 'op %d: max diff %.3e to the user built on a fresh root' % (
                i, b.max_diff(arr, fresh))
        if np.shares_memory(arr, root.seq_array()):
            return 'user-aliases-root:' + feat, 'op %d: the user sequence shares memory with the root sequence' % i
        amp = (1.0 / math.sqrt(n)) if op['norm'] else 1.0
        want = amp * (np.abs(np.array(op['cover'], dtype=float))[:, None] / (abs(op['cover'][0]) if op['norm'] else 1.0)
                      if op['cover'] is not None else 1.0)
        if np.max(np.abs(np.abs(arr) - want)) > 1e-12:
            return 'user-amplitude:' + feat, 'op %d: |x| deviates from %.6g by %.3e' % (
                i, amp, np.max(np.abs(np.abs(arr) - want)))
        if ue.normalized is not bool(op['norm']):
            return 'normalized-flag:' + feat, 'op %d: normalized=%r' % (i, ue.normalized)
        users.append(ue)
        snaps.append(np.array(arr, copy=True))
        specs.append(op)
    # simultaneous transmission of the plain (no cover code) users of one shift family on distinct shifts
    for d in (8, 12):
        grp, seen = [], set()
        for ue, op in zip(users, specs):
            if op['D'] == d and op['cover'] is None and op['ncs'] not in seen and n % d == 0:
                grp.append((ue, op))
                seen.add(op['ncs'])
        if len(grp) < 1 or n % d:
            continue
        win = n // d
        m = int(case.get('m', 1))
        nsc = m * n
        hs = [b.gtaps([op['taps']])[:, :win] for _, op in grp]
        k = min(win, max(h.shape[1] for h in hs)) - 1
        comb = np.arange(0, nsc, m)
        y = sum(b.true_response(h, nsc)[0, comb] * np.asarray(ue.seq_array()) for (ue, _), h in zip(grp, hs))
        mag = max(float(np.max(np.abs(b.true_response(h, nsc)))) for h in hs)
        for (ue, op), h in zip(grp, hs):
            out = ce.CazacBasedChannelEstimator(ue, size_multiplier=m).estimate_channel_freq_domain(np.array(y), k)
            d_ = float(np.max(np.abs(out - b.true_response(h, nsc)[0])))
            if not d_ <= (1e-9 + 64 * b.seq_tol(rs['u'], nsc)) * mag * len(grp):
                return 'estimate-inexact:shared-root:' + history_feature(ops, len(ops)), \
                    'user on shift %d (norm=%s): max |H_est - H| = %.3e (|H| <= %.3g)' % (op['ncs'], op['norm'], d_, mag)
    # and the root is still a CAZAC sequence
    now = np.asarray(root.seq_array())
    if not np.array_equal(now, seq0):
        return 'shared-root-modified:' + history_feature(ops, len(ops)), 'root changed by the estimators'
    return None


# ------------------------------------------------------------------ oracle: one estimator object, many calls
def est_observables(est):
    obs = [np.array(est.ue_ref_seq, copy=True), est._size_multiplier, est._normalized_ref_seq]
    if hasattr(est, 'cover_code'):
        obs.append(np.array(est.cover_code, copy=True))
    return obs


def obs_equal(a, b_):
    return len(a) == len(b_) and all(
        (np.array_equal(x, y) if isinstance(x, np.ndarray) else (x is y or x == y)) for x, y in zip(a, b_))


def make_estimator(case):
    b = B()
    ce = b._impl()[4]
    ue = b.impl_ue(case['ue'])
    if case['ue']['cover'] is not None:
        return ce.CazacBasedWithOCCChannelEstimator(ue), ue
    return ce.CazacBasedChannelEstimator(ue, size_multiplier=int(case.get('m', 1))), ue


def call_input(case, call, size):
    """(variant array handed to the code, C-contiguous complex128 twin, kwargs)"""
    occ = case['ue']['cover'] is not None
    nr = call.get('nr', 0)
    nc = len(case['ue']['cover']) if occ else None
    extra = call.get('extra', True)
    n = size + (1 if call.get('bad') == 'length' else 0)
    if occ:
        shape = ((nc, n) if nr == 0 else (nr, nc, n)) if extra else ((nc * n,) if nr == 0 else (nr, nc * n))
    else:
        shape = (n,) if nr == 0 else (nr, n)
    if call.get('bad') == 'ndim':
        shape = shape + (2,) if not occ or extra else (2, 2) + shape
    if call.get('bad') == 'ndim0':
        shape = ()
    if call.get('zero_antennas') and not occ:
        shape = (0, n)
    y = rnd_y(call['seed'], shape, call.get('ytype') or 'complex128') * float(call.get('scale', 1.0))
    if call.get('ytype') in INT_TYPES:
        y = rnd_y(call['seed'], shape, call['ytype'])
    yv = B().relayout(y, call.get('layout')) if np.ndim(y) > 0 and np.size(y) > 0 else np.asarray(y)
    twin = np.array(np.asarray(yv).astype(np.complex128), order='C', copy=True)
    kw = {'extra_dimension': bool(extra)} if occ else {}
    return yv, twin, kw


def o_estimator_history(case):
    """R3/R4/R7 (+R1/R2/R6 through the per-call variants): ONE estimator object serves a sequence of calls
    (valid and rejected, different K / shapes / layouts / dtypes / scales); every result equals the result of
    a fresh estimator on the C-contiguous complex128 twin, inputs are never modified (checked again after all
    later calls), earlier results never change, a rejected call leaves the object as it was."""
    b = B()
    est, ue = make_estimator(case)
    size = ue.size
    kind = 'occ' if case['ue']['cover'] is not None else 'plain'
    obs0 = est_observables(est)
    kept = []      # (live input, snapshot, live output, output copy, call index)
    for i, call in enumerate(case['calls']):
        tag = b.variant_tag({k: v for k, v in call.items() if k in ('ytype', 'layout', 'ktype', 'scale', 'bad', 'zero_antennas')})
        cls = kind + ('|' + tag if tag else '')
        yv, twin, kw = call_input(case, call, size)
        snap = b.Snap(Y=yv)
        kk = b.tint(int(call['K']), call.get('ktype'))
        try:
            out = est.estimate_channel_freq_domain(yv, kk, **kw)
            raised = None
        except (ValueError, RuntimeError, AttributeError) as e:
            out, raised = None, e
        if snap.changed():
            return 'input-modified:' + cls, 'call %d changed its input (%s)' % (i, snap.changed())
        if call.get('bad'):
            if raised is None:
                return 'bad-call-accepted:' + cls, 'call %d (%s) returned a value' % (i, call['bad'])
            if not obs_equal(est_observables(est), obs0):
                return 'rejected-call-changed-state:' + cls, 'estimator changed by rejected call %d' % i
            continue
        if raised is not None:
            return 'exception:%s:%s' % (type(raised).__name__, cls), 'call %d: %r' % (i, raised)
        fresh, _ = make_estimator(case)
        ref = fresh.estimate_channel_freq_domain(twin, int(call['K']), **kw)
        out = np.asarray(out)
        ok, d, mag = rel_close(out, ref, 1e-12)
        if not ok:
            return 'call-differs-from-fresh-twin:' + cls, 'call %d: max diff %.3e (magnitude %.3e) to a fresh ' \
                'estimator on the contiguous complex128 copy' % (i, d, mag)
        if out.dtype != np.complex128:
            return 'estimate-wrong-dtype:' + cls, 'call %d: dtype %s' % (i, out.dtype)
        if np.shares_memory(out, yv) or np.shares_memory(out, est.ue_ref_seq) \
                or any(np.shares_memory(out, o[2]) for o in kept):
            return 'output-aliases:' + cls, 'call %d: result shares memory with an input / the reference / an ' \
                'earlier result' % i
        kept.append((yv, snap, out, np.array(out, copy=True), i))
        # R11: read-only accessors between the calls must not change anything (checked against obs0 below)
        _ = (est.ue_ref_seq, getattr(est, 'cover_code', None), repr(est), ue.seq_array(), ue.size, ue.shape,
             ue.normalized, repr(ue))
        if not obs_equal(est_observables(est), obs0):
            return 'query-changed-state:' + kind, 'read-only accessors after call %d changed the estimator' % i
    for yv, snap, out, cp, i in kept:
        if snap.changed():
            return 'input-modified-later:' + kind, 'input of call %d changed by a later call' % i
        if not np.array_equal(out, cp, equal_nan=True):
            return 'earlier-output-changed:' + kind, 'result of call %d changed by a later call' % i
    if not obs_equal(est_observables(est), obs0):
        return 'estimator-state-drift:' + kind, 'observable attributes changed over the history'
    return None


# ------------------------------------------------------------------ oracle: typed scalars / arrays vs twin
def o_typed_sequence(case):
    """R1: root index / Nzc / cyclic shift / normalize flag / cover-code dtype given in other element types
    give bitwise the same sequence as their Python int / bool / int64 twins."""
    b = B()
    spec = dict(case['ue'])
    twin = dict(spec)
    twin['types'] = None
    tag = b.variant_tag(spec.get('types'))
    a = b.impl_ue(spec)
    t = b.impl_ue(twin)
    xa, xt = np.asarray(a.seq_array()), np.asarray(t.seq_array())
    if xa.shape != xt.shape or xa.dtype != xt.dtype or not np.array_equal(xa, xt):
        return 'typed-sequence-differs|' + tag, 'max diff %.3e, dtypes %s/%s' % (b.max_diff(xa, xt), xa.dtype, xt.dtype)
    if bool(a.normalized) != bool(t.normalized) or (a.normalized is not t.normalized):
        return 'typed-normalized-flag|' + tag, 'normalized=%r vs %r' % (a.normalized, t.normalized)
    return None


def o_typed_extension(case):
    """R1/R2/R5: get_extended_ZF with the size / the root array in other element types and layouts"""
    b = B()
    zc = b._impl()[1]
    n, size = int(case['n']), int(case['size'])
    var = case.get('variant') or {}
    base = (np.arange(n) * 3 - 40)
    if (var.get('dtype') or 'int64').startswith('u'):
        base = np.arange(n) * 3
    root = b.relayout(base.astype(var.get('dtype') or 'int64'), var.get('layout'))
    snap = b.Snap(root=root)
    out = zc.get_extended_ZF(root, b.tint(size, var.get('stype')))
    tag = b.variant_tag(var)
    if snap.changed():
        return 'input-modified|' + tag, 'get_extended_ZF changed its input'
    if np.shares_memory(out, root):
        return 'output-aliases-input|' + tag, 'result shares memory with root_seq'
    want = np.asarray(root)[np.arange(size) % n]
    if out.shape != want.shape or out.dtype != root.dtype or not np.array_equal(out, want):
        return 'extension-not-cyclic|' + tag, 'n=%d size=%d dtype=%s -> %s' % (n, size, out.dtype, out[:10])
    return None


ORACLES = {
    'shared RootSequence': o_shared_root,
    'estimator history': o_estimator_history,
    'typed sequence arguments': o_typed_sequence,
    'get_extended_ZF(typed)': o_typed_extension,
}


# ------------------------------------------------------------------ generators
def gen_history(rng, quick=True):
    """one shared root, 2..6 constructions (shift 0 and normalisation forced to appear often)"""
    d0 = rng.choice([8, 8, 12])
    size = rng.choice([24, 48, 72, 96, 120, 144] if quick else [24, 48, 72, 96, 120, 144, 192, 240, 288, 600])
    b = B()
    lim = b.largest_prime_le(size) if size > 24 else 30
    nzc = None
    if size > 24 and rng.chance(0.25):
        nzc = rng.choice([b.largest_prime_le(size), b.largest_prime_le(size // 2), size])   # plain / extended
    root = {'u': rng.randint(1, min(lim, nzc or lim) - 1), 'size': size, 'nzc': nzc}
    win = size // 8
    ops = []
    for i in range(rng.randint(2, 6)):
        d = d0 if rng.chance(0.8) else (20 - d0)
        first = rng.chance(0.45)
        ncs = 0 if first else rng.below(d)
        if rng.chance(0.08):
            ncs = d + rng.below(3)                         # rejected construction
        cover = None
        if d == 12 and rng.chance(0.4):
            cover = rng.choice([[1, 1], [1, -1], [-1, 1], [1]])
        ops.append({'D': d, 'ncs': ncs, 'norm': rng.below(2), 'cover': cover,
                    'taps': [[rng.randint(-4, 4), rng.randint(-4, 4)] for _ in range(rng.randint(1, max(1, size // d)))]})
    if rng.chance(0.5):
        # the seeded pattern: normalised shift-0 user first, then plain users on the same root
        ops[0].update({'ncs': 0, 'norm': 1, 'cover': None if ops[0]['D'] == 8 else ops[0]['cover']})
        ops[-1].update({'norm': 0})
    return {'root': root, 'ops': ops, 'm': rng.choice([1, 2])}


def gen_est_history(rng, quick=True):
    b = B()
    spec = b.ue_spec_random(rng, small=True)
    spec['nzc'] = None
    size_hint = spec['size']
    if spec['cover'] is not None:
        spec['cover'] = [rng.choice([1, -1]) for _ in spec['cover']]
    calls = []
    for _ in range(rng.randint(3, 7)):
        call = {'K': rng.choice([0, 1, 3, size_hint // 8, size_hint - 1, size_hint, size_hint + 7]),
                'nr': rng.choice([0, 0, 1, 2, 3]), 'seed': rng.below(2 ** 31),
                'layout': rng.choice(['C', 'C', 'broadcast'] + b.LAYOUTS), 'ytype': rng.choice(
                    ['complex128', 'complex128', 'complex64', 'float64', 'float32'] + INT_TYPES),
                'scale': rng.choice([1.0, 1.0, 1e-12, 1e-6, 1e6, 1e12]), 'extra': not rng.chance(0.4)}
        if call['ytype'] in INT_TYPES:
            call['scale'] = 1.0
        if rng.chance(0.3):
            call['ktype'] = rng.choice(INT_TYPES)
            if rng.chance(0.3):
                call['K'] = int(np.iinfo(call['ktype']).max) if call['ktype'] in ('int8', 'uint8', 'int16') else call['K']
        if rng.chance(0.12):
            call['bad'] = rng.choice(['length', 'ndim', 'ndim0'])
        elif rng.chance(0.06):
            call['zero_antennas'] = True
        if call['nr'] == 0 and call['layout'] == 'F':
            call['layout'] = 'strided'
        calls.append(call)
    return {'ue': spec, 'm': rng.choice([1, 2, 3]), 'calls': calls}


def gen_typed_sequence(rng):
    b = B()
    spec = b.ue_spec_random(rng, small=True)
    if spec['cover'] is not None:
        spec['cover'] = [rng.choice([1, -1, 2, -3]) for _ in spec['cover']]
    knob = rng.choice(['u', 'nzc', 'ncs', 'norm', 'cover', 'u'])
    types = {}
    if knob == 'norm':
        types['norm'] = 'np.bool_'
        spec['norm'] = rng.choice([0, 1, 1])
    elif knob == 'cover':
        spec.update({'D': 12, 'cover': spec['cover'] or [1, -1]})
        types['cover'] = rng.choice(['int8', 'int16', 'int32', 'float32', 'float64', 'complex64'])
    else:
        types[knob] = rng.choice(INT_TYPES)
        if knob == 'nzc' and spec['nzc'] is None and spec['size'] > 24:
            spec['nzc'] = b.largest_prime_le(spec['size'])
            spec['u'] = min(spec['u'], spec['nzc'] - 1)
    spec['types'] = types
    return {'ue': spec}


def typed_variant_of_estimator_case(rng, case):
    """one knob of a first-principles estimator scenario moved to another element type / layout / scale"""
    knob = rng.choice(['ktype', 'mtype', 'ytype', 'layout', 'scale', 'utype', 'ncstype', 'kmax'])
    var = {}
    cls = 'R1'
    if knob == 'ktype':
        var['ktype'] = rng.choice(INT_TYPES)
    elif knob == 'kmax':
        # boundary of the narrow type: K = max of int8 / uint8 / int16 keeps every tap
        var['ktype'] = rng.choice(['int8', 'uint8', 'int16'])
        case['K'] = int(np.iinfo(var['ktype']).max)
        if case['ue']['size'] // case['ue']['D'] <= case['K'] and case['interferers']:
            case['interferers'] = []            # the window clause needs K+1 <= N/D
    elif knob == 'mtype':
        var['mtype'] = rng.choice(INT_TYPES)
    elif knob == 'ytype':
        var['ytype'] = 'complex64'
    elif knob == 'layout':
        var['layout'] = rng.choice(B().LAYOUTS[1:])
        cls = 'R2'
    elif knob == 'scale':
        var['scale'] = rng.choice([1e-12, 1e-9, 1e-6, 1e6, 1e9, 1e12])
        cls = 'R6'
    elif knob == 'utype':
        case['ue']['types'] = {'u': rng.choice(INT_TYPES)}
    else:
        case['ue']['types'] = {'ncs': rng.choice(INT_TYPES)}
    case['variant'] = var
    return cls


def gen_boundary_estimator_case(rng):
    """R5: taps fill the whole window (len h = K+1 = N/D), a single tap, the zero channel, K = 0, one antenna
    in 2-D layout, first/last shift, sizes at prime squares / powers of two +-1 (explicit Nzc keeps D | size)"""
    b = B()
    case = b.gen_estimator_case(rng)
    spec = case['ue']
    d = spec['D']
    win = spec['size'] // d
    what = rng.choice(['full-window', 'single-tap', 'zero-channel', 'K0', 'last-shift', 'first-shift', 'nzc-boundary'])
    nr = len(case['taps'])
    if what == 'full-window':
        case['K'] = win - 1
        case['taps'] = b.rnd_taps(rng, nr, win)
        for it in case['interferers']:
            it['taps'] = b.rnd_taps(rng, nr, win)
    elif what == 'single-tap':
        case['taps'] = b.rnd_taps(rng, nr, 1)
    elif what == 'zero-channel':
        case['taps'] = [[[0, 0]] for _ in range(nr)]
        case['interferers'] = []
    elif what == 'K0':
        case['K'] = 0
        case['taps'] = b.rnd_taps(rng, nr, 1)
    elif what == 'last-shift':
        spec['ncs'] = d - 1
        case['interferers'] = [it for it in case['interferers'] if it['ncs'] != d - 1 or 'cover' in it]
    elif what == 'first-shift':
        spec['ncs'] = 0
        case['interferers'] = [it for it in case['interferers'] if it['ncs'] != 0 or 'cover' in it]
    else:
        if spec['size'] > 24:
            spec['nzc'] = rng.choice([spec['size'], spec['size'] - 1, spec['size'] // 2, spec['size'] // 2 + 1,
                                      rng.choice([p for p in PRIME_SQUARES + POW2_PM1 if p <= spec['size']] or [25])])
            spec['u'] = rng.choice([1, spec['nzc'] - 1])
    for it in case['interferers']:
        if 'cover' in it and it['ncs'] == spec['ncs'] and spec['cover'] is not None:
            it['cover'] = [spec['cover'][0], -spec['cover'][1]]
    return case, what


def gen_ls_variant(rng):
    b = B()
    case = b.gen_ls_case(rng)
    knob = rng.choice(['dtype', 'dtype', 'layout', 'scale', 'degenerate', 'narrow-int'])
    var = {}
    cls = 'R1'
    if knob == 'dtype':
        var['dtype'] = rng.choice(['complex64', 'float64', 'float32', 'int16', 'int32', 'int64'])
        if np.dtype(var['dtype']).kind != 'c':
            # only the real parts are used: they must be of full row rank themselves
            def real_ok(c):
                for s_ in c['S']:
                    a = np.array([[v[0] for v in row] for row in s_], dtype=float)
                    g = a @ a.T
                    if not (abs(np.linalg.det(g)) > 0.5 and np.linalg.cond(g) < 1e4):
                        return False
                return True
            while not real_ok(case):
                case = b.gen_ls_case(rng)
    elif knob == 'narrow-int':
        # values that fit the narrow type while the products formed by the estimator do not
        var['dtype'] = rng.choice(['int8', 'int16'])
        big = 11 if var['dtype'] == 'int8' else 150
        reps = len(case['S'])
        nt, npil = len(case['S'][0]), len(case['S'][0][0])
        while True:
            ss = [[[[rng.randint(-big, big), 0] for _ in range(npil)] for _ in range(nt)] for _ in range(reps)]
            if all(abs(np.linalg.det(np.array([[c[0] for c in row] for row in s_], dtype=float)
                                     @ np.array([[c[0] for c in row] for row in s_], dtype=float).T)) > 0.5
                   and np.linalg.cond(np.array([[c[0] for c in row] for row in s_], dtype=float)) < 1e3 for s_ in ss):
                break
        case['S'] = ss
        case['H'] = [[[[rng.randint(-1, 1), 0] for _ in range(nt)] for _ in range(len(h))] for h in case['H']]
        fits = all(abs(v) <= (127 if var['dtype'] == 'int8' else 32767)
                   for h, s_ in zip(case['H'], ss * len(case['H']))
                   for v in (np.array([[c[0] for c in r] for r in h]) @ np.array([[c[0] for c in r] for r in s_])).ravel())
        if not fits:
            var['dtype'] = 'int16' if var['dtype'] == 'int8' else 'int32'
    elif knob == 'layout':
        var['layout'] = rng.choice(b.LAYOUTS[1:])
        cls = 'R2'
    elif knob == 'scale':
        var['sh'] = rng.choice([1e-12, 1e-6, 1.0, 1e6, 1e12])
        var['ss'] = rng.choice([1e-12, 1e-6, 1e6, 1e12])
        cls = 'R6'
    else:
        # 1 x 1 x 1, one antenna, as many pilots as transmitters (square S)
        nt = rng.choice([1, 1, 2])
        case = {'shape': rng.choice(['2d', '3d-shared', '3d-own']), 'H': [[[[rng.randint(-3, 3), rng.randint(-3, 3)]
                                                                          for _ in range(nt)]]],
                'S': [[[[1 + rng.randint(0, 2), rng.randint(-1, 1)] if i == j else [0, 0] for j in range(nt)]
                       for i in range(nt)]]}
        cls = 'R5'
    case['variant'] = var
    return case, cls


# ------------------------------------------------------------------ oracle runs
def oracle_runs(ctx, quick):
    b = B()
    rng = ctx.rng
    run = b.run_oracle
    # R3/R7/R4: shared root histories
    for i in range(60 if quick else 1500):
        case = gen_history(rng, quick)
        r = run(ctx, 'shared RootSequence', case)
        ctx.branch('oracle:R3')
        ctx.branch('oracle:R7')
        if any(op['ncs'] >= op['D'] for op in case['ops']):
            ctx.branch('oracle:R4')
        if any(op['ncs'] == 0 and op['norm'] for op in case['ops']):
            ctx.branch('oracle:shared-root:shift0-normalised')
        if i < 1 and r is None:
            ctx.sample({'call': 'shared RootSequence', 'case': case})
    # R3/R4/R7 on estimator objects, R1/R2/R6 per call
    for i in range(40 if quick else 800):
        case = gen_est_history(rng, quick)
        run(ctx, 'estimator history', case)
        ctx.branch('oracle:R7')
        ctx.branch('oracle:R3')
        for c in case['calls']:
            if c.get('bad'):
                ctx.branch('oracle:R4')
            if c.get('layout') not in (None, 'C'):
                ctx.branch('oracle:R2')
            if c.get('ytype') not in (None, 'complex128') or c.get('ktype'):
                ctx.branch('oracle:R1')
            if c.get('scale', 1.0) != 1.0:
                ctx.branch('oracle:R6')
    # R1: typed scalars of the sequence constructors
    for _ in range(60 if quick else 1200):
        run(ctx, 'typed sequence arguments', gen_typed_sequence(rng))
        ctx.branch('oracle:R1')
    # R1/R2/R6 on the first-principles exactness scenarios
    for i in range(60 if quick else 1200):
        case = b.gen_estimator_case(rng, big=(i % 30 == 29))
        cls = typed_variant_of_estimator_case(rng, case)
        run(ctx, 'estimate_channel_freq_domain', case)
        ctx.branch('oracle:' + cls)
    # R5 boundaries
    for _ in range(40 if quick else 800):
        case, what = gen_boundary_estimator_case(rng)
        run(ctx, 'estimate_channel_freq_domain', case)
        ctx.branch('oracle:R5')
        ctx.branch('oracle:R5:' + what)
    for s in PRIME_SQUARES + POW2_PM1:
        if s > 1200:
            continue
        p = b.largest_prime_le(s)
        for u in (1, p - 1):
            run(ctx, 'RootSequence.seq_array', {'u': u, 'size': s, 'fast': s > 300}, key=('cazac-b', u, s))
        ctx.branch('oracle:R5')
    # get_extended_ZF: typed size, dtype, layout, branch boundaries size = n, n+1, 2n, 2n+1
    for _ in range(60 if quick else 600):
        n = rng.randint(1, 40)
        size = rng.choice([n, n + 1, 2 * n, 2 * n + 1, 3 * n, rng.randint(n, 5 * n)])
        var = {'stype': rng.choice(['int'] + [t for t in INT_TYPES if size <= np.iinfo(t).max]),
               'dtype': rng.choice(['int64', 'int16', 'uint8', 'int32', 'float32', 'complex64', 'complex128']),
               'layout': rng.choice(b.LAYOUTS)}
        run(ctx, 'get_extended_ZF(typed)', {'n': n, 'size': size, 'variant': var})
        ctx.branch('oracle:R1')
        ctx.branch('oracle:R2')
        ctx.branch('oracle:R5')
    # LS
    for _ in range(80 if quick else 1500):
        case, cls = gen_ls_variant(rng)
        run(ctx, 'compute_ls_estimation', case)
        ctx.branch('oracle:' + cls)


# ------------------------------------------------------------------ correspondence
def corr_cell(ctx, drv, n, quick):
    """histories on one shared root: statuses, the root afterwards, every user afterwards == the model's cell"""
    b = B()
    cases = [gen_history(ctx.rng, quick) for _ in range(n)]
    lines = []
    for c in cases:
        ops = ';'.join('%d:%d:%d:%s' % (op['D'], op['ncs'], op['norm'],
                                        'none' if op['cover'] is None else '_'.join(str(v) for v in op['cover']))
                       for op in c['ops'])
        lines.append('cell u=%d size=%s nzc=%s ops=%s' % (c['root']['u'], b.opt(c['root']['size']),
                                                           b.opt(c['root']['nzc']), ops))
    out = drv.ask(lines)
    for c, mo in zip(cases, out):
        rs = c['root']
        try:
            root = b.impl_root(rs['u'], rs['size'], rs['nzc'])
            users, sts = [], []
            for op in c['ops']:
                try:
                    users.append(b.make_ue(root, op))
                    sts.append('ok')
                except AssertionError as e:
                    sts.append(b.err_name(e))
        except Exception as e:
            ctx.corr('cell-history', c, b.err_name(e), mo)
            continue
        head, rest = mo.split(' root=')
        rootph, usersm = rest.split(' users=')
        ok = ctx.corr('cell-history.status', c, ','.join(sts), head)
        if any(st != 'ok' for st in sts):
            ctx.branch('corr:R4')
        if not ok:
            continue
        mv = b.phases_to_values(rootph.split(','))
        b.corr_close(ctx, 'cell-history.root-afterwards', c, np.asarray(root.seq_array()), mv,
                     b.seq_tol(rs['u'], root.Nzc))
        mus = usersm.split('#') if usersm else []
        if len(mus) != len(users):
            ctx.corr('cell-history.users', c, '%d users' % len(users), '%d users' % len(mus))
            continue
        good = True
        for ue, mu in zip(users, mus):
            flag, rows = mu.split(':', 1)
            arr = np.atleast_2d(np.asarray(ue.seq_array()))
            mrows = b.parse_crows(rows)
            scale = max(float(np.max(np.abs(mrows))), 1e-300)
            if (flag == 'n1') != bool(ue.normalized) or b.max_diff(arr, mrows) > b.seq_tol(rs['u'], arr.shape[1]) * scale:
                good = False
        ctx.corr('cell-history.users-afterwards', c, 'equal' if good else 'differ', 'equal')
        ctx.branch('corr:R3')
        ctx.branch('corr:R7')


def y_line(y):
    b = B()
    y = np.asarray(y).astype(np.complex128)
    if y.ndim == 1:
        return b.clist(y)
    if y.ndim == 2:
        return '|'.join(b.clist(r) for r in y)
    return '#'.join('|'.join(b.clist(r) for r in blk) for blk in y)


def corr_variants(ctx, drv, n):
    """one estimator object, several calls with typed / re-laid-out / scaled / degenerate observations; the
    model gets the LOGICAL values (complex128 twin, Python ints)"""
    b = B()
    rng = ctx.rng
    lines, todo = [], []
    for _ in range(n):
        case = gen_est_history(rng)
        spec = case['ue']
        try:
            est, ue = make_estimator(case)
        except Exception as e:
            ctx.corr('estimator-construction', spec, b.err_name(e), 'ok')
            continue
        size = ue.size
        occ = spec['cover'] is not None
        m = 1 if occ else case['m']
        for call in case['calls']:
            if call.get('bad') in ('ndim', 'ndim0') or call.get('zero_antennas'):
                continue
            if rng.chance(0.1) and not occ:
                call.update({'nr': 'zero'})             # zero receive antennas: (0, N) observation
            yv, twin, kw = call_input(case, dict(call, nr=0 if call['nr'] == 'zero' else call['nr']), size)
            if call['nr'] == 'zero':
                yv = np.zeros((0, size), dtype=complex)
                twin = yv.copy()
            kk = b.tint(int(call['K']), call.get('ktype'))
            dim = twin.ndim
            if occ:
                lines.append('occ %s K=%d dim=%d extra=%d Y=%s' % (b.ue_tokens(spec), call['K'], dim,
                                                                    1 if kw['extra_dimension'] else 0, y_line(twin)))
            else:
                lines.append('est %s m=%d K=%d dim=%d Y=%s' % (b.ue_tokens(spec), m, call['K'], dim, y_line(twin)))
            todo.append((est, spec, call, yv, kk, kw))
    out = []
    for i in range(0, len(lines), 60):
        out += drv.ask(lines[i:i + 60])
    for (est, spec, call, yv, kk, kw), mo in zip(todo, out):
        case = {'ue': spec, 'call': {k: v for k, v in call.items()}}
        name = 'estimate_channel_freq_domain:variant'
        for cls, on in (('R1', call.get('ytype') not in (None, 'complex128') or bool(call.get('ktype'))),
                        ('R2', call.get('layout') not in (None, 'C') or call['nr'] in ('zero', 1)),
                        ('R4', bool(call.get('bad'))), ('R6', call.get('scale', 1.0) != 1.0),
                        ('R5', call['K'] in (0,) or call['K'] >= yv.shape[-1])):
            if on:
                ctx.branch('corr:' + cls)
        try:
            res = np.asarray(est.estimate_channel_freq_domain(yv, kk, **kw))
        except Exception as e:
            ctx.corr(name, case, b.err_name(e), mo)
            continue
        if mo.startswith('error:'):
            ctx.corr(name, case, 'value', mo)
            continue
        if res.size == 0:
            ctx.corr(name, case, 'empty%s' % (res.shape[0],), 'empty%d' % (0 if mo == '' else -1))
            continue
        mv = b.parse_clist(mo) if res.ndim == 1 else b.parse_crows(mo)
        ok, d, mag = rel_close(res, mv, 1e-9 + 64 * b.seq_tol(spec['u'], res.shape[-1]))
        ctx.corr(name, case, 'close' if ok else 'maxdiff=%.3e magnitude=%.3e' % (d, mag), 'close')


def frac(x):
    f = Fraction(float(x))
    return '%d/%d' % (f.numerator, f.denominator)


def corr_ls_variants(ctx, drv, n):
    b = B()
    est = b._impl()[5]
    lines, todo = [], []
    for _ in range(n):
        case, cls = gen_ls_variant(ctx.rng)
        hs, ss, var = b.ls_arrays(case)
        real = b.ls_is_real(var)
        h = hs[0].real + 0j if real else hs[0]
        s_ = ss[0].real + 0j if real else ss[0]
        y = h @ s_
        # logical values after the cast the variant performs (float32/complex64 round the scaled values)
        ya, sa = b.ls_cast(y, var, 'y'), b.ls_cast(s_, var, 's')
        yl, sl = np.asarray(ya).astype(complex), np.asarray(sa).astype(complex)
        lines.append('ls nr=%d nt=%d np=%d Y=%s S=%s' % (
            yl.shape[0], sl.shape[0], sl.shape[1],
            '|'.join(','.join(frac(z.real) + ':' + frac(z.imag) for z in row) for row in yl),
            '|'.join(','.join(frac(z.real) + ':' + frac(z.imag) for z in row) for row in sl)))
        todo.append((case, cls, ya, sa))
    out = drv.ask(lines)
    for (case, cls, ya, sa), mo in zip(todo, out):
        ctx.branch('corr:' + cls)
        try:
            res = np.asarray(est.compute_ls_estimation(ya, sa))
        except Exception as e:
            ctx.corr('compute_ls_estimation:variant', case, b.err_name(e), mo[:40])
            continue
        if not mo.startswith('inv-ok '):
            ctx.corr('compute_ls_estimation:variant', case, 'regular', mo[:40])
            continue
        rows = mo[len('inv-ok '):].split('|')
        mv = np.array([[complex(Fraction(t.split(':')[0]), Fraction(t.split(':')[1])) for t in r.split(',')]
                       for r in rows])
        narrow = b.ls_is_narrow(case.get('variant') or {})
        ok, d, mag = rel_close(res, mv, 2e-2 if narrow else 1e-8)
        ctx.corr('compute_ls_estimation:variant', case, 'close' if ok else 'maxdiff=%.3e magnitude=%.3e dtype=%s' % (
            d, mag, res.dtype), 'close')


def var_dtype(case):
    return (case.get('variant') or {}).get('dtype') or 'complex128'


def corr_typed_sequences(ctx, drv, n):
    b = B()
    cases = [gen_typed_sequence(ctx.rng)['ue'] for _ in range(n)]
    out = drv.ask(['ue ' + b.ue_tokens(s) for s in cases])
    for spec, mo in zip(cases, out):
        ctx.branch('corr:R1')
        try:
            arr = np.atleast_2d(np.asarray(b.impl_ue(spec).seq_array()))
        except Exception as e:
            ctx.corr('UeSequence.__init__:typed', spec, b.err_name(e), mo[:40])
            continue
        if mo.startswith('error:'):
            ctx.corr('UeSequence.__init__:typed', spec, 'value', mo)
            continue
        mrows = b.parse_crows(mo)
        scale = max(float(np.max(np.abs(mrows))), 1e-300)
        b.corr_close(ctx, 'UeSequence.__init__:typed', spec, arr, mrows, b.seq_tol(spec['u'], arr.shape[1]) * scale)


def correspondence(ctx, drv, quick):
    corr_cell(ctx, drv, 50 if quick else 1000, quick)
    corr_variants(ctx, drv, 25 if quick else 400)
    corr_ls_variants(ctx, drv, 60 if quick else 1000)
    corr_typed_sequences(ctx, drv, 50 if quick else 800)
    # R5 boundary sizes through the root correspondence (prime squares, powers of two +-1)
    b = B()
    cases = [(u, s, None) for s in PRIME_SQUARES + POW2_PM1 if s <= 1200
             for u in (1, b.largest_prime_le(s) - 1)]
    out = drv.ask(['root u=%d size=%s nzc=%s' % (u, b.opt(s), b.opt(z)) for u, s, z in cases])
    for (u, s, z), mo in zip(cases, out):
        r = b.impl_root(u, s, z)
        head = mo.split(' ph=')[0]
        if ctx.corr('RootSequence.__init__:boundary', {'u': u, 'size': s},
                    'nzc=%d size=%d ext=%d' % (r.Nzc, r.size, 0 if r._extended_seq_array is None else 1), head):
            b.corr_close(ctx, 'RootSequence.seq_array:boundary', {'u': u, 'size': s}, np.asarray(r.seq_array()),
                         b.phases_to_values(mo.split(' ph=')[1].split(',')), b.seq_tol(u, r.Nzc))
        ctx.branch('corr:R5')


REQUIRED = ['corr:R%d' % k for k in range(1, 8)] + ['oracle:R%d' % k for k in range(1, 8)] + [
    'oracle:shared-root:shift0-normalised']


def search(ctx):
    rng = ctx.rng
    b = B()
    for _ in range(600):
        b.run_oracle(ctx, 'shared RootSequence', gen_history(rng, True))
    for _ in range(300):
        b.run_oracle(ctx, 'estimator history', gen_est_history(rng, True))
    for _ in range(300):
        b.run_oracle(ctx, 'typed sequence arguments', gen_typed_sequence(rng))
    for _ in range(300):
        case = b.gen_estimator_case(rng)
        typed_variant_of_estimator_case(rng, case)
        b.run_oracle(ctx, 'estimate_channel_freq_domain', case)
    for _ in range(300):
        b.run_oracle(ctx, 'compute_ls_estimation', gen_ls_variant(rng)[0])
