"""C03 — robustness classes R15 (distinct values that are merely close) and R16 (argument identity and
buffer reuse): generators of scenarios for the history correspondence / history oracle of c03.py, two more
exact correspondences (constructor sampling intervals, discretisation of close / tiny values) and two
first-principles oracles on the untouched code.

R15.  C03's code compares / de-duplicates / branches on a value in four places: the sampling intervals given to
`TdlChannel.__init__` (`!=`), `np.unique(np.round(delay / Ts))` + power merging of the discretisation, the path
loss setters (`SuChannel.set_pathloss`, `MuChannel.set_pathloss`: range guard, stored value, factor on output
and reported response) and `sqrt(tap power)` in `generate_impulse_response`.  Values used: magnitudes 1e-9 … 1e-15
(all "equal" to 0 and to each other under `np.isclose`), values that differ by a relative 1e-6 … 1e-9, adjacent
binary64 values.  All comparisons are relative to the value itself.

R16.  Every public entry point that takes an array / list: `corrupt_data(signal)`,
`corrupt_data_in_freq_domain(signal, fft_size, carrier_indexes)` of TdlChannel / SuChannel / MuChannel /
MuMimoChannel, `MuChannel.set_pathloss(matrix)`, `TdlChannelProfile(powers, delays)`, the channel constructors
with tap arrays, `TdlImpulseResponse.concatenate_samples(list)`.
"""
import copy
from fractions import Fraction

import numpy as np

from harness import core


def B():
    from harness.props import c03
    return c03


# exact square roots of path losses: one family per binade, so that every sum stays exact in binary64
PL_TINY = ['1/1048576', '1/2097152', '3/4194304', '1/1048576', '1/4194304']          # p = 9e-13, 2e-13, 5e-13, 6e-14
PL_NEAR = ['1/2', '1048577/2097152', '1', '2097151/2097152', '1048575/2097152', '1/2']   # p differs by ~1e-6 relative
AMPS_TINY = ['1', '1/1048576', '1/33554432', '1/32768']                               # powers 1, 9e-13, 9e-16, 9e-10


def close_p(a, b):
    """what `np.isclose` / `np.allclose` (default tolerances) would call equal"""
    return a is not None and b is not None and a != b and bool(np.allclose(np.asarray(a, float), np.asarray(b, float)))


def _sq(s):
    return None if s is None else float(Fraction(s) ** 2)


def _mark_close(case):
    """flag the `pl` operations whose value is close to, but different from, the one in force"""
    mu = case['level'] == 'mu'
    cur = None
    for op in case['ops']:
        if op['op'] != 'pl':
            continue
        new = None if op.get('s') is None else ([[ _sq(v) for v in r] for r in op['s']] if mu else _sq(op['s']))
        if close_p(cur, new):
            op['close'] = True
        cur = new


def _tx(rng, case, sw, n, real, lim=4):
    b = B()
    mu = case['level'] == 'mu'
    ant = case['ant']
    rows = 1 if ant is None else (ant[0] if sw else ant[1])
    nsrc = (case['nrx'] if sw else case['ntx']) if mu else 1
    xs = [b.gen_signal(rng, rows, n, lim=lim, real=real) for _ in range(nsrc)]
    return xs if mu else xs[0]


def gen_close_case(rng, level, quick=True):
    """R15 history for the exact correspondence: consecutive path losses that are close but different (tiny ones,
    or differing by a relative 1e-6), each followed by a transmission and a read of the reported response; or a
    profile whose taps differ in power by up to 150 dB"""
    b = B()
    case = b.gen_case(rng, level, quick)
    mu = level == 'mu'
    case['ctor'] = 'profile'
    case['delays'] = b.gen_delays(rng, 5)[:3]
    fam = rng.choice(['tiny', 'near', 'amps']) if level != 'tdl' else 'amps'
    if fam == 'amps':
        case['amps'] = [rng.choice(AMPS_TINY) for _ in case['delays']]
        case['amps'][rng.below(len(case['amps']))] = '1'
        pls = ['1', '1/2', '1/1048576', '1/4']
    else:
        case['amps'] = [rng.choice(['1', '2', '1/2', '3/2']) for _ in case['delays']]
        pls = PL_TINY if fam == 'tiny' else PL_NEAR
    ops = []
    sw = False
    j0 = rng.below(len(pls))
    for j in range(rng.randint(2, 4)):
        if rng.chance(0.2):
            sw = not sw
            ops.append({'op': 'sw', 'v': sw})
        if level != 'tdl':
            if mu:
                m = [[pls[(j0 + j + r + 2 * t) % len(pls)] for t in range(case['ntx'])] for r in range(case['nrx'])]
                ops.append({'op': 'pl', 's': m, 'kw': rng.chance(0.3)})
            else:
                ops.append({'op': 'pl', 's': pls[(j0 + j) % len(pls)], 'kw': rng.chance(0.3)})
        real = rng.chance(0.3)
        if rng.chance(0.5):
            op = {'op': 'tx', 'x': _tx(rng, case, sw, rng.randint(1, 6), real)}
        else:
            fft = rng.randint(1, 8)
            sel, Bs = b.gen_sel(rng, fft)
            while not Bs:
                sel, Bs = b.gen_sel(rng, fft)
            op = {'op': 'fx', 'fft': fft, 'sel': sel, 'x': _tx(rng, case, sw, Bs * rng.randint(1, 2), real)}
        op.update({'siso': case['ant'] is None, 'as1d': rng.chance(0.5), 'expect': 'ok',
                   'scale': rng.choice([0, 0, -40, 40])})
        ops += [op, {'op': 'ir'}]
    case['ops'] = ops
    _mark_close(case)
    return case


def gen_reuse_case(rng, level, quick=True):
    """R16 history: 2-4 transmissions of ONE geometry whose signal (array, or list of arrays) is the caller's
    one buffer refilled in place, likewise the carrier index array / list and the path-loss matrix; arguments
    overwritten right after the call; one array object in two roles"""
    b = B()
    case = b.gen_case(rng, level, quick)
    mu = level == 'mu'
    if case['ant'] is not None and rng.chance(0.5):
        case['ant'] = [case['ant'][0], case['ant'][0]]          # same number of rows in both directions
    ant = case['ant']
    case['prof_scribble'] = rng.chance(0.5)
    fft = rng.randint(2, 12)
    Bs = fft if rng.chance(0.2) else rng.randint(1, min(fft, 5))
    nb = rng.randint(1, 2)
    n = Bs * nb
    real = rng.chance(0.4)
    dtype = rng.choice(['complex128', 'complex128', 'complex64'] + (['float64', 'int64', 'int16'] if real else []))
    layout = rng.choice(['c', 'c', 'f', 'strided', 'rev'])
    scale = 0 if dtype.startswith('int') else rng.choice([0, 0, 20, -20])
    hetero = mu and rng.chance(0.3)
    as1d = rng.chance(0.5)
    idx_as_array = rng.chance(0.7)
    idx_layout = rng.choice(['c', 'strided'])
    plform = {'pllayout': rng.choice(['c', 'f', 'strided']), 'kw': rng.chance(0.3)}
    alias_ok = (not mu and ant is None and nb == 1)
    share_ok = mu
    ops, sw = [], False
    for j in range(rng.randint(2, 4)):
        if j and rng.chance(0.2):
            sw = not sw
            ops.append({'op': 'sw', 'v': sw})
        if level != 'tdl' and rng.chance(0.5):
            if mu:
                m = [[rng.choice(b.PLS) for _ in range(case['ntx'])] for _ in range(case['nrx'])]
                ops.append(dict(plform, op='pl', s=m, buf=True, scribble=rng.chance(0.5)))
            else:
                ops.append({'op': 'pl', 's': rng.choice(b.PLS)})
        kind = rng.choice(['tx', 'fx', 'fx'])
        op = {'op': kind, 'x': _tx(rng, case, sw, n, real), 'siso': ant is None, 'as1d': as1d, 'expect': 'ok',
              'dtype': dtype, 'layout': layout, 'scale': scale, 'real': real, 'buf': True,
              'scribble': rng.chance(0.5), 'kw': rng.chance(0.3)}
        if hetero and kind == 'fx':
            op['hetero'], op['hetero_rot'] = True, 1
            for row in op['x'][0]:
                for e in row:
                    e[1] = 0
        if kind == 'fx':
            if Bs == fft and rng.chance(0.5):
                sel = {'kind': 'all'}
            else:
                sel = {'kind': 'idx', 'idx': [rng.randint(-fft, fft - 1) for _ in range(Bs)], 'as_array': idx_as_array,
                       'dtype': 'int64' if idx_as_array else 'list', 'layout': idx_layout}
                op['idxbuf'] = True
            op.update({'fft': fft, 'sel': sel})
            if alias_ok and sel['kind'] == 'idx' and rng.chance(0.35):
                # the symbols sent ARE the carrier numbers: one int64 array for both parameters
                sel.update({'as_array': True, 'dtype': 'int64', 'layout': 'c'})
                op.update({'x': [[[i, 0] for i in sel['idx']]], 'dtype': 'int64', 'layout': 'c', 'scale': 0,
                           'real': True, 'alias': 'signal-is-index-array', 'buf': False, 'idxbuf': False})
        if share_ok and not op.get('hetero') and rng.chance(0.3):
            op['x'] = [copy.deepcopy(op['x'][0]) for _ in op['x']]
            op['alias'] = 'sources-share-array'
            op['as1d'] = False
        ops += [op, {'op': 'ir'}]
    case['ops'] = ops
    return case


def fixed_cases():
    """deterministic R15 / R16 scenarios, run by every quick check (correspondence and, on the untouched
    generators, history oracle): one per object kind x domain x class"""
    b = B()
    out = []
    base = {'seed': 11, 'jakes': True, 'ant': None, 'delays': [0, 2, 3], 'amps': ['1', '2', '1/2'], 'Ts': 1e-3,
            'link': 5, 'late_ant': False}
    r = core.Rng(61, 'c03r1516')
    x6 = b.gen_signal(r, 1, 6)
    x6b = b.gen_signal(r, 1, 6)
    x6c = b.gen_signal(r, 1, 6)
    x6d = b.gen_signal(r, 1, 6)
    x6e = b.gen_signal(r, 1, 6)
    i3a, i3b = [0, 5, 2], [7, -1, 3]
    # ---- R15, SuChannel: tiny path losses one after the other; then losses that differ by 1e-6
    for pls in (PL_TINY[:4], PL_NEAR[:5]):
        for ant, jakes in ((None, True), ([2, 2], False)):
            x = x6 if ant is None else b.gen_signal(r, 2, 6)
            ops = []
            for j, s in enumerate(pls):
                ops.append({'op': 'pl', 's': s})
                ops.append({'op': 'tx', 'x': x, 'siso': ant is None} if j % 2 == 0 else
                           {'op': 'fx', 'fft': 8, 'sel': {'kind': 'idx', 'idx': i3a}, 'x': x, 'siso': ant is None})
                ops.append({'op': 'ir'})
            out.append(dict(base, level='su', ant=ant, jakes=jakes, ops=ops))
    # ---- R15, MuChannel: matrices that np.allclose calls equal
    for fam in (PL_TINY, PL_NEAR):
        ops = []
        for j in range(3):
            ops += [{'op': 'pl', 's': [[fam[(j + a + 2 * t) % len(fam)] for t in range(2)] for a in range(2)]},
                    {'op': 'tx', 'x': [x6, x6b]} if j != 1 else
                    {'op': 'fx', 'fft': 6, 'sel': {'kind': 'all'}, 'x': [x6, x6b]}, {'op': 'ir'}]
        out.append(dict(base, level='mu', nrx=2, ntx=2, ops=ops))
    # ---- R15, tap powers 1 / 9e-13 / 9e-16 in one profile, all levels
    for level in ('tdl', 'su', 'mu'):
        c = dict(base, level=level, amps=['1', '1/1048576', '1/33554432'], jakes=level != 'su')
        xs = [x6, x6b] if level == 'mu' else x6
        c['ops'] = [{'op': 'tx', 'x': xs}, {'op': 'ir'},
                    {'op': 'fx', 'fft': 6, 'sel': {'kind': 'slice', 'slice': [0, 6, 2]}, 'x': xs}, {'op': 'ir'}]
        if level == 'mu':
            c.update(nrx=1, ntx=2)
        out.append(c)
    # ---- R16: one signal buffer (and one index buffer) refilled in place, every object kind, both domains
    for level in ('tdl', 'su', 'mu'):
        for ant in (None, [2, 2]):
            def sig(k):
                rr = core.Rng(70 + k, 'c03r16sig')
                rows = 1 if ant is None else 2
                xs = [b.gen_signal(rr, rows, 6) for _ in range(2 if level == 'mu' else 1)]
                return xs if level == 'mu' else xs[0]
            deco = {'siso': ant is None, 'buf': True}
            ops = []
            for k, (kind, idx) in enumerate((('tx', None), ('tx', None), ('fx', i3a), ('fx', i3b), ('tx', None))):
                op = dict(deco, op=kind, x=sig(k), scribble=k in (1, 3))
                if kind == 'fx':
                    op.update({'fft': 8, 'idxbuf': True,
                               'sel': {'kind': 'idx', 'idx': idx, 'as_array': level != 'su', 'dtype':
                                       'int64' if level != 'su' else 'list'}})
                ops += [op, {'op': 'ir'}]
                if level == 'mu' and k in (0, 2):
                    ops.append({'op': 'pl', 's': [['1/2', '1'], ['1/4', '1/2']] if k == 0 else [['1', '1/4'], ['1/2', '0']],
                                'buf': True, 'scribble': True})
                if level == 'su' and k == 1:
                    ops.append({'op': 'pl', 's': '1/4'})
            c = dict(base, level=level, ant=ant, jakes=ant is None, ops=ops, prof_scribble=True)
            if level == 'mu':
                c.update(nrx=2, ntx=2)
            out.append(c)
    # ---- R16: a LIST of per-transmitter arrays kept and refilled; one array object for both transmitters
    c = dict(base, level='mu', nrx=2, ntx=2, jakes=False, ops=[
        {'op': 'fx', 'fft': 6, 'sel': {'kind': 'all'}, 'x': [x6, x6b], 'hetero': True, 'hetero_rot': 0, 'buf': True},
        {'op': 'ir'},
        {'op': 'fx', 'fft': 6, 'sel': {'kind': 'all'}, 'x': [x6c, x6], 'hetero': True, 'hetero_rot': 0, 'buf': True,
         'scribble': True}, {'op': 'ir'},
        {'op': 'tx', 'x': [x6d, copy.deepcopy(x6d)], 'alias': 'sources-share-array'}, {'op': 'ir'},
        {'op': 'fx', 'fft': 6, 'sel': {'kind': 'all'}, 'x': [x6e, copy.deepcopy(x6e)], 'alias': 'sources-share-array',
         'scribble': True}, {'op': 'ir'}])
    c = copy.deepcopy(c)
    for op in c['ops'][:3:2]:
        for e in op['x'][0][0]:
            e[1] = 0
    out.append(c)
    # ---- R16: one int64 array is the signal AND the carrier index array
    for level in ('tdl', 'su'):
        ops = []
        for idx in ([0, 5, 2], [3, 3, 7], [1, 0, 6]):
            ops += [{'op': 'fx', 'fft': 8, 'sel': {'kind': 'idx', 'idx': idx, 'as_array': True, 'dtype': 'int64'},
                     'x': [[[i, 0] for i in idx]], 'dtype': 'int64', 'real': True, 'alias': 'signal-is-index-array',
                     'scribble': idx[0] == 3}, {'op': 'ir'}]
        out.append(dict(base, level=level, ops=ops))
    for c in out:
        _mark_close(c)
    return out


# --------------------------------------------------------------------------- oracles (first principles, real code)
def rel_eq(a, b, rtol):
    """strictly relative, elementwise: |a - b| <= rtol * |b| (no floor: 1e-15 is not 0)"""
    a = np.asarray(a, dtype=complex)
    b = np.asarray(b, dtype=complex)
    if a.shape != b.shape or not np.all(np.isfinite(a)):
        return False
    return bool(np.all(np.abs(a - b) <= rtol * np.abs(b)))


def _magnitude_class(p):
    if p is None:
        return 'none'
    p = float(p)
    if p < 0 or p > 1:
        return 'outside'
    if p == 0:
        return 'zero'
    return 'below-1e-8' if p < 1e-8 else ('within-1e-5-of-1' if p > 1 - 1e-5 else 'ordinary')


def _links(case):
    return [(r, t) for r in range(case['nrx']) for t in range(case['ntx'])] if case['level'] == 'mu' else [(0, 0)]


def _transmit(ch, case, st):
    b = B()
    mu = case['level'] == 'mu'
    mimo = case['ant'] is not None
    xs = [b.x2np(x) for x in (st['x'] if mu else [st['x']])]
    if not mimo:
        xs = [x.reshape(-1) for x in xs]
    sig = np.array(xs) if mu else xs[0]
    if st['op'] == 'tx':
        y = ch.corrupt_data(sig)
    else:
        y = ch.corrupt_data_in_freq_domain(sig, st['fft'], b.sel2py(st['sel']))
    irs = {}
    for r, t in _links(case):
        ir = ch.get_last_impulse_response(r, t) if mu else ch.get_last_impulse_response()
        irs[(r, t)] = np.array(ir.tap_values, copy=True)
    ys = [np.array(v, copy=True) for v in (list(y) if mu else [y])]
    return xs, ys, irs


def o_close_pathloss(case):
    """R15: ONE channel object whose path loss is set to a sequence of values that are close to each other (or
    to 0 / 1) but different, a transmission after each; a twin object with the same seeds and NO path loss gives the
    unscaled responses / outputs.  Every reported response must be sqrt(p) x the twin's (relative 1e-12), every
    output the sum over the links of sqrt(p) x first-principles output of the twin's response; a value outside
    [0, 1] - by however little - is refused and leaves the value in force."""
    b = B()
    mu = case['level'] == 'mu'
    mimo = case['ant'] is not None
    sw = bool(case.get('sw'))

    def run(with_pl):
        ch = b._real_channel(case)
        if sw:
            ch.switched_direction = True
        out = []
        for st in case['steps']:
            rejected = None
            if with_pl and 'p' in st:
                try:
                    ch.set_pathloss(None if st['p'] is None else (np.array(st['p'], dtype=float) if mu else st['p']))
                    rejected = False
                except ValueError:
                    rejected = True
            out.append((rejected,) + _transmit(ch, case, st))
        return out
    try:
        A = run(True)
    except Exception as e:      # noqa
        return 'R15:pathloss:exception', '%s: %r' % (type(e).__name__, e)
    T = run(False)
    cur = None
    for j, (st, a, t) in enumerate(zip(case['steps'], A, T)):
        if 'p' in st:
            p = st['p']
            flat = [] if p is None else [float(v) for v in np.asarray(p, dtype=float).reshape(-1)]
            bad = any(v < 0 or v > 1 for v in flat)
            cls = 'none' if p is None else sorted(set(_magnitude_class(v) for v in flat))[0] if not bad else 'outside'
            if bad != a[0]:
                return ('R15:pathloss-guard:%s:%s' % ('accepted' if bad else 'refused', 'mu' if mu else 'su'),
                        'step %d: set_pathloss(%r) was %s' % (j, p, 'accepted' if bad else 'refused'))
            if not bad:
                cur = p
        xs, ya, ira = a[1:]
        _, yt, irt = t[1:]

        def s_of(r, tt):
            if cur is None:
                return 1.0
            return float(np.sqrt(float(np.asarray(cur, dtype=float)[r, tt] if mu else cur)))
        pcls = 'none' if cur is None else ':'.join(sorted(set(_magnitude_class(v) for v in
                                                             np.asarray(cur, dtype=float).reshape(-1))))
        for (r, tt) in _links(case):
            if not rel_eq(ira[(r, tt)], s_of(r, tt) * irt[(r, tt)], 1e-12):
                return ('R15:pathloss:reported-response:%s:%s' % ('mu' if mu else 'su', pcls),
                        'step %d link (%d, %d): path loss in force %r; the reported response is not sqrt(p) x the '
                        'response of the twin without path loss (max ratio deviation %g)'
                        % (j, r, tt, cur, float(np.max(np.abs(ira[(r, tt)] - s_of(r, tt) * irt[(r, tt)])
                                                         / np.maximum(np.abs(s_of(r, tt) * irt[(r, tt)]), 1e-300)))))
        if not mu:
            if not rel_eq(ya[0], s_of(0, 0) * yt[0], 1e-12):
                return ('R15:pathloss:output:su:' + pcls, 'step %d: path loss in force %r; output is not sqrt(p) x the '
                        'output of the twin without path loss' % (j, cur))
            continue
        nrx, ntx = case['nrx'], case['ntx']
        for jd in range(ntx if sw else nrx):
            acc, ref = None, 0.0
            for a_ in range(nrx if sw else ntx):
                r, tt = (a_, jd) if sw else (jd, a_)
                dense = irt[(r, tt)]
                e = (b.conv_expected(dense, xs[a_], sw, mimo) if st['op'] == 'tx'
                     else b.freq_expected(dense, xs[a_], st['fft'], st['sel'], sw, mimo))
                acc = s_of(r, tt) * e if acc is None else acc + s_of(r, tt) * e
                ref += s_of(r, tt) * float(np.max(np.abs(dense))) * float(np.max(np.abs(xs[a_]))) * dense.shape[0] * 4
            if not b.close_rel(ya[jd], acc, ref):
                return ('R15:pathloss:output:mu:' + pcls, 'step %d destination %d: output is not the sum over the '
                        'sources of sqrt(p) x (twin response applied to the signal)' % (j, jd))
    return None


def o_close_tap_powers(case):
    """R15: a profile whose tap powers span up to 150 dB.  A twin channel with the same seeds, the same delays and
    EQUAL tap powers gives the fading samples; tap i of the reported response must be sqrt(L * p_i) x the twin's
    tap i, p_i = 10^(dB_i/10) / sum - relative to the tap itself, so a tap at 1e-15 counts like any other."""
    b = B()
    L = len(case['powers_dB'])
    lin = [10.0 ** (v / 10.0) for v in case['powers_dB']]
    p = [v / sum(lin) for v in lin]
    twin = dict(case, powers_dB=[0.0] * L)
    try:
        res = []
        for c in (case, twin):
            ch = b._real_channel(c)
            xs, ys, irs = _transmit(ch, c, case['tx'])
            prof = ch.channel_profile
            res.append((ys, irs, np.array(prof.tap_powers_linear, copy=True), np.array(prof.tap_delays, copy=True),
                        np.array(ch.get_last_impulse_response(0, 0).tap_values_sparse if c['level'] == 'mu'
                                 else ch.get_last_impulse_response().tap_values_sparse, copy=True)))
    except Exception as e:      # noqa
        return 'R15:tap-powers:exception', '%s: %r' % (type(e).__name__, e)
    (ya, ira, pa, da, sa), (yt, irt, pt, dt, stw) = res
    span = 'span>=1e8' if max(p) / min(p) >= 1e8 else 'span<1e8'
    if len(pa) != L or not np.array_equal(da, dt):
        return 'R15:tap-powers:taps-lost:' + span, 'profile has %d taps at %s, expected %d at %s' % (len(pa), list(da), L, list(dt))
    for i in range(L):
        if not rel_eq(pa[i], p[i], 1e-10):
            return ('R15:tap-powers:profile-power:' + span,
                    'tap %d: normalised power %r, first principles %r' % (i, float(pa[i]), p[i]))
        if not rel_eq(sa[i], np.sqrt(L * p[i]) * stw[i], 1e-10):
            return ('R15:tap-powers:reported-response:' + span,
                    'tap %d (power %g of the total): reported tap is not sqrt(L p_i) x the tap of the equal-power twin'
                    % (i, p[i]))
    return None


def _exp_disc(ds, ps, Ts):
    idx = [round(d / Ts) for d in ds]
    u = sorted(set(idx))
    tot = sum(ps)
    return u, [sum(pw for pw, i in zip(ps, idx) if i == j) / tot for j in u]


def o_close_discretize(case):
    """R15: ONE parent profile discretised with a sequence of sampling intervals that are close to each other
    (tiny ones; ones differing by 1e-6; forwards and backwards): every result is the first-principles result for
    THAT interval (delays exact, every power relative to itself) and carries exactly that interval"""
    b = B()
    from pyphysim.channels import fading
    from pyphysim.util.conversion import linear2dB
    ds = [Fraction(d) for d in case['delays']]
    ps = [Fraction(p) for p in case['powers']]
    tss = [Fraction(t) for t in case['Ts_list']]
    try:
        parent = fading.TdlChannelProfile(linear2dB(np.array([float(p) for p in ps])), np.array([float(d) for d in ds]))
        got = [parent.get_discretize_profile(float(t)) for t in tss + tss[::-1]]
    except Exception as e:      # noqa
        return 'R15:discretize:exception', '%s: %r' % (type(e).__name__, e)
    dyn = 'powers-span>=1e8' if max(ps) / min(ps) >= 10 ** 8 else 'powers-span<1e8'
    for t, dp in zip(tss + tss[::-1], got):
        u, pw = _exp_disc(ds, ps, t)
        if dp.Ts != float(t):
            return 'R15:discretize:Ts-attribute', 'asked for Ts = %r, the profile says %r' % (float(t), dp.Ts)
        if [int(v) for v in dp.tap_delays] != u:
            return ('R15:discretize:delays:close-Ts-sequence', 'Ts = %r: delays %s, first principles %s'
                    % (float(t), [int(v) for v in dp.tap_delays], u))
        gp = list(dp.tap_powers_linear)
        if len(gp) != len(pw) or not all(rel_eq(g, float(e), 1e-10) for g, e in zip(gp, pw)):
            return ('R15:discretize:powers:' + dyn, 'Ts = %r: powers %s, first principles %s'
                    % (float(t), gp, [float(e) for e in pw]))
    return None


def o_close_ctor(case):
    """R15: the sampling intervals handed to a channel constructor (Jakes generator's, an already discretised
    profile's, the Ts argument).  Equal: the channel is built and works with that interval.  Different by a
    relative 1e-6 or more (incl. 1e-9 vs 2e-9): RuntimeError, as documented in the source."""
    from pyphysim.channels import fading, fading_generators as fg, singleuser, multiuser
    g, pT, a = case['gen_Ts'], case['prof_Ts'], case['arg_Ts']
    given = [v for v in (g, pT, a) if v is not None]
    agree = all(v == given[0] for v in given)
    T = given[0] if given else 1.0
    delays = np.array(case['delays_s'], dtype=float)
    try:
        gen = fg.JakesSampleGenerator(Ts=g, RS=np.random.RandomState(1)) if g is not None else fg.RayleighSampleGenerator()
        prof = fading.TdlChannelProfile(np.array(case['powers_dB'], dtype=float), delays)
        if pT is not None:
            prof = prof.get_discretize_profile(pT)
        kw = {'channel_profile': prof, 'Ts': a}
        try:
            if case['level'] == 'tdl':
                ch = fading.TdlChannel(gen, **kw)
            elif case['level'] == 'su':
                ch = singleuser.SuChannel(gen, **kw)
            else:
                ch = multiuser.MuChannel(2, gen, **kw)
            built = True
        except RuntimeError:
            built = False
    except Exception as e:      # noqa
        return 'R15:ctor-Ts:exception', '%s: %r' % (type(e).__name__, e)
    which = '+'.join(n for n, v in (('jakes', g), ('profile', pT), ('argument', a)) if v is not None) or 'none'
    if built != agree:
        return ('R15:ctor-Ts:%s:%s' % ('different-intervals-accepted' if built else 'equal-intervals-refused', which),
                'generator Ts %r, profile Ts %r, argument %r' % (g, pT, a))
    if built:
        want = sorted(set(round(Fraction(float(d)) / Fraction(T)) for d in delays))
        if ch.channel_profile.Ts != T or [int(v) for v in ch.channel_profile.tap_delays] != want:
            return ('R15:ctor-Ts:wrong-interval-used:' + which, 'works with Ts %r / delays %s, expected %r / %s'
                    % (ch.channel_profile.Ts, list(ch.channel_profile.tap_delays), T, want))
    return None


def o_close(case):
    return {'pathloss': o_close_pathloss, 'tap-powers': o_close_tap_powers, 'discretize': o_close_discretize,
            'ctor-Ts': o_close_ctor}[case['kind']](case)


def _prof_state(prof):
    return (np.array(prof.tap_delays, copy=True), np.array(prof.tap_powers_dB, copy=True),
            np.array(prof.tap_powers_linear, copy=True), prof.Ts, prof.num_taps, prof.mean_excess_delay,
            prof.rms_delay_spread)


def _same_state(a, b):
    return all(np.array_equal(x, y) if isinstance(x, np.ndarray) else x == y for x, y in zip(a, b))


def o_identity_profile(case):
    """R16 on the constructors that take tap arrays: the caller's two arrays are ONE pair of buffers refilled for
    a second profile / channel, overwritten afterwards, or one array object is both `tap_powers_dB` and
    `tap_delays`.  Every object must be what a fresh construction from copies of the contents at call time is."""
    b = B()
    from pyphysim.channels import fading, fading_generators as fg, singleuser, multiuser
    Ts = case['Ts']
    sets = [(np.array(p, dtype=float), np.array(d, dtype=float)) for p, d in case['sets']]

    def fresh_profile(p, d):
        return fading.TdlChannelProfile(p.copy(), d.copy())

    def build(level, seed, p, d):
        np.random.seed(seed)
        gen = (fg.JakesSampleGenerator(Ts=Ts, RS=np.random.RandomState(seed)) if case['jakes']
               else fg.RayleighSampleGenerator())
        if level == 'tdl':
            return fading.TdlChannel(gen, tap_powers_dB=p, tap_delays=d, Ts=Ts)
        if level == 'su':
            return singleuser.SuChannel(gen, tap_powers_dB=p, tap_delays=d, Ts=Ts)
        return multiuser.MuChannel(2, gen, tap_powers_dB=p, tap_delays=d, Ts=Ts)
    x = b.x2np(case['x']).reshape(-1)
    sig = np.array([x, x]) if case['level'] == 'mu' else x
    try:
        # (i) one pair of buffers, refilled before every construction
        pbuf, dbuf = sets[0][0].copy(), sets[0][1].copy()
        made = []
        for k, (p, d) in enumerate(sets):
            pbuf[...] = p
            dbuf[...] = d
            prof = fading.TdlChannelProfile(pbuf, dbuf)
            disc = prof.get_discretize_profile(Ts)
            ch = build(case['level'], 10 + k, pbuf, dbuf)
            if not (pbuf.flags['WRITEABLE'] and dbuf.flags['WRITEABLE']):
                return 'R16:profile-args:caller-array-made-read-only', 'construction %d froze the caller\'s tap array' % k
            if not (np.array_equal(pbuf, p) and np.array_equal(dbuf, d)):
                return 'R16:profile-args:caller-array-modified', 'construction %d changed the caller\'s tap array' % k
            made.append((prof, disc, ch))
        pbuf[...] = 0.375          # (iii) … and overwritten after the last one
        dbuf[...] = 7.25e7
        for k, ((p, d), (prof, disc, ch)) in enumerate(zip(sets, made)):
            ref = fresh_profile(p, d)
            for nm, got, want in (('profile', prof, ref), ('discretised-profile', disc, ref.get_discretize_profile(Ts)),
                                  ('channel-profile', ch.channel_profile, ref.get_discretize_profile(Ts))):
                if not _same_state(_prof_state(got), _prof_state(want)):
                    return ('R16:profile-args:buffer-refilled:' + nm,
                            'object %d (%s) built from the refilled tap buffers is not the object built from copies of '
                            'the contents at call time: delays %s / powers %s, expected %s / %s'
                            % (k, nm, list(got.tap_delays), list(got.tap_powers_linear), list(want.tap_delays),
                               list(want.tap_powers_linear)))
            twin = build(case['level'], 10 + k, p.copy(), d.copy())
            np.random.seed(99)
            y = ch.corrupt_data(sig)
            np.random.seed(99)
            yt = twin.corrupt_data(sig)
            ys, yts = (list(y), list(yt)) if case['level'] == 'mu' else ([y], [yt])
            if any(u.shape != v.shape or not np.array_equal(u, v) for u, v in zip(ys, yts)):
                return ('R16:profile-args:buffer-refilled:transmission',
                        'channel %d built from the refilled buffers transmits differently from its twin built from copies' % k)
        # (ii) one array object in both roles
        a = np.array(case['both'], dtype=float)
        one = fading.TdlChannelProfile(a, a)
        two = fresh_profile(a, a)
        if not _same_state(_prof_state(one), _prof_state(two)) or not _same_state(
                _prof_state(one.get_discretize_profile(Ts)), _prof_state(two.get_discretize_profile(Ts))):
            return ('R16:profile-args:one-array-in-two-roles', 'TdlChannelProfile(a, a) differs from '
                    'TdlChannelProfile(a.copy(), a.copy()) for a = %s' % list(a))
    except Exception as e:      # noqa
        return 'R16:profile-args:exception', '%s: %r' % (type(e).__name__, e)
    return None


def o_identity_concatenate(case):
    """R16 on `TdlImpulseResponse.concatenate_samples(list)`: the same response object twice in the list; one list
    object refilled in place between two calls; the list and its responses are not modified"""
    b = B()
    from pyphysim.channels import fading
    try:
        ch = b._real_channel(case)
        x = b.x2np(case['x'])
        x = x.reshape(-1) if case['ant'] is None else x
        ch.corrupt_data(x)
        ir1 = ch.get_last_impulse_response()
        ch.corrupt_data(x)
        ir2 = ch.get_last_impulse_response()
        s1, s2 = np.array(ir1.tap_values_sparse, copy=True), np.array(ir2.tap_values_sparse, copy=True)
        lst = [ir1, ir1]
        c0 = fading.TdlImpulseResponse.concatenate_samples(lst)
        if not np.array_equal(c0.tap_values_sparse, np.concatenate([s1, s1], axis=-1)) or c0.num_samples != 2 * ir1.num_samples:
            return 'R16:concatenate:one-response-twice', 'concatenate_samples([ir, ir]) is not ir followed by ir'
        lst[0], lst[1] = ir1, ir2
        c1 = fading.TdlImpulseResponse.concatenate_samples(lst)
        k1 = np.array(c1.tap_values_sparse, copy=True)
        lst[0], lst[1] = ir2, ir1                       # the caller's list, refilled in place
        c2 = fading.TdlImpulseResponse.concatenate_samples(lst)
        if not np.array_equal(k1, np.concatenate([s1, s2], axis=-1)) or \
                not np.array_equal(c2.tap_values_sparse, np.concatenate([s2, s1], axis=-1)):
            return 'R16:concatenate:list-refilled', 'second call with the refilled list does not concatenate its contents'
        if not np.array_equal(c1.tap_values_sparse, k1) or not np.array_equal(c0.tap_values_sparse, np.concatenate([s1, s1], axis=-1)):
            return 'R16:concatenate:earlier-result-changed', 'an earlier concatenation changed when the list was refilled'
        if lst[0] is not ir2 or lst[1] is not ir1 or not np.array_equal(ir1.tap_values_sparse, s1) \
                or not np.array_equal(ir2.tap_values_sparse, s2):
            return 'R16:concatenate:arguments-modified', 'the list or its responses were modified'
    except Exception as e:      # noqa
        return 'R16:concatenate:exception', '%s: %r' % (type(e).__name__, e)
    return None


def o_identity(case):
    return {'profile-args': o_identity_profile, 'concatenate': o_identity_concatenate}[case['kind']](case)


ORACLES = {'close-values': o_close, 'argument-identity': o_identity}


# --------------------------------------------------------------------------- generators of oracle cases
P_TINY = [4e-12, 4e-13, 1e-9, 1e-15, 2.5e-10, 3e-15, 5e-324, 1e-300]
P_NEAR1 = [1.0, 1.0 - 1e-6, 1.0 - 1e-9, float(np.nextafter(1.0, 0.0)), 1.0 - 3e-6]
P_PAIRS = [(0.3, 0.30000000000000004), (0.25, 0.25 * (1 + 1e-6)), (0.5, 0.5 + 1e-13), (0.123456789012, 0.123456789013),
           (0.7, 0.7 * (1 - 1e-9))]
P_BAD = [1.0 + 1e-9, -1e-12, -1e-15, 1.0 + 1e-6, -5e-324, 1.0 + 1e-12]
TS_CLOSE = [(1e-9, 2e-9), (3.25e-8, 3.25e-8 * (1 + 1e-6)), (1e-9, 1.2e-9), (5e-10, 4e-10), (1e-3, 1e-3 * (1 - 3e-6)),
            (2.4e9, 2.4e9 + 2e4), (1e-12, 3e-12), (0.3, 0.3 * (1 + 1e-7))]


def _base(rng, level):
    ant = None if rng.chance(0.5) else [rng.randint(1, 2), rng.randint(1, 2)]
    Ts = rng.choice([1e-3, 3.25e-8, 1.0])
    c = {'level': level, 'npseed': rng.below(1 << 30), 'jakes': rng.chance(0.5), 'ant': ant, 'Ts': Ts,
         'powers_dB': [0.0, -3.0, -6.5], 'delays_s': [0.0, 1.0 * Ts, 3.0 * Ts]}
    if level == 'mu':
        c['nrx'], c['ntx'] = rng.randint(1, 2), rng.randint(1, 2)
    return c


def _step(rng, case, sw):
    b = B()
    mu = case['level'] == 'mu'
    ant = case['ant']
    rows = 1 if ant is None else (ant[0] if sw else ant[1])
    nsrc = (case['nrx'] if sw else case['ntx']) if mu else 1
    if rng.chance(0.5):
        n = rng.randint(1, 6)
        st = {'op': 'tx'}
    else:
        fft = rng.randint(1, 8)
        sel, Bs = b.gen_sel(rng, fft)
        while not Bs:
            sel, Bs = b.gen_sel(rng, fft)
        n = Bs * rng.randint(1, 2)
        st = {'op': 'fx', 'fft': fft, 'sel': sel}
    xs = [b.gen_signal(rng, rows, n) for _ in range(nsrc)]
    st['x'] = xs if mu else xs[0]
    return st


def gen_pathloss_case(rng, level, fam=None):
    case = dict(_base(rng, level), kind='pathloss')
    sw = case['sw'] = rng.chance(0.3)
    mu = level == 'mu'
    fam = fam or rng.choice(['tiny', 'near1', 'pairs', 'mixed'])
    pool = {'tiny': P_TINY, 'near1': P_NEAR1, 'pairs': [v for pr in P_PAIRS for v in pr],
            'mixed': P_TINY + P_NEAR1 + [0.0, 0.5]}[fam]
    j0 = rng.below(len(pool))
    steps = []
    for j in range(rng.randint(2, 5)):
        st = _step(rng, case, sw)
        v = pool[(j0 + j) % len(pool)]
        if rng.chance(0.15):
            v = rng.choice(P_BAD)
        if mu:
            m = [[pool[(j0 + j + r + 2 * t) % len(pool)] for t in range(case['ntx'])] for r in range(case['nrx'])]
            if v in P_BAD:
                m[rng.below(case['nrx'])][rng.below(case['ntx'])] = v
            st['p'] = m
        elif rng.chance(0.1):
            st['p'] = None
        else:
            st['p'] = v
        steps.append(st)
    case['steps'] = steps
    case['fam'] = fam
    return case


def gen_tap_power_case(rng, level):
    case = dict(_base(rng, level), kind='tap-powers')
    Ts = case['Ts']
    L = rng.randint(2, 5)
    dl = sorted(rng.below(12) for _ in range(L))
    dl = sorted(set(dl))
    L = len(dl)
    case['delays_s'] = [d * Ts for d in dl]
    pw = [rng.choice([0.0, -3.0, -90.0, -120.0, -150.0, -147.5, -60.0, -81.0]) for _ in range(L)]
    pw[rng.below(L)] = 0.0
    if L >= 2:
        pw[(pw.index(0.0) + 1) % L] = rng.choice([-150.0, -120.0, -90.0])
    off = rng.choice([0.0, 0.0, -30.0, 40.0])
    case['powers_dB'] = [v + off for v in pw]
    case['tx'] = _step(rng, case, False)
    return case


def gen_disc_case(rng):
    """one parent profile, close sampling intervals; no delay / Ts within 1e-6 of a rounding tie (margin)"""
    for _ in range(200):
        T0, T1 = rng.choice(TS_CLOSE)
        tss = [T0, T1] + ([T0 * (1 + 2e-6)] if rng.chance(0.5) else []) + ([T1 / 2] if rng.chance(0.3) else [])
        k = rng.randint(2, 7)
        ds = [Fraction(float(rng.randint(0, 40) * T0 * rng.choice([1.0, 1.0, 0.7, 1.3]))) for _ in range(k)]
        if rng.chance(0.5):
            ds[0] = Fraction(0)
        ps = [Fraction(rng.randint(1, 64)) * Fraction(10) ** rng.choice([0, 0, -9, -12, -15, 3]) for _ in range(k)]
        fts = [Fraction(float(t)) for t in tss]
        if all(abs(((d / t) % 1) - Fraction(1, 2)) > Fraction(1, 10 ** 6) for d in ds for t in fts):
            return {'kind': 'discretize', 'delays': [str(d) for d in ds], 'powers': [str(p) for p in ps],
                    'Ts_list': [str(t) for t in fts]}
    raise core.Infra('no margin-respecting discretisation case found')


def gen_ctor_case(rng, level=None):
    T0, T1 = rng.choice(TS_CLOSE)
    if rng.chance(0.3):
        T1 = T0
    if rng.chance(0.5):
        T0, T1 = T1, T0
    roles = rng.choice([('g', 'a'), ('g', 'p'), ('p', 'a'), ('g', 'p', 'a'), ('g',), ('p',), ('a',), ()])
    vals = {'g': None, 'p': None, 'a': None}
    for i, r in enumerate(roles):
        vals[r] = T0 if i == 0 else (T1 if i == 1 else rng.choice([T0, T1]))
    T = T0 if roles else 1.0
    return {'kind': 'ctor-Ts', 'level': level or rng.choice(['tdl', 'su', 'mu']), 'gen_Ts': vals['g'], 'prof_Ts': vals['p'],
            'arg_Ts': vals['a'], 'powers_dB': [0.0, -3.0, -6.0], 'delays_s': [0.0, 1.0 * T, 4.0 * T]}


def gen_identity_case(rng, level):
    b = B()
    Ts = rng.choice([1.0, 1e-3, 3.25e-8])
    k = rng.randint(1, 4)
    sets = []
    for _ in range(rng.randint(2, 3)):
        dl = sorted(set(rng.below(10) for _ in range(k)))
        while len(dl) < k:
            dl = sorted(set(dl) | {rng.below(30)})
        sets.append(([-float(rng.randint(0, 20)) / 2 for _ in range(k)], [d * Ts for d in dl]))
    return {'kind': 'profile-args', 'level': level, 'Ts': Ts, 'jakes': rng.chance(0.5), 'sets': sets,
            'both': rng.choice([[0.0], [0.0, 1.0, 3.0], [0.0, 0.0], [2.0, 5.0]]) if Ts == 1.0 else [0.0] * rng.randint(1, 3),
            'x': b.gen_signal(rng, 1, 5)}


def fixed_oracle_cases():
    """(call, case, branch) run by every quick check"""
    r = core.Rng(62, 'c03r1516o')
    out = []
    for level in ('su', 'mu'):
        for fam in ('tiny', 'near1', 'pairs'):
            for _ in range(2):
                out.append(('close-values', gen_pathloss_case(r, level, fam), 'R15:pathloss-' + fam))
    for level in ('tdl', 'su', 'mu'):
        for _ in range(2):
            out.append(('close-values', gen_tap_power_case(r, level), 'R15:tap-powers'))
    for _ in range(8):
        out.append(('close-values', gen_disc_case(r), 'R15:discretize-close-Ts'))
    for pair in TS_CLOSE:
        for level, roles in (('tdl', ('g', 'a')), ('su', ('p', 'a')), ('mu', ('g', 'p'))):
            vals = {'g': None, 'p': None, 'a': None}
            vals[roles[0]], vals[roles[1]] = pair
            if roles == ('p', 'a'):
                pass
            out.append(('close-values', {'kind': 'ctor-Ts', 'level': level, 'gen_Ts': vals['g'], 'prof_Ts': vals['p'],
                                         'arg_Ts': vals['a'], 'powers_dB': [0.0, -3.0],
                                         'delays_s': [0.0, 2.0 * pair[0]]}, 'R15:ctor-Ts'))
    for level in ('tdl', 'su', 'mu'):
        for _ in range(2):
            out.append(('argument-identity', gen_identity_case(r, level), 'R16:profile-args'))
    b = B()
    for i, ant in enumerate((None, [2, 2], [1, 2])):
        out.append(('argument-identity', {'kind': 'concatenate', 'level': 'tdl' if i else 'su', 'npseed': 7 + i,
                                          'jakes': i != 1, 'ant': ant, 'Ts': 1e-3, 'powers_dB': [0.0, -3.0],
                                          'delays_s': [0.0, 2e-3],
                                          'x': b.gen_signal(r, 1 if ant is None else ant[1], 4)}, 'R16:concatenate'))
    return out


def oracles(ctx, n):
    """the R15 / R16 oracles: the fixed set, then `n` seeded cases of every kind"""
    b = B()
    for call, case, br in fixed_oracle_cases():
        b.run_oracle(ctx, call, case)
        ctx.branch('oracle:' + br)
    for i in range(n):
        level = ('su', 'mu', 'tdl')[i % 3]
        if level != 'tdl':
            c = gen_pathloss_case(ctx.rng, level)
            b.run_oracle(ctx, 'close-values', c)
            ctx.branch('oracle:R15:pathloss-' + c['fam'])
        b.run_oracle(ctx, 'close-values', gen_tap_power_case(ctx.rng, level))
        b.run_oracle(ctx, 'close-values', gen_disc_case(ctx.rng))
        b.run_oracle(ctx, 'close-values', gen_ctor_case(ctx.rng))
        b.run_oracle(ctx, 'argument-identity', gen_identity_case(ctx.rng, level))


ORACLE_BRANCHES = ['oracle:R15:pathloss-tiny', 'oracle:R15:pathloss-near1', 'oracle:R15:pathloss-pairs',
                   'oracle:R15:tap-powers', 'oracle:R15:discretize-close-Ts', 'oracle:R15:ctor-Ts',
                   'oracle:R16:profile-args', 'oracle:R16:concatenate']


# --------------------------------------------------------------------------- exact correspondences
def _q(v):
    if v is None:
        return 'N'
    f = Fraction(float(v))
    return str(f.numerator) if f.denominator == 1 else '%d/%d' % (f.numerator, f.denominator)


def ctor_corr(ctx, n):
    """model `ctorTs` (exact rationals) against the real constructors on binary64 sampling intervals"""
    b = B()
    drv = core.Driver(b.DRIVER)
    cases = [c for call, c, _ in fixed_oracle_cases() if c.get('kind') == 'ctor-Ts']
    cases += [gen_ctor_case(ctx.rng) for _ in range(n)]
    rep = drv.ask(['ctor %s %s %s' % (_q(c['gen_Ts']), _q(c['prof_Ts']), _q(c['arg_Ts'])) for c in cases])
    from pyphysim.channels import fading, fading_generators as fg, singleuser, multiuser
    for c, r in zip(cases, rep):
        try:
            gen = (fg.JakesSampleGenerator(Ts=c['gen_Ts'], RS=np.random.RandomState(1)) if c['gen_Ts'] is not None
                   else fg.RayleighSampleGenerator())
            prof = fading.TdlChannelProfile(np.array(c['powers_dB'], dtype=float), np.array(c['delays_s'], dtype=float))
            if c['prof_Ts'] is not None:
                prof = prof.get_discretize_profile(c['prof_Ts'])
            cls = {'tdl': fading.TdlChannel, 'su': singleuser.SuChannel}.get(c['level'])
            ch = cls(gen, prof, None, None, c['arg_Ts']) if cls else multiuser.MuChannel((1, 2), gen, prof, None, None, c['arg_Ts'])
            impl = 'ok:' + _q(ch.channel_profile.Ts)
        except Exception as e:      # noqa
            impl = 'error:' + type(e).__name__
        given = [v for v in (c['gen_Ts'], c['prof_Ts'], c['arg_Ts']) if v is not None]
        differ = len(set(given)) > 1
        ctx.branch('corr:R15:ctor-Ts:' + ('close-but-different' if differ else 'equal'))
        if not ctx.corr('TdlChannel.__init__:sampling-intervals', c, impl, r, nontrivial=differ,
                        key=('ctor', c['level'], _q(c['gen_Ts']), _q(c['prof_Ts']), _q(c['arg_Ts']))):
            b.run_oracle(ctx, 'close-values', c)


def gen_profile_close(rng):
    """exact (dyadic) profiles for the discretisation correspondence: delays closer than 1e-8 to each other yet
    in different sampling intervals; delays around 2e9 that differ by a relative 1e-6; powers spanning 2^-50..1"""
    if rng.chance(0.5):
        Ts = Fraction(1, 2 ** rng.choice([30, 34, 40]))
        qs = [Fraction(rng.randint(0, 48), rng.choice([1, 2, 4, 4])) for _ in range(rng.randint(2, 8))]
    else:
        Ts = Fraction(2 ** rng.choice([10, 13]))
        qs = [Fraction(2 ** 18 + rng.randint(0, 12)) + Fraction(rng.randint(0, 3), 4) for _ in range(rng.randint(2, 8))]
    delays = [q * Ts for q in qs]
    powers = [Fraction(rng.randint(1, 15), 2 ** rng.choice([0, 0, 3, 30, 40, 50])) for _ in delays]
    return Ts, delays, powers


def disc_close_corr(ctx, n):
    b = B()
    from pyphysim.channels import fading
    from pyphysim.util.conversion import linear2dB
    drv = core.Driver(b.DRIVER)
    cases = [gen_profile_close(ctx.rng) for _ in range(n)]
    lines = ['disc %s %s %s' % (b.fr2s(Ts), ','.join(b.fr2s(d) for d in ds), ','.join(b.fr2s(p) for p in ps))
             for Ts, ds, ps in cases]
    for (Ts, ds, ps), line, r in zip(cases, lines, drv.ask(lines)):
        md, mp = r.split(' ')
        mp = [Fraction(t) for t in mp[2:].split(',')]
        try:
            dp = fading.TdlChannelProfile(linear2dB(np.array([float(p) for p in ps])),
                                          np.array([float(d) for d in ds])).get_discretize_profile(float(Ts))
            gp = list(dp.tap_powers_linear)
            ok_p = len(gp) == len(mp) and all(rel_eq(g, float(m), 1e-11) for g, m in zip(gp, mp))
            impl = (','.join(str(int(d)) for d in dp.tap_delays), 'powers-agree' if ok_p else 'powers=%s' % gp)
        except Exception as e:      # noqa
            impl = ('error:' + type(e).__name__, '')
        ctx.branch('corr:R15:discretize:' + ('delays-within-1e-8' if Ts < 1 else 'delays-differ-by-1e-6-relative'))
        if max(ps) / min(ps) >= 10 ** 8:
            ctx.branch('corr:R15:discretize:powers-span>=1e8')
        if not ctx.corr('TdlChannelProfile.get_discretize_profile', line, impl, (md[2:], 'powers-agree'),
                        nontrivial=True, key=line):
            b.run_oracle(ctx, 'close-values', {'kind': 'discretize', 'delays': [str(d) for d in ds],
                                               'powers': [str(p) for p in ps], 'Ts_list': [str(Ts)]})


CORR_BRANCHES = ['corr:R15:ctor-Ts:close-but-different', 'corr:R15:ctor-Ts:equal', 'corr:R15:discretize:delays-within-1e-8',
                 'corr:R15:discretize:delays-differ-by-1e-6-relative', 'corr:R15:discretize:powers-span>=1e8']
HISTORY_TAGS = ['R15:pathloss-close-to-previous', 'R15:tap-power-below-1e-8',
                'R16:signal-from-reused-buffer', 'R16:index-array-from-reused-buffer',
                'R16:pathloss-matrix-from-reused-buffer', 'R16:argument-overwritten-after-call',
                'R16:signal-is-index-array', 'R16:sources-share-array', 'R16:buffer-refilled-in-place',
                'R16:tap-arrays-overwritten-after-construction']
