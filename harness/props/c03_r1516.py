"""C03 — robustness classes R15 (distinct values that are merely close) and R16 (argument identity and
buffer reuse): generators of scenarios for the history correspondence / history oracle of c03.py, two more
exact correspondences (constructor sampling intervals, discretisation of close / tiny values) and two
first-principles oracles on the untouched code.

R15.  C03's code compares / de-duplicates / branches on a value in four places: the sampling intervals given to
`TdlChannel.__init__` (`!=`), `np.unique(np.round(delay / Ts))` + power merging of the discretisation, the path
loss setters (`SuChannel.set_pathloss`, `MuChannel.set_pathloss`: range guard, stored value, factor on output
and reported response) and `sqrt(tap power)` in `generate_impulse_response`.  Values used: magnitudes 1e-9 … 1e-15
(all "equal" to 0 and to each other under `np.isclose`), values that differ by a relative 1e-6 … 1e-9, adjacent
binary64 values.  All comparisons are relative to the value itself.

R16.  Every public entry point that takes an array / list: `corrupt_data(signal)`,
`corrupt_data_in_freq_domain(signal, fft_size, carrier_indexes)` of TdlChannel / SuChannel / MuChannel /
MuMimoChannel, `MuChannel.set_pathloss(matrix)`, `TdlChannelProfile(powers, delays)`, the channel constructors
with tap arrays, `TdlImpulseResponse.concatenate_samples(list)`.
"""
import copy
from fractions import Fraction

import numpy as np

from harness import core


def B():
    from harness.props import c03
    return c03


# exact square roots of path losses: one family per binade, so that every sum stays exact in binary64
PL_TINY = ['1/1048576', '1/2097152', '3/4194304', '1/1048576', '1/4194304']          # p = 9e-13, 2e-13, 5e-13, 6e-14
PL_NEAR = ['1/2', '1048577/2097152', '1', '2097151/2097152', '1048575/2097152', '1/2']   # p differs by ~1e-6 relative
AMPS_TINY = ['1', '1/1048576', '1/33554432', '1/32768']                               # powers 1, 9e-13, 9e-16, 9e-10


def close_p(a, b):
    """what `np.isclose` / `np.allclose` (default tolerances) would call equal"""
    return a is not None and b is not None and a != b and bool(np.allclose(np.asarray(a, float), np.asarray(b, float)))


def _sq(s):
    return None if s is None else float(Fraction(s) ** 2)


def _mark_close(case):
    """flag the `pl` operations whose value is close to, but different from, the one in force"""
    mu = case['level'] == 'mu'
    cur = None
    for op in case['ops']:
        if op['op'] != 'pl':
            continue
        new = None if op.get('s') is None else ([[ _sq(v) for v in r] for r in op['s']] if mu else _sq(op['s']))
        if close_p(cur, new):
            op['close'] = True
        cur = new


def _tx(rng, case, sw, n, real, lim=4):
    b = B()
    mu = case['level'] == 'mu'
    ant = case['ant']
    rows = 1 if ant is None else (ant[0] if sw else ant[1])
    nsrc = (case['nrx'] if sw else case['ntx']) if mu else 1
    xs = [b.gen_signal(rng, rows, n, lim=lim, real=real) for _ in range(nsrc)]
    return xs if mu else xs[0]


def gen_close_case(rng, level, quick=True):
    """R15 history for the exact correspondence: consecutive path losses that are close but different (tiny ones,
    or differing by a relative 1e-6), each followed by a transmission and a read of the reported response; or a
    profile whose taps differ in power by up to 150 dB"""
    b = B()
    case = b.gen_case(rng, level, quick)
    mu = level == 'mu'
    case['ctor'] = 'profile'
    case['delays'] = b.gen_delays(rng, 5)[:3]
    fam = rng.choice(['tiny', 'near', 'amps']) if level != 'tdl' else 'amps'
    if fam == 'amps':
        case['amps'] = [rng.choice(AMPS_TINY) for _ in case['delays']]
        case['amps'][rng.below(len(case['amps']))] = '1'
        pls = ['1', '1/2', '1/1048576', '1/4']
    else:
        case['amps'] = [rng.choice(['1', '2', '1/2', '3/2']) for _ in case['delays']]
        pls = PL_TINY if fam == 'tiny' else PL_NEAR
    ops = []
    sw = False
    j0 = rng.below(len(pls))
    for j in range(rng.randint(2, 4)):
        if rng.chance(0.2):
            sw = not sw
            ops.append({'op': 'sw', 'v': sw})
        if level != 'tdl':
            if mu:
                m = [[pls[(j0 + j + r + 2 * t) % len(pls)] for t in range(case['ntx'])] for r in range(case['nrx'])]
                ops.append({'op': 'pl', 's': m, 'kw': rng.chance(0.3)})
            else:
                ops.append({'op': 'pl', 's': pls[(j0 + j) % len(pls)], 'kw': rng.chance(0.3)})
        real = rng.chance(0.3)
        if rng.chance(0.5):
            op = {'op': 'tx', 'x': _tx(rng, case, sw, rng.randint(1, 6), real)}
        else:
            fft = rng.randint(1, 8)
            sel, Bs = b.gen_sel(rng, fft)
            while not Bs:
                sel, Bs = b.gen_sel(rng, fft)
            op = {'op': 'fx', 'fft': fft, 'sel': sel, 'x': _tx(rng, case, sw, Bs * rng.randint(1, 2), real)}
        op.update({'siso': case['ant'] is None, 'as1d': rng.chance(0.5), 'expect': 'ok',
                   'scale': rng.choice([0, 0, -40, 40])})
        ops += [op, {'op': 'ir'}]
    case['ops'] = ops
    _mark_close(case)
    return case


def gen_reuse_case(rng, level, quick=True):
    """R16 history: 2-4 transmissions of ONE geometry whose signal (array, or list of arrays) is the caller's
    one buffer refilled in place, likewise the carrier index array / list and the path-loss matrix; arguments
    overwritten right after the call; one array object in two roles"""
    b = B()
    case = b.gen_case(rng, level, quick)
    mu = level == 'mu'
    if case['ant'] is not None and rng.chance(0.5):
        case['ant'] = [case['ant'][0], case['ant'][0]]          # same number of rows in both directions
    ant = case['ant']
    case['prof_scribble'] = rng.chance(0.5)
    fft = rng.randint(2, 12)
    Bs = fft if rng.chance(0.2) else rng.randint(1, min(fft, 5))
    nb = rng.randint(1, 2)
    n = Bs * nb
    real = rng.chance(0.4)
    dtype = rng.choice(['complex128', 'complex128', 'complex64'] + (['float64', 'int64', 'int16'] if real else []))
    layout = rng.choice(['c', 'c', 'f', 'strided', 'rev'])
    scale = 0 if dtype.startswith('int') else rng.choice([0, 0, 20, -20])
    hetero = mu and rng.chance(0.3)
    as1d = rng.chance(0.5)
    idx_as_array = rng.chance(0.7)
    idx_layout = rng.choice(['c', 'strided'])
    plform = {'pllayout': rng.choice(['c', 'f', 'strided']), 'kw': rng.chance(0.3)}
    alias_ok = (not mu and ant is None and nb == 1)
    share_ok = mu
    ops, sw = [], False
    for j in range(rng.randint(2, 4)):
        if j and rng.chance(0.2):
            sw = not sw
            ops.append({'op': 'sw', 'v': sw})
        if level != 'tdl' and rng.chance(0.5):
            if mu:
                m = [[rng.choice(b.PLS) for _ in range(case['ntx'])] for _ in range(case['nrx'])]
                ops.append(dict(plform, op='pl', s=m, buf=True, scribble=rng.chance(0.5)))
            else:
                ops.append({'op': 'pl', 's': rng.choice(b.PLS)})
        kind = rng.choice(['tx', 'fx', 'fx'])
        op = {'op': kind, 'x': _tx(rng, case, sw, n, real), 'siso': ant is None, 'as1d': as1d, 'expect': 'ok',
              'dtype': dtype, 'layout': layout, 'scale': scale, 'real': real, 'buf': True,
              'scribble': rng.chance(0.5), 'kw': rng.chance(0.3)}
        if hetero and kind == 'fx':
            op['hetero'], op['hetero_rot'] = True, 1
            for row in op['x'][0]:
                for e in row:
                    e[1] = 0
        if kind == 'fx':
            if Bs == fft and rng.chance(0.5):
                sel = {'kind': 'all'}
            else:
                sel = {'kind': 'idx', 'idx': [rng.randint(-fft, fft - 1) for _ in range(Bs)], 'as_array': idx_as_array,
                       'dtype': 'int64' if idx_as_array else 'list', 'layout': idx_layout}
                op['idxbuf'] = True
            op.update({'fft': fft, 'sel': sel})
            if alias_ok and sel['kind'] == 'idx' and rng.chance(0.35):
                # the symbols sent ARE the carrier numbers: one int64 array for both parameters
                sel.update({'as_array': True, 'dtype': 'int64', 'layout': 'c'})
                op.update({'x': [[[i, 0] for i in sel['idx']]], 'dtype': 'int64', 'layout': 'c', 'scale': 0,
                           'real': True, 'alias': 'signal-is-index-array', 'buf': False, 'idxbuf': False})
        if share_ok and not op.get('hetero') and rng.chance(0.3):
            op['x'] = [copy.deepcopy(op['x'][0]) for _ in op['x']]
            op['alias'] = 'sources-share-array'
            op['as1d'] = False
        ops += [op, {'op': 'ir'}]
    case['ops'] = ops
    return case


def fixed_cases():
    """deterministic R15 / R16 scenarios, run by every quick check (correspondence and, on the untouched
    generators, history oracle): one per object kind x domain x class"""
    b = B()
    out = []
    base = {'seed': 11, 'jakes': True, 'ant': None, 'delays': [0, 2, 3], 'amps': ['1', '2', '1/2'], 'Ts': 1e-3,
            'link': 5, 'late_ant': False}
    r = core.Rng(61, 'c03r1516')
    x6 = b.gen_signal(r, 1, 6)
    x6b = b.gen_signal(r, 1, 6)
    x6c = b.gen_signal(r, 1, 6)
    x6d = b.gen_signal(r, 1, 6)
    x6e = b.gen_signal(r, 1, 6)
    i3a, i3b = [0, 5, 2], [7, -1, 3]
    # ---- R15, SuChannel: tiny path losses one after the other; then losses that differ by 1e-6
    for pls in (PL_TINY[:4], PL_NEAR[:5]):
        for ant, jakes in ((None, True), ([2, 2], False)):
            x = x6 if ant is None else b.gen_signal(r, 2, 6)
            ops = []
            for j, s in enumerate(pls):
                ops.append({'op': 'pl', 's': s})
                ops.append({'op': 'tx', 'x': x, 'siso': ant is None} if j % 2 == 0 else
                           {'op': 'fx', 'fft': 8, 'sel': {'kind': 'idx', 'idx': i3a}, 'x': x, 'siso': ant is None})
                ops.append({'op': 'ir'})
            out.append(dict(base, level='su', ant=ant, jakes=jakes, ops=ops))
    # ---- R15, MuChannel: matrices that np.allclose calls equal
    for fam in (PL_TINY, PL_NEAR):
        ops = []
        for j in range(3):
            ops += [{'op': 'pl', 's': [[fam[(j + a + 2 * t) % len(fam)] for t in range(2)] for a in range(2)]},
                    {'op': 'tx', 'x': [x6, x6b]} if j != 1 else
                    {'op': 'fx', 'fft': 6, 'sel': {'kind': 'all'}, 'x': [x6, x6b]}, {'op': 'ir'}]
        out.append(dict(base, level='mu', nrx=2, ntx=2, ops=ops))
    # ---- R15, tap powers 1 / 9e-13 / 9e-16 in one profile, all levels
    for level in ('tdl', 'su', 'mu'):
        c = dict(base, level=level, amps=['1', '1/1048576', '1/33554432'], jakes=level != 'su')
        xs = [x6, x6b] if level == 'mu' else x6
        c['ops'] = [{'op': 'tx', 'x': xs}, {'op': 'ir'},
                    {'op': 'fx', 'fft': 6, 'sel': {'kind': 'slice', 'slice': [0, 6, 2]}, 'x': xs}, {'op': 'ir'}]
        if level == 'mu':
            c.update(nrx=1, ntx=2)
        out.append(c)
    # ---- R16: one signal buffer (and one index buffer) refilled in place, every object kind, both domains
    for level in ('tdl', 'su', 'mu'):
        for ant in (None, [2, 2]):
            def sig(k):
                rr = core.Rng(70 + k, 'c03r16sig')
                rows = 1 if ant is None else 2
                xs = [b.gen_signal(rr, rows, 6) for _ in range(2 if level == 'mu' else 1)]
                return xs if level == 'mu' else xs[0]
            deco = {'siso': ant is None, 'buf': True}
            ops = []
            for k, (kind, idx) in enumerate((('tx', None), ('tx', None), ('fx', i3a), ('fx', i3b), ('tx', None))):
                op = dict(deco, op=kind, x=sig(k), scribble=k in (1, 3))
                if kind == 'fx':
                    op.update({'fft': 8, 'idxbuf': True,
                               'sel': {'kind': 'idx', 'idx': idx, 'as_array': level != 'su', 'dtype':
                                       'int64' if level != 'su' else 'list'}})
                ops += [op, {'op': 'ir'}]
                if level == 'mu' and k in (0, 2):
                    ops.append({'op': 'pl', 's': [['1/2', '1'], ['1/4', '1/2']] if k == 0 else [['1', '1/4'], ['1/2', '0']],
                                'buf': True, 'scribble': True})
                if level == 'su' and k == 1:
                    ops.append({'op': 'pl', 's': '1/4'})
            c = dict(base, level=level, ant=ant, jakes=ant is None, ops=ops, prof_scribble=True)
            if level == 'mu':
                c.update(nrx=2, ntx=2)
            out.append(c)
    # ---- R16: a LIST of per-transmitter arrays kept and refilled; one array object for both transmitters
    c = dict(base, level='mu', nrx=2, ntx=2, jakes=False, ops=[
        {'op': 'fx', 'fft': 6, 'sel': {'kind': 'all'}, 'x': [x6, x6b], 'hetero': True, 'hetero_rot': 0, 'buf': True},
        {'op': 'ir'},
        {'op': 'fx', 'fft': 6, 'sel': {'kind': 'all'}, 'x': [x6c, x6], 'hetero': True, 'hetero_rot': 0, 'buf': True,
         'scribble': True}, {'op': 'ir'},
        {'op': 'tx', 'x': [x6d, copy.deepcopy(x6d)], 'alias': 'sources-share-array'}, {'op': 'ir'},
        {'op': 'fx', 'fft': 6, 'sel': {'kind': 'all'}, 'x': [x6e, copy.deepcopy(x6e)], 'alias': 'sources-share-array',
         'scribble': True}, {'op': 'ir'}])
    c = copy.deepcopy(c)
    for op in c['ops'][:3:2]:
        for e in op['x'][0][0]:
            e[1] = 0
    out.append(c)
    # ---- R16: one int64 array is the signal AND the carrier index array
    for level in ('tdl', 'su'):
        ops = []
        for idx in ([0, 5, 2], [3, 3, 7], [1, 0, 6]):
            ops += [{'op': 'fx', 'fft': 8, 'sel': {'kind': 'idx', 'idx': idx, 'as_array': True, 'dtype': 'int64'},
                     'x': [[[i, 0] for i in idx]], 'dtype': 'int64', 'real': True, 'alias': 'signal-is-index-array',
                     'scribble': idx[0] == 3}, {'op': 'ir'}]
        out.append(dict(base, level=level, ops=ops))
    for c in out:
        _mark_close(c)
    return out
