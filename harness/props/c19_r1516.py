"""C19 — robustness classes R15 and R16 (helper module of harness/props/c19.py; not a property module).

R15 — distinct values that are merely close.  Wherever the cell geometry compares, looks up, stores or
thresholds a value, pairs / sets of close-but-different legitimate values are generated and EACH must give the
result of a first-principles computation for that very value:
  ratio      ratios of add_border_user / get_border_point / Cluster.add_border_users next to 0 and 1
             (1e-15 .. 1e-9, 1 - 1e-5 .. 1 - 2^-53, adjacent doubles; just outside [0, 1] must be rejected)
  setter     pos / radius / rotation setters and the move helpers called with a value that differs from the
             current one by a relative 1e-6 .. 1e-7 (and, at scales 1e-9 .. 1e-15, by factors of 2 .. 3 between
             numbers that are all "equal to 0" for an absolute 1e-8): the setter takes effect, users follow
  cluster    clusters of one size built one after the other with radii / rotations / positions that are close
             (the class-level cache is keyed by the cell count only)
  angle      border points for directions 3e-9 .. 1e-6 degrees apart (and adjacent doubles), 1e-12 relative
  query      query points 3e-9 .. 1e-7 of the size on either side of an edge
  min_dist   min_dist_ratio 0 vs 1e-300 .. 1e-6, and ratios 1e-6 on either side of a candidate's distance
  pointprocess  thin annuli, tiny radii, min_radius next to 0, width next to height

R16 — argument identity and buffer reuse.  One preallocated array / list / 0-d array is refilled in place
between 2-4 calls on the same object or function; the same object is passed in two roles; arguments are
overwritten right after the call; results handed out earlier are kept and compared afterwards:
  calc_rotated_pos, from_complex_array_to_real_matrix, add_border_user (Cell, Cell3Sec, CellSquare),
  Cluster.add_border_users, Cluster.add_random_users, Cluster.delete_all_users, get_border_point /
  is_point_inside_shape with a 0-d buffer.

Every class has an oracle part (first principles, on the real code) and a correspondence part (the Lean model on
the logical values), each a required branch; failure classes are computed from the input.  All comparisons are
relative to the size of the shape / of the expected displacement (no absolute floor).
"""
import math

import numpy as np

from harness import core

EPS = 2.0 ** -52
ORACLES = {}


def B():
    from harness.props import c19
    return c19


# ------------------------------------------------------------------ first principles
def centre_of(spec):
    """centre of the shape from its definition"""
    b = B()
    if spec['kind'] == 'sector':
        return b.cx(spec['pos']) + spec['R'] / math.sqrt(3) * b.cis(spec['rot'] + b.SEC_ANGLE[spec['k']])
    return b.spec_pos(spec)


def ray_hit(spec, ang):
    """the distance t > 0 at which the ray from the centre in direction `ang` (degrees) leaves the shape, by
    bisection on membership in the polygon of the definition (cells are star-shaped around their centre)"""
    b = B()
    if b.base_kind(spec) == 'circle':
        return spec['R'] if spec['kind'] != 'wrap' else spec['inner']['R']
    verts = b.ref_vertices(spec)
    c = centre_of(spec)
    d = b.cis(ang)
    lo, hi = 0.0, 4.0 * b.shape_size(spec)
    for _ in range(70):
        mid = 0.5 * (lo + hi)
        if b.winding_inside(verts, c + mid * d):
            lo = mid
        else:
            hi = mid
    return 0.5 * (lo + hi)


def tight(spec, reach, r=1.0):
    """tolerance of the tight comparisons: 1e-12 of the distance the result is from the centre, plus the rounding of
    `pos + offset` / `vertices - pos` (a few hundred ulp of |pos|; for a wrapped cell also of the position of the
    cell it wraps, whose stored absolute corners are subtracted; that part is scaled by the ratio like the border
    point itself) — relative, no floor"""
    b = B()
    tol = 1e-12 * reach + 256 * EPS * abs(centre_of(spec))
    if spec['kind'] == 'wrap':
        tol += r * 256 * EPS * abs(b.spec_pos(spec['inner']))
    return tol


def rounding(spec, r=1.0):
    """the part of `tight` that stands for the rounding of `pos + offset`"""
    return tight(spec, 0.0, r)


def ratio_bucket(r):
    if r == 1.0:
        return 'exactly-1'
    if r == 0.0:
        return 'exactly-0'
    if r > 1.0:
        return 'just-above-1'
    if r < 0.0:
        return 'just-below-0'
    if r < 1e-6:
        return 'near-0'
    if r > 1.0 - 1e-4:
        return 'near-1'
    return 'interior'


CLOSE_RATIOS = [1e-15, 1e-12, 1e-9, 3e-9, 1e-200, 0.0, 0.3, 0.30000000000000004, 1.0 - 1e-5, 1.0 - 5e-6, 1.0 - 1e-6,
                1.0 - 1e-9, 1.0 - 2.0 ** -53, 1.0, 1.0 + 2.0 ** -52, 1.0 + 1e-9, 1.0 + 1e-6, -1e-15, -1e-9, -5e-324]


def scaled_class(spec):
    return B().scale_class(spec)


# ------------------------------------------------------------------ R15 oracle
def o_close(case):
    b = B()
    w = b.quiet()
    try:
        return _o_close(case)
    except b.StreamEnd:
        return None
    except Exception as e:
        return 'close:%s:raises:%s' % (case['what'], type(e).__name__), repr(e)[:200]
    finally:
        w.__exit__(None, None, None)


def _o_close(case):
    b = B()
    shapes, cell, pp = b._mods()
    what = case['what']
    if what == 'ratio':
        # every ratio in [0, 1] is used as it is (only exactly 1.0 is nudged by 1e-15); just outside is rejected
        spec = case['spec']
        kind = b.base_kind(spec)
        c = centre_of(spec)
        for ang in case['angles']:
            t = ray_hit(spec, ang)
            d = b.cis(ang)
            for r in case['ratios']:
                cls = 'close:ratio:%s:%s%s' % (kind, ratio_bucket(r), scaled_class(spec))
                # get_border_point does not validate: the point is centre + r * (border - centre)
                if 0.0 <= r <= 1.0:
                    sh = b.make_shape(spec)
                    p = complex(sh.get_border_point(ang, r))
                    e = c + r * t * d
                    if abs(p - e) > tight(spec, r * t, r):
                        return cls, ('get_border_point(%r, %r) = %r, the point at ratio %r of the border point %r is %r'
                                     % (ang, r, p, r, c + t * d, e))
                if case.get('users', True) and kind in ('hex', 'sec3', 'square'):
                    for path in ('cell', 'cluster'):
                        if path == 'cell':
                            sh = b.make_shape(spec)
                            add = lambda: sh.add_border_user(ang, r)
                            users = lambda: sh.users
                        else:
                            if spec['kind'] == 'wrap' or not case.get('cluster', True):
                                continue
                            ctype = {'hex': 'simple', 'sec3': '3sec', 'square': 'square'}[kind]
                            cl = cell.Cluster(spec['side'] if kind == 'square' else spec['R'], 1, c, None, ctype, spec['rot'])
                            add = lambda: cl.add_border_users(1, ang, r)
                            users = lambda: cl.get_cell_by_id(1).users
                        try:
                            add()
                            raised = False
                        except ValueError:
                            raised = True
                        bad = r < 0.0 or r > 1.0
                        if raised != bad:
                            return cls + ':' + path, 'ratio %r was %s' % (r, 'rejected' if raised else 'accepted')
                        if raised:
                            if len(users()) != 0:
                                return cls + ':' + path, 'a user was added although ratio %r was rejected' % r
                            continue
                        reff = 1.0 - 1e-15 if r == 1.0 else r
                        p = complex(users()[-1].pos)
                        e = c + reff * t * d
                        if len(users()) != 1 or abs(p - e) > tight(spec, reff * t, reff):
                            return cls + ':' + path, ('add_border_user(%r, %r): user at %r, expected %r (ratio x border point %r)'
                                                      % (ang, r, p, e, c + t * d))
        return None
    if what == 'angle':
        spec = case['spec']
        kind = b.base_kind(spec)
        c = centre_of(spec)
        sh = b.make_shape(spec)
        got = []
        for ang in case['angles']:
            got.append(complex(sh.get_border_point(ang, case['ratio'])))
        for ang, p in zip(case['angles'], got):          # the SAME object answered all of them before any is checked
            t = ray_hit(spec, ang)
            e = c + case['ratio'] * t * b.cis(ang)
            if abs(p - e) > tight(spec, t, case['ratio']):
                return ('close:angle:%s%s' % (kind, scaled_class(spec)),
                        'get_border_point(%r, %r) = %r, the ray in that direction leaves the cell at %r (angles asked: %r)'
                        % (ang, case['ratio'], p, e, case['angles']))
        return None
    if what == 'query':
        spec = case['spec']
        kind = b.base_kind(spec)
        sh = b.make_shape(spec)
        for q, exp, m in case['queries']:
            g = bool(sh.is_point_inside_shape(b.cx(q)))
            if g != exp:
                return ('close:query:%s:margin=%g%s' % (kind, m, scaled_class(spec)),
                        'is_point_inside_shape(%r) = %s; the point is %g of the size %s the boundary'
                        % (b.cx(q), g, m, 'inside' if exp else 'outside'))
        return None
    if what == 'min_dist':
        spec = case['spec']
        kind = spec['kind']
        ref = b.ref_vertices(spec)
        for ratio in case['ratios']:
            if kind == 'sector':
                c3 = cell.Cell3Sec(b.cx(spec['pos']), spec['R'], rotation=spec['rot'])

                def add():
                    c3.add_random_user_in_sector(spec['k'] + 1, None, ratio)
                    return complex(c3.users[-1].pos)
            else:
                sh = b.make_shape(spec)

                def add():
                    sh.add_random_user(None, ratio)
                    return complex(sh.users[-1].pos)
            c = centre_of(spec)
            radius = b.shape_size(spec)          # the circumradius of the definition is the `radius` of the cell
            exp = None
            for k in range(len(case['draws']) // 2):
                cand = c + complex(2 * (case['draws'][2 * k] - 0.5) * radius, 2 * (case['draws'][2 * k + 1] - 0.5) * radius)
                if b.winding_inside(ref, cand) and not abs(cand - c) < ratio * radius:
                    exp = (k, cand)
                    break
            with b.scripted_random(case['draws']) as s:
                try:
                    p = add()
                    used = s.i // 2
                except b.StreamEnd:
                    p, used = None, None
            if exp is None or p is None:
                if (exp is None) != (p is None):
                    return 'close:min_dist:%s:ratio=%g' % (kind, ratio), 'placed %r, expected %r' % (p, exp)
                continue
            if used != exp[0] + 1 or abs(p - exp[1]) > tight(spec, radius):
                return ('close:min_dist:%s:ratio=%g%s' % (kind, ratio, scaled_class(spec)),
                        'min_dist_ratio %r: user at %r after %d candidates; the first candidate inside the cell and not closer '
                        'than %r x radius is number %d at %r' % (ratio, p, used, ratio, exp[0] + 1, exp[1]))
        return None
    if what == 'cluster':
        # clusters built one after the other; each is the layout of ITS OWN parameters, earlier ones stay
        built = []
        for par in case['seq']:
            cl = cell.Cluster(cell_radius=par['R'], num_cells=par['n'], pos=b.cx(par['pos']), cell_type=case['type'],
                              rotation=par['rot'])
            built.append((par, cl, [complex(c_.pos) for c_ in cl], [np.array(c_.vertices, copy=True) for c_ in cl]))
        for i, (par, cl, cen, vs) in enumerate(built):
            if [complex(c_.pos) for c_ in cl] != cen or any(not np.array_equal(np.asarray(c_.vertices), v) for c_, v in zip(cl, vs)):
                return 'close:cluster:%s:earlier-cluster-changed' % case['type'], 'cluster %d changed when a later one was built' % i
            r = layout_check(case['type'], par, cen, [[complex(z) for z in v] for v in vs])
            if r is not None:
                return ('close:cluster:%s:%s:%s' % (case['type'], case['vary'], r[0]),
                        'cluster %d of the sequence %r: %s' % (i, [(p_['R'], p_['rot'], p_['pos']) for p_ in case['seq']], r[1]))
        return None
    if what == 'pointprocess':
        n = len(case['u'])
        with b.scripted_random(case['u'] + case['v']):
            if case['pp'] == 'circle':
                pts = np.asarray(pp.generate_random_points_in_circle(n, case['rmax'], case['rmin']))
            else:
                pts = np.asarray(pp.generate_random_points_in_rectangle(n, case['w'], case['h']))
        if pts.shape != (n,):
            return 'close:pointprocess:%s:count' % case['pp'], 'shape %s' % (pts.shape,)
        for k in range(n):
            u, v = case['u'][k], case['v'][k]
            if case['pp'] == 'circle':
                rmax, rmin = case['rmax'], case['rmin']
                r = math.sqrt(u) * (rmax - rmin) + rmin
                e = r * complex(math.cos(2 * math.pi * v), -math.sin(2 * math.pi * v))
                frac_ok = True
                if rmax > rmin:       # where in the annulus the point lies: sqrt(u) of the way from rmin to rmax
                    frac = (abs(pts[k]) - rmin) / (rmax - rmin)
                    frac_ok = abs(frac - math.sqrt(u)) <= 1e-9 + 8 * EPS * rmax / (rmax - rmin)
                if abs(pts[k] - e) > 1e-12 * rmax or not frac_ok:
                    return ('close:pointprocess:circle:%s' % case['vary'],
                            'u=%r v=%r rmax=%r rmin=%r: point %r (radius %r), expected %r (radius %r)'
                            % (u, v, rmax, rmin, pts[k], abs(pts[k]), e, r))
            else:
                e = complex(case['w'] * (0.5 - u), case['h'] * (0.5 - v))
                if abs(pts[k].real - e.real) > 1e-12 * case['w'] or abs(pts[k].imag - e.imag) > 1e-12 * case['h']:
                    return ('close:pointprocess:rectangle:%s' % case['vary'],
                            'u=%r v=%r w=%r h=%r: point %r, expected %r' % (u, v, case['w'], case['h'], pts[k], e))
        return None
    raise KeyError(what)


def layout_check(ctype, par, cen, polys):
    """first principles for ONE cluster (its centres and cell polygons are given): centred, congruent, the cell of the
    definition with the cluster's rotation, touching distance of ITS radius, separating lines.  Relative to the
    cluster's own size."""
    b = B()
    n, R, rot = par['n'], par['R'], par['rot']
    pos = b.cx(par['pos'])
    sc = 6 * R + 1e-3 * abs(pos)
    tol = b.TOL * sc
    if len(cen) != n:
        return 'count', '%d cells' % len(cen)
    if abs(sum(cen) / n - pos) > tol:
        return 'not-centred', 'centroid %r, cluster position %r' % (sum(cen) / n, pos)
    spec0 = b.cell_spec(ctype, R, rot, cen[0])
    ref0 = b.ref_vertices(spec0)
    if not b.cyc_close(polys[0], ref0, tol):
        return 'cell-shape', 'cell 1 is not a %s cell of size %r rotated by %r' % (ctype, R, rot)
    for i in range(1, n):
        if len(polys[i]) != len(polys[0]) or any(abs((x - cen[i]) - (y - cen[0])) > tol for x, y in zip(polys[i], polys[0])):
            return 'not-congruent', 'cell %d is not cell 1 translated' % (i + 1)
    if n == 1:
        return None
    touch = R if ctype == 'square' else math.sqrt(3) * R
    D = np.abs(np.array(cen)[:, None] - np.array(cen)[None, :])
    D[np.arange(n), np.arange(n)] = np.inf
    if D.min() < touch - tol:
        return 'overlap', 'two centres are %.12g apart, the touching distance of radius %r is %.12g' % (D.min(), R, touch)
    if not (np.abs(D - touch) <= tol).any(axis=1).all():
        i = int(np.argmin((np.abs(D - touch) <= tol).any(axis=1)))
        return 'gap', 'cell %d has its nearest neighbour at %.12g, the touching distance of radius %r is %.12g' % (
            i + 1, D[i].min(), R, touch)
    if ctype in ('simple', 'square'):
        for i in range(n):
            for j in range(i + 1, n):
                if D[i, j] <= 1.6 * touch and not b.convex_separated(polys[i], polys[j], tol):
                    return 'overlap', 'cells %d and %d have no separating line' % (i + 1, j + 1)
    return None


ORACLES['close_values'] = o_close


# ------------------------------------------------------------------ R15 generators
def origin_spec(rng, kind, scale=0):
    """a shape at the origin (results are then exact multiples of the ratio: no cancellation in pos + offset)"""
    b = B()
    spec = b.gen_spec(rng, [kind], scale)
    if kind == 'rect':
        a, c = b.cx(spec['first']), b.cx(spec['second'])
        m = (a + c) / 2
        spec['first'], spec['second'] = b.c2(a - m), b.c2(c - m)
    elif kind == 'wrap':
        spec['pos'] = [0.0, 0.0]
    else:
        spec['pos'] = [0.0, 0.0]
    return spec


def gen_ratio_case(rng, kind, at_origin, scale=0):
    b = B()
    spec = origin_spec(rng, kind, scale) if at_origin else b.gen_spec(rng, [kind], scale)
    rot = b.spec_rot(spec)
    angles = [round(rng.uniform(-720.0, 720.0), 3), rot + 15.0 * rng.randint(-24, 24)]
    return {'what': 'ratio', 'spec': spec, 'angles': angles, 'ratios': list(CLOSE_RATIOS)}


def gen_angle_case(rng, kind, scale=0):
    b = B()
    spec = b.gen_spec(rng, [kind], scale)
    rot = b.spec_rot(spec)
    base = rng.choice([rot + 15.0 * rng.randint(-24, 24), round(rng.uniform(-720.0, 720.0), 2), rot + 60.0 * rng.randint(-6, 6) - 120.0])
    angles = [base]
    for dlt in (1e-6, -1e-7, 1e-8, 3e-9, -3e-9):
        angles.append(base + dlt)
    angles.append(math.nextafter(base, math.inf))
    angles.append(math.nextafter(base, -math.inf))
    rng.shuffle(angles)
    return {'what': 'angle', 'spec': spec, 'angles': angles, 'ratio': rng.choice([1.0, 1.0, 0.5])}


def gen_query_case(rng, kind, scale=0):
    """points a relative 3e-9 .. 1e-7 of the size on either side of the boundary of a shape at the origin"""
    b = B()
    spec = origin_spec(rng, kind, scale)
    size = b.shape_size(spec)
    qs = []
    if b.base_kind(spec) == 'circle':
        for m in (1e-7, 1e-8, 3e-9):
            for _ in range(2):
                d = b.cis(rng.uniform(0, 360))
                qs.append([b.c2(spec['R'] * (1 - m) * d), True, m])
                qs.append([b.c2(spec['R'] * (1 + m) * d), False, m])
    else:
        ref = b.ref_vertices(spec)
        n = len(ref)
        for m in (1e-7, 1e-8, 3e-9):
            for _ in range(3):
                i = rng.below(n)
                a, c = ref[i], ref[(i + 1) % n]
                s = rng.uniform(0.2, 0.8)
                nrm = (c - a) * (-1j) / abs(c - a)           # outward for counter-clockwise polygons
                p = a + s * (c - a)
                if not b.winding_inside(ref, p - nrm * size * 1e-3):
                    nrm = -nrm
                qs.append([b.c2(p - nrm * size * m), True, m])
                qs.append([b.c2(p + nrm * size * m), False, m])
    return {'what': 'query', 'spec': spec, 'queries': qs}


def gen_min_dist_case(rng, kind, scale=0):
    b = B()
    spec = b.gen_spec(rng, [kind], scale)
    if kind == 'square':
        spec['rot'] = rng.choice([0.0, 90.0, 17.0])
    # candidate 1: the centre itself; candidate 2: 0.2236 radii away; candidate 3: 0.4 radii away
    draws = [0.5, 0.5, 0.6, 0.55, 0.7, 0.5] + b.gen_draws(rng, 30)
    d2 = math.hypot(0.2, 0.1)
    ratios = [0.0, 1e-300, 1e-15, 1e-9, 1e-6, d2 * (1 - 1e-6), d2 * (1 + 1e-6)]
    return {'what': 'min_dist', 'spec': spec, 'draws': draws, 'ratios': ratios}


def gen_cluster_seq(rng, ctype, vary, n=None, tiny=False):
    b = B()
    n = n or (rng.choice([4, 9]) if ctype == 'square' else rng.choice([3, 7, 13, 19]))
    R = b.gen_radius(rng)
    rot = b.gen_rot(rng)
    pos = b.gen_pos(rng)
    if pos == [0.0, 0.0] and vary == 'pos':
        pos = [round(rng.uniform(-10, 10), 3), round(rng.uniform(-10, 10), 3)]
    if tiny:
        f = 10.0 ** rng.choice([-9, -12, -15])
        R, pos = R * f, [pos[0] * f, pos[1] * f]
    seq = [{'n': n, 'R': R, 'rot': rot, 'pos': pos}]
    for k in range(rng.randint(2, 3)):
        last = dict(seq[-1])
        if vary == 'radius':
            last['R'] = last['R'] * (rng.choice([2.0, 0.5, 3.0, 0.1]) if tiny else 1 + rng.choice([1e-6, -1e-6, 3e-6, 5e-7]))
        elif vary == 'rotation':
            last['rot'] = last['rot'] + rng.choice([1e-4, -1e-4, 3e-5, 2e-4])
        else:
            s = (rng.choice([2.0, 0.5, -1.0]) if tiny else 1 + rng.choice([1e-6, -1e-6, 3e-6]))
            last['pos'] = [last['pos'][0] * s, last['pos'][1] * s]
        seq.append(last)
    return {'what': 'cluster', 'type': ctype, 'vary': vary + (':tiny' if tiny else ''), 'seq': seq}


def gen_pp_cases(rng):
    def uv(n):
        return ([rng.choice([0.0, 0.25, 1.0 - 2.0 ** -53, rng.uniform()]) for _ in range(n)], [rng.uniform() for _ in range(n)])
    out = []
    for vary, rmax, rmin in (('thin-annulus', 2.0, 2.0 * (1 - 1e-6)), ('thin-annulus', 5.0, 5.0 * (1 - 1e-9)),
                             ('tiny-radii', 3e-9, 1e-9), ('tiny-radii', 4e-13, 4e-14), ('min-radius-next-to-0', 1.0, 1e-9),
                             ('min-radius-next-to-0', 1.0, 1e-6), ('min-radius-next-to-0', 2.5, 1e-15), ('equal-radii', 3.0, 3.0)):
        u, v = uv(6)
        out.append({'what': 'pointprocess', 'pp': 'circle', 'vary': vary, 'rmax': rmax, 'rmin': rmin, 'u': u, 'v': v})
    for vary, w_, h_ in (('width-next-to-height', 1.0, 1.0 + 1e-6), ('width-next-to-height', 2.0 + 2e-6, 2.0),
                         ('tiny-sides', 1e-12, 3e-12), ('tiny-sides', 4e-9, 1e-15)):
        u, v = uv(6)
        out.append({'what': 'pointprocess', 'pp': 'rectangle', 'vary': vary, 'w': w_, 'h': h_, 'u': u, 'v': v})
    return out


def close_setter_history(rng, kind, tiny, must=()):
    """a cell history whose setter calls use values that are close to (but different from) the current ones: relative
    1e-6 .. 1e-7 at the unit scale; at scales 1e-9 .. 1e-15 factors of 2 .. 3 between numbers below any absolute 1e-8"""
    b = B()
    scale = rng.choice([-9, -12, -15]) if tiny else 0
    h = b.gen_history(rng, kind, scale=scale)
    init = h['init']
    f = 10.0 ** init.get('scale_exp', 0)
    wrapped = h.get('wrap') is not None
    base = init['kind']
    if base != 'rect' and (init['pos'] == [0.0, 0.0]):
        init['pos'] = [round(rng.uniform(-10, 10), 3) * f, round(rng.uniform(-10, 10), 3) * f]
    if base == 'rect' and b.spec_pos(init) == 0:
        init['first'] = [init['first'][0] + 3.0 * f, init['first'][1] - 2.0 * f]
        init['second'] = [init['second'][0] + 3.0 * f, init['second'][1] - 2.0 * f]
    h['ops'] = []
    kinds = list(must) + [rng.choice(['P', 'M', 'Q', 'R', 'R', 'T'] + (['W'] if wrapped else [])) for _ in range(rng.randint(1, 3))]
    if base != 'rect':
        kinds = ['U', 'B'] + kinds          # users that have to follow the (tiny) moves
    size0 = b.shape_size(init)
    for t in kinds:
        case_now = dict(h)
        pos, R, rot, wpos = b.hist_current(case_now)
        if t == 'U':
            h['ops'].append(['U', 0.5, rng.uniform(0, 360)])
        elif t == 'B':
            h['ops'].append(['B', float(rng.randint(-12, 12) * 30 + 7), 0.5])
        elif t == 'P':
            if tiny:
                z = pos * rng.choice([2.0, 0.5, 3.0]) + size0 * rng.choice([0.0, 1.0]) * b.cis(rng.uniform(0, 360))
            else:
                z = pos * (1 + rng.choice([1e-6, -1e-6, 3e-6])) if rng.chance(0.6) else pos + size0 * 1e-6 * b.cis(rng.uniform(0, 360))
            h['ops'].append(['P', z.real, z.imag])
        elif t == 'W':
            z = wpos * (2.0 if tiny else 1 + 1e-6) + (size0 * 1e-6 if wpos == 0 else 0.0)
            h['ops'].append(['W', z.real, z.imag])
        elif t == 'M':
            d = (abs(pos) + size0) * (rng.choice([1.0, 0.5]) if tiny else 1e-6) * b.cis(rng.uniform(0, 360))
            h['ops'].append(['M', d.real, d.imag])
        elif t == 'Q':
            h['ops'].append(['Q', (abs(pos) + size0) * (1.0 if tiny else 1e-6), rng.uniform(-3, 3)])
        elif t == 'R':
            h['ops'].append(['R', R * (rng.choice([2.0, 0.5, 3.0]) if tiny else 1 + rng.choice([1e-6, -1e-6, 3e-6, 5e-7]))])
        elif t == 'T':
            h['ops'].append(['T', rot + rng.choice([1e-4, -1e-4, 3e-5, 2e-4])])
    tspec = b.hist_current_spec(h)
    h['queries'] = b.gen_queries(rng, tspec, 4)
    h['angles'] = b.gen_angles(rng, tspec, 4)
    h['tag'] = 'R15:close-setter-values' + (':tiny' if tiny else '')
    return h


def close_setter_histories(rng, n_random):
    out = []
    for kind in ('hex', 'sec3', 'square', 'rect', 'wrap:hex', 'wrap:sec3', 'wrap:square'):
        for must in (['R'], ['P'], ['T'], ['M']):
            out.append(close_setter_history(rng, kind, False, must))
        for must in (['R'], ['P']):
            out.append(close_setter_history(rng, kind, True, must))
    for _ in range(n_random):
        out.append(close_setter_history(rng, rng.choice(['hex', 'sec3', 'square', 'rect', 'wrap:sec3', 'wrap:square']), rng.chance(0.4)))
    return out


def prefix_cases(h):
    """the history cut after every setter call (each call has to take effect, not only the last)"""
    out = []
    for i, op in enumerate(h['ops']):
        if op[0] in 'PMQRTW':
            c = dict(h)
            c['ops'] = h['ops'][:i + 1]
            out.append(c)
    return out


def close_cases(ctx, quick):
    """the deterministic R15 scenario set (quick) plus seeded ones (more of them in the thorough tier)"""
    rng = ctx.rng
    cases = []
    for kind in ('hex', 'sec3', 'square'):
        cases.append(gen_ratio_case(rng, kind, True))
        cases.append(gen_ratio_case(rng, kind, False))
    cases.append(dict(gen_ratio_case(rng, 'hex', True, -9)))
    for kind in ('rect', 'circle', 'wrap', 'sector', 'hexshape'):
        c = gen_ratio_case(rng, kind, True)
        c['users'] = False
        cases.append(c)
    for kind in ('hex', 'sec3', 'square', 'rect', 'circle', 'wrap', 'sector'):
        cases.append(gen_angle_case(rng, kind))
        cases.append(gen_query_case(rng, kind))
    cases.append(gen_angle_case(rng, 'hex', -12))
    cases.append(gen_query_case(rng, 'square', -9))
    for kind in ('hex', 'sec3', 'square', 'sector'):
        cases.append(gen_min_dist_case(rng, kind))
    cases.append(gen_min_dist_case(rng, 'hex', -12))
    for ctype in ('simple', '3sec', 'square'):
        for vary in ('radius', 'rotation', 'pos'):
            cases.append(gen_cluster_seq(rng, ctype, vary))
        cases.append(gen_cluster_seq(rng, ctype, 'radius', tiny=True))
    cases.append(gen_cluster_seq(rng, 'simple', 'radius', n=19))
    cases.append(gen_cluster_seq(rng, 'simple', 'rotation', n=7))
    cases += gen_pp_cases(rng)
    if not quick:
        for _ in range(60):
            kind = rng.choice(['hex', 'sec3', 'square', 'rect', 'circle', 'wrap', 'sector'])
            sc = rng.choice([0, 0, -9, -12, 6])
            cases.append(gen_angle_case(rng, kind, sc))
            cases.append(gen_query_case(rng, kind, sc))
            c = gen_ratio_case(rng, kind, rng.chance(0.5), sc)
            c['users'] = kind in ('hex', 'sec3', 'square')
            cases.append(c)
            cases.append(gen_cluster_seq(rng, rng.choice(['simple', '3sec', 'square']), rng.choice(['radius', 'rotation', 'pos']),
                                         tiny=rng.chance(0.3)))
            cases.append(gen_min_dist_case(rng, rng.choice(['hex', 'sec3', 'square', 'sector']), rng.choice([0, -9, 9])))
    return cases


def close_key(case):
    return ('close', case['what'], repr({k: v for k, v in case.items() if k not in ('draws',)})[:400])


def close_oracles(ctx):
    b = B()
    quick = ctx.tier == 'quick'
    for case in close_cases(ctx, quick):
        case = dict(case, tag='R15:' + case['what'])
        b.run_oracle(ctx, 'close_values', case, key=close_key(case))
        ctx.branch('R15:oracle:' + case['what'])
    for h in close_setter_histories(ctx.rng, 6 if quick else 200):
        for c in prefix_cases(h):
            b.run_oracle(ctx, 'setter_history', c, key=('close-setter', repr(c['init']), repr(c['ops']), repr(c.get('wrap'))))
            ctx.branch('R15:oracle:setter' + (':tiny' if h['tag'].endswith('tiny') else ''))


# ------------------------------------------------------------------ R15 correspondence
class Plan:
    """driver requests of many cases, asked in ONE batch (a driver call is a process start)"""

    def __init__(self):
        self.items = []

    def add(self, lines, handler):
        self.items.append((list(lines), handler))

    def run(self, drv):
        outs = drv.ask([l for ls, _ in self.items for l in ls])
        i = 0
        for ls, h in self.items:
            h(outs[i:i + len(ls)])
            i += len(ls)


def plan_ratio(ctx, plan, case):
    b = B()
    f = core.f2s
    spec = case['spec']
    sl = b.spec_line(spec)
    c = centre_of(spec)
    lines, jobs = [], []
    for ang in case['angles']:
        for r in case['ratios']:
            apis = ['get_border_point'] if 0.0 <= r <= 1.0 else []
            if case.get('users', True) and b.base_kind(spec) in ('hex', 'sec3', 'square'):
                apis.append('add_border_user')
            for api in apis:
                sh = b.make_shape(spec)
                try:
                    if api == 'get_border_point':
                        p = complex(sh.get_border_point(ang, r))
                    else:
                        sh.add_border_user(ang, r)
                        p = complex(sh.users[-1].pos)
                    impl = None
                except ValueError:
                    p, impl = None, 'error:ValueError'
                lines.append('%s %s %s %s' % ('border' if api == 'get_border_point' else 'borderuser', sl, f(ang), f(r)))
                jobs.append((api, ang, r, p, impl))

    def handle(outs):
        for (api, ang, r, p, impl), m in zip(jobs, outs):
            key = ('c15r', api, repr(spec), ang, r)
            if impl is None and not m.startswith('error'):
                mp = b.fpts(m)[0]
                # relative to the distance of the point from the centre: a ratio of 1e-12 is compared at 1e-9 of ITS size
                ok = abs(p - mp) <= 1e-9 * abs(mp - c) + rounding(spec, abs(r))
                ctx.corr('close.ratio.' + api, {'spec': spec, 'angle': ang, 'ratio': r}, 'match' if ok else repr(p),
                         'match' if ok else repr(mp), key=key)
            else:
                ctx.corr('close.ratio.' + api, {'spec': spec, 'angle': ang, 'ratio': r}, impl if impl is not None else 'placed',
                         m if m.startswith('error') else 'placed', key=key)
        ctx.branch('R15:corr:ratio')
    plan.add(lines, handle)


def plan_angle(ctx, plan, case):
    b = B()
    f = core.f2s
    spec = case['spec']
    sl = b.spec_line(spec)
    c = centre_of(spec)
    sh = b.make_shape(spec)
    pts = [complex(sh.get_border_point(a, case['ratio'])) for a in case['angles']]

    def handle(outs):
        for a, p, m in zip(case['angles'], pts, outs):
            mp = b.fpts(m)[0] if not m.startswith('error') else None
            # two of the close directions differ by >= 5e-11 of the distance: compared at 1e-11
            ok = mp is not None and abs(p - mp) <= 1e-11 * (abs(mp - c) + b.shape_size(spec)) + rounding(spec, case['ratio'])
            ctx.corr('close.angle', {'spec': spec, 'angle': a, 'ratio': case['ratio']}, 'match' if ok else repr(p),
                     'match' if ok else m, key=('c15a', repr(spec), a))
        ctx.branch('R15:corr:angle')
    plan.add(['border %s %s %s' % (sl, f(a), f(case['ratio'])) for a in case['angles']], handle)


def plan_query(ctx, plan, case):
    b = B()
    spec = case['spec']
    sh = b.make_shape(spec)
    got = ['1' if sh.is_point_inside_shape(b.cx(q)) else '0' for q, _, _ in case['queries']]

    def handle(outs):
        for (q, exp, m_), g, m in zip(case['queries'], got, outs[0].split(',')):
            ctx.corr('close.query', {'spec': spec, 'q': q}, g, m, key=('c15q', repr(spec), repr(q)))
        ctx.branch('R15:corr:query')
    plan.add(['inside %s %s' % (b.spec_line(spec), b.qline([q for q, _, _ in case['queries']]))], handle)


def plan_min_dist(ctx, plan, case):
    b = B()
    shapes, cell, pp = b._mods()
    f = core.f2s
    spec = case['spec']
    impls = []
    for ratio in case['ratios']:
        if spec['kind'] == 'sector':
            c3 = cell.Cell3Sec(b.cx(spec['pos']), spec['R'], rotation=spec['rot'])

            def add():
                c3.add_random_user_in_sector(spec['k'] + 1, None, ratio)
                return complex(c3.users[-1].pos)
        else:
            sh = b.make_shape(spec)

            def add():
                sh.add_random_user(None, ratio)
                return complex(sh.users[-1].pos)
        with b.scripted_random(case['draws']) as s_:
            try:
                p = add()
                impls.append((p, s_.i // 2))
            except b.StreamEnd:
                impls.append(None)

    def handle(outs):
        for ratio, impl, m in zip(case['ratios'], impls, outs):
            key = ('c15m', repr(spec), ratio)
            if impl is None or m == 'none':
                ctx.corr('close.min_dist', {'spec': spec, 'ratio': ratio}, 'none' if impl is None else 'placed',
                         'none' if m == 'none' else 'placed', key=key)
                continue
            mp, mn = m.split()
            ok = int(mn) == impl[1] and abs(b.fpts(mp)[0] - impl[0]) <= b.TOL * b.spec_scale(spec)
            ctx.corr('close.min_dist', {'spec': spec, 'ratio': ratio, 'draws': case['draws'][:6]}, 'match' if ok else repr(impl),
                     'match' if ok else m, key=key)
        ctx.branch('R15:corr:min_dist')
    plan.add(['randuser %s %s %s' % (b.spec_line(spec), f(ratio), ','.join(f(d) for d in case['draws'])) for ratio in case['ratios']],
             handle)


def plan_cluster(ctx, plan, case):
    b = B()
    shapes, cell, pp = b._mods()
    f = core.f2s
    ctype = case['type']
    built = []
    for par in case['seq']:
        cl = cell.Cluster(cell_radius=par['R'], num_cells=par['n'], pos=b.cx(par['pos']), cell_type=ctype, rotation=par['rot'])
        built.append([complex(c_.pos) for c_ in cl])
    if ctype == 'square':
        lines = ['cluster square %d %s %s %s %s' % (par['n'], f(par['R']), f(par['rot']), f(par['pos'][0]), f(par['pos'][1]))
                 for par in case['seq']]
    else:       # the model threads its own cache through the sequence
        lines = ['clusterseq ' + ';'.join('%d:%s:%s:%s:%s' % (par['n'], f(par['R']), f(par['rot']), f(par['pos'][0]), f(par['pos'][1]))
                                          for par in case['seq'])]

    def handle(outs):
        ms = outs if ctype == 'square' else outs[0].split('|')
        for i, (par, cen, m) in enumerate(zip(case['seq'], built, ms)):
            mc = b.fpts(m)
            ok = b.pts_close(cen, mc, b.TOL * (6 * par['R'] + 1e-3 * abs(b.cx(par['pos']))))
            ctx.corr('close.cluster.' + ctype, {'seq': case['seq'], 'index': i}, 'match' if ok else repr(cen[:3]),
                     'match' if ok else repr(mc[:3]), key=('c15c', ctype, repr(case['seq']), i))
        ctx.branch('R15:corr:cluster')
    plan.add(lines, handle)


def plan_pp(ctx, plan, case):
    b = B()
    shapes, cell, pp = b._mods()
    f = core.f2s
    n = len(case['u'])
    with b.scripted_random(case['u'] + case['v']):
        if case['pp'] == 'circle':
            pts = [complex(z) for z in pp.generate_random_points_in_circle(n, case['rmax'], case['rmin'])]
            line = 'ppcircle %s %s %s %s' % (f(case['rmax']), f(case['rmin']), ','.join(map(f, case['u'])), ','.join(map(f, case['v'])))
            sc = case['rmax']
        else:
            pts = [complex(z) for z in pp.generate_random_points_in_rectangle(n, case['w'], case['h'])]
            line = 'pprect %s %s %s %s' % (f(case['w']), f(case['h']), ','.join(map(f, case['u'])), ','.join(map(f, case['v'])))
            sc = max(case['w'], case['h'])

    def handle(outs):
        mp = b.fpts(outs[0])
        ok = b.pts_close(pts, mp, 1e-12 * sc)
        ctx.corr('close.pointprocess.' + case['pp'], dict(case), 'match' if ok else repr(pts[:3]), 'match' if ok else repr(mp[:3]),
                 key=('c15p', repr(case)[:300]))
        ctx.branch('R15:corr:pointprocess')
    plan.add([line], handle)


def plan_setter(ctx, plan, case):
    """the state-machine model after the same (close-valued) setter calls: vertices, stored attributes, users, sector
    cells, and one border point"""
    b = B()
    f = core.f2s
    hl = b.hist_line(case)
    if hl is None:
        return
    kind = b.hist_kind(case)
    name = ('wrap:' if case.get('wrap') is not None else '') + kind
    ckey = (repr(case['init']), repr(case['ops']), repr(case.get('wrap')))
    try:
        obj, wrap, _ = b.hist_build(case)
    except Exception as e:
        ctx.corr('close.setter.calls.' + name, case, 'exception:%s:%s' % (type(e).__name__, str(e)[:80]), 'accepted', key=('c15s-x',) + ckey)
        return
    target = wrap if wrap is not None else obj
    tspec = b.hist_current_spec(case)
    tol = b.TOL * b.spec_scale(tspec)
    verts = [complex(v) for v in np.asarray(target.vertices)]
    ang = case['angles'][0][0]
    try:
        bp = complex(target.get_border_point(ang, 1.0))
    except ValueError:
        bp = None
    lines = [hl + ' verts', '%s border %s %s' % (hl, f(ang), f(1.0))]
    state = users = secs = None
    if wrap is None:
        lines += [hl + ' state', hl + ' users']
        state = (complex(obj.pos), float(obj.radius), float(complex(obj.rotation).real))
        users = [complex(u.pos) for u in obj.users]
        if kind == 'sec3':
            lines.append(hl + ' secinfo')
            secs = [(complex(s_.pos), float(s_.radius), float(complex(s_.rotation).real)) for s_ in (obj._sec1, obj._sec2, obj._sec3)]

    def handle(outs):
        mv = b.fpts(outs[0])
        ok = b.pts_close(verts, mv, tol)
        ctx.corr('close.setter.vertices.' + name, case, 'match' if ok else repr(verts[:4]), 'match' if ok else repr(mv[:4]),
                 key=('c15s-v',) + ckey)
        mb = b.fpts(outs[1])[0] if not outs[1].startswith('error') else None
        ok = (bp is None and mb is None) or (bp is not None and mb is not None and abs(bp - mb) <= tol)
        ctx.corr('close.setter.border.' + name, case, 'match' if ok else repr(bp), 'match' if ok else outs[1], key=('c15s-b',) + ckey)
        if wrap is None:
            m = outs[2].split()
            ok = (abs(b.fpts(m[0])[0] - state[0]) <= tol and b.rclose(core.s2f(m[1]), state[1], 1e-12)
                  and b.rclose(core.s2f(m[2]), state[2], 1e-12))
            ctx.corr('close.setter.attributes.' + name, case, 'match' if ok else repr(state), 'match' if ok else repr(m),
                     key=('c15s-a',) + ckey)
            mu = b.fpts(outs[3]) if outs[3] != '-' else []
            ok = b.pts_close(users, mu, tol)
            ctx.corr('close.setter.users.' + name, case, 'match' if ok else repr(users[:4]), 'match' if ok else repr(mu[:4]),
                     key=('c15s-u',) + ckey)
            if secs is not None:
                ms = outs[4].split(';')
                ok = len(ms) == 3
                for sec, t in zip(secs, ms):
                    v = [core.s2f(x) for x in t.split(',')]
                    ok = ok and abs(complex(v[0], v[1]) - sec[0]) <= tol and b.rclose(v[2], sec[1], 1e-12) and b.rclose(v[3], sec[2], 1e-12)
                ctx.corr('close.setter.sectors', case, 'match' if ok else repr(secs), 'match' if ok else repr(ms), key=('c15s-s',) + ckey)
    plan.add(lines, handle)


PLANNERS = {'ratio': plan_ratio, 'angle': plan_angle, 'query': plan_query, 'min_dist': plan_min_dist, 'cluster': plan_cluster,
            'pointprocess': plan_pp}


def close_corr(ctx, drv):
    quick = ctx.tier == 'quick'
    plan = Plan()
    for case in close_cases(ctx, quick):
        PLANNERS[case['what']](ctx, plan, case)
    # setters with close values: the state-machine model after every prefix of the history
    for h in close_setter_histories(ctx.rng, 6 if quick else 200):
        if h['init']['kind'] == 'rect':
            continue              # a plain Rectangle has no state-machine model (oracle only)
        for c in prefix_cases(h):
            plan_setter(ctx, plan, c)
        ctx.branch('R15:corr:setter' + (':tiny' if h['tag'].endswith('tiny') else ''))
    plan.run(drv)


# ------------------------------------------------------------------ R16
class Buffer:
    """ONE preallocated container that the caller refills in place before every call"""

    def __init__(self, container, n, dtype):
        self.container = container
        if container == 'ndarray':
            self.obj = np.zeros(n, dtype=dtype)
        elif container == 'list':
            self.obj = [dtype(0)] * n
        elif container == '0-d':
            self.obj = np.zeros((), dtype=dtype)
        else:
            raise ValueError(container)
        self.dtype = dtype

    def fill(self, vals):
        if self.container == 'ndarray':
            self.obj[...] = vals
        elif self.container == 'list':
            self.obj[:] = [self.dtype(v) for v in vals]
        else:
            self.obj[...] = vals[0]
        return self.obj

    def holds(self, vals):
        """does the container still hold what the caller put in? (a call must not write into its argument)"""
        if self.container == 'list':
            return list(self.obj) == [self.dtype(v) for v in vals]
        if self.container == '0-d':
            return self.obj[()] == self.dtype(vals[0])
        return np.array_equal(self.obj, np.array(vals, dtype=self.dtype))

    def scribble(self, val):
        if self.container == 'list':
            self.obj[:] = [self.dtype(val)] * len(self.obj)
        else:
            self.obj[...] = val


def o_buffer(case):
    b = B()
    w = b.quiet()
    try:
        return _o_buffer(case)
    except b.StreamEnd:
        return None
    except Exception as e:
        return 'buffer:%s:%s:raises:%s' % (case['api'], case['scenario'], type(e).__name__), repr(e)[:200]
    finally:
        w.__exit__(None, None, None)


def cplx(vals):
    return np.array([complex(v[0], v[1]) for v in vals], dtype=complex)


def expected_border_users(spec, calls):
    """first principles: one user per (angle, ratio) of every call, at ratio x the point where the ray leaves the cell"""
    b = B()
    c = centre_of(spec)
    out = []
    for angs, rats in calls:
        for a, r in zip(angs, rats):
            reff = 1.0 - 1e-15 if r == 1.0 else r
            out.append(c + reff * ray_hit(spec, a) * b.cis(a))
    return out


def _o_buffer(case):
    b = B()
    shapes, cell, pp = b._mods()
    api, scen = case['api'], case['scenario']
    cls = 'buffer:%s:%s' % (api, scen)
    if api in ('calc_rotated_pos', 'from_complex_array_to_real_matrix'):
        shape = tuple(case['shape'])
        n = int(np.prod(shape))
        container = case.get('container', 'ndarray')
        if container == 'strided-view':            # the buffer is every second element of a larger work array
            big = np.zeros(2 * n, dtype=complex)
            buf = big[::2].reshape(shape)
        else:
            buf = np.zeros(shape, dtype=complex)
        outs, snaps, exps = [], [], []
        for vals, ang in zip(case['contents'], case['angles']):
            content = cplx(vals).reshape(shape)
            buf[...] = content
            if api == 'calc_rotated_pos':
                out = shapes.Shape.calc_rotated_pos(buf, ang)
                exps.append(content * b.cis(ang))
            else:
                out = shapes.from_complex_array_to_real_matrix(buf)
                exps.append(np.column_stack([content.ravel().real, content.ravel().imag]))
            outs.append(out)
            snaps.append(np.array(out, copy=True))
            if not np.array_equal(buf, content):
                return cls + ':argument-modified', 'the argument buffer was modified by the call'
        buf[...] = 1e300                          # the caller overwrites the argument right after the last call
        for k, (out, snap, exp) in enumerate(zip(outs, snaps, exps)):
            o_ = np.asarray(out)
            scale = max(float(np.max(np.abs(exp))) if exp.size else 0.0, 0.0)
            if snap.shape != exp.shape or (exp.size and np.max(np.abs(snap - exp)) > 1e-12 * scale):
                return cls + ':call-%d-of-%d:stale-or-wrong' % (k + 1, len(outs)), (
                    'call %d with the refilled buffer returned %s, the contents at call time give %s'
                    % (k + 1, snap.ravel()[:3], exp.ravel()[:3]))
            if not np.array_equal(o_, snap):
                return cls + ':earlier-result-changed', ('the result of call %d changed after the buffer was refilled / later calls '
                                                         'were made: %s -> %s' % (k + 1, snap.ravel()[:3], o_.ravel()[:3]))
        return None
    if api == 'add_border_user':
        spec = case['spec']
        kind = spec['kind']
        sc = b.spec_scale(spec)
        m = len(case['calls'][0][0])
        container = case.get('container', 'ndarray')
        obj = b.make_shape(spec)
        if scen == 'same-object-two-roles':
            # ONE array is angles (degrees) AND ratios: values in [0, 1]
            buf = Buffer(container, m, float)
            calls = []
            for vals, _ in case['calls']:
                arg = buf.fill(vals)
                obj.add_border_user(arg, arg)
                if not buf.holds(vals):
                    return cls + ':' + kind + ':argument-modified', 'add_border_user wrote into its argument: %r -> %r' % (vals, list(buf.obj))
                calls.append((vals, vals))
            buf.scribble(0.77)
        else:
            ba, br = Buffer(container, m, float), Buffer(container, m, float)
            bc = ['k'] * m
            calls = []
            for j, (angs, rats) in enumerate(case['calls']):
                a_, r_ = ba.fill(angs), br.fill(rats)
                if case.get('colors'):
                    bc[:] = case['colors'][j]
                    obj.add_border_user(a_, r_, bc)
                else:
                    obj.add_border_user(a_, r_)
                if not ba.holds(angs) or not br.holds(rats):
                    return cls + ':' + kind + ':argument-modified', ('add_border_user wrote into its arguments: angles %r -> %r, ratios %r -> %r'
                                                                      % (angs, list(ba.obj), rats, list(br.obj)))
                calls.append((angs, rats))
                if scen == 'modified-after-call':
                    ba.scribble(123.0)
                    br.scribble(0.011)
                    bc[:] = ['w'] * m
            ba.scribble(-45.0)
            br.scribble(0.9)
            bc[:] = ['w'] * m
        exp = expected_border_users(spec, calls)
        got = [complex(u.pos) for u in obj.users]
        if len(got) != len(exp):
            return cls + ':' + kind + ':count', '%d users after %d calls of %d angles' % (len(got), len(calls), m)
        for i, (g, e) in enumerate(zip(got, exp)):
            if abs(g - e) > b.TOL * sc:
                return cls + ':%s:call-%d-of-%d' % (kind, i // m + 1, len(calls)), (
                    'user %d (call %d, angle %r, ratio %r) is at %r; the contents of the buffers at call time give %r'
                    % (i, i // m + 1, calls[i // m][0][i % m], calls[i // m][1][i % m], g, e))
        if case.get('colors'):
            want = [c_ for cs_ in case['colors'] for c_ in cs_]
            if [u.marker_color for u in obj.users] != want:
                return cls + ':' + kind + ':colour', 'colours %s, at call time %s' % ([u.marker_color for u in obj.users], want)
        return None
    if api == 'scalar_buffer':
        # 0-d arrays refilled between calls of get_border_point / is_point_inside_shape / add_border_user
        spec = case['spec']
        sc = b.spec_scale(spec)
        obj = b.make_shape(spec)
        a0, r0, q0 = np.zeros(()), np.zeros(()), np.zeros((), dtype=complex)
        ref = b.ref_vertices(spec)
        c = centre_of(spec)
        res = []
        for ang, rat, q in case['calls']:
            a0[...] = ang
            r0[...] = rat
            q0[...] = b.cx(q)
            res.append((complex(obj.get_border_point(a0, r0)), bool(obj.is_point_inside_shape(q0))))
            if case.get('users'):
                obj.add_border_user(a0, r0)
        a0[...] = 1e3
        r0[...] = 0.0
        q0[...] = 1e300
        for k, ((ang, rat, q), (p, ins)) in enumerate(zip(case['calls'], res)):
            e = c + rat * ray_hit(spec, ang) * b.cis(ang)
            if abs(p - e) > b.TOL * sc:
                return cls + ':get_border_point:call-%d' % (k + 1), 'call %d (angle %r ratio %r) gave %r, expected %r' % (k + 1, ang, rat, p, e)
            exp_in, margin = b.shape_contains_ref(spec, ref, b.cx(q))
            if margin > 1e-9 * sc and ins != exp_in:
                return cls + ':is_point_inside_shape:call-%d' % (k + 1), 'call %d: point %r reported %s' % (k + 1, b.cx(q), ins)
        if case.get('users'):
            exp = expected_border_users(spec, [([a], [r]) for a, r, _ in case['calls']])
            got = [complex(u.pos) for u in obj.users]
            if len(got) != len(exp) or any(abs(g - e) > b.TOL * sc for g, e in zip(got, exp)):
                return cls + ':add_border_user', 'users %s, expected %s' % (got[:3], exp[:3])
        return None
    if api in ('Cluster.add_random_users', 'Cluster.add_border_users', 'Cluster.delete_all_users'):
        ctype, n, R, rot = case['type'], case['n'], case['R'], case['rot']
        pos = b.cx(case['pos'])
        sc = 6 * R + 1e-3 * abs(pos)
        container = case.get('container', 'ndarray')
        cl = cell.Cluster(R, n, pos, None, ctype, rot)
        tw = cell.Cluster(R, n, pos, None, ctype, rot)           # the twin receives fresh python lists of the same contents
        m = len(case['calls'][0]['ids'])
        bi, bn, br, ba = Buffer(container, m, int), Buffer(container, m, int), Buffer(container, m, float), Buffer(container, m, float)
        if api == 'Cluster.add_random_users':
            with b.scripted_random(case['draws']):
                for call in case['calls']:
                    if scen == 'same-object-two-roles':
                        arg = bi.fill(call['ids'])
                        cl.add_random_users(arg, arg, None, br.fill(call['ratios']))
                    else:
                        cl.add_random_users(bi.fill(call['ids']), bn.fill(call['nums']), None, br.fill(call['ratios']))
                        if not (bi.holds(call['ids']) and bn.holds(call['nums']) and br.holds(call['ratios'])):
                            return cls + ':' + ctype + ':argument-modified', 'Cluster.add_random_users wrote into its arguments'
                    if scen == 'modified-after-call':
                        bi.scribble(1)
                        bn.scribble(3)
                        br.scribble(0.6)
            bi.scribble(1)
            bn.scribble(0)
            br.scribble(0.0)
            reqs = [(i_, (i_ if scen == 'same-object-two-roles' else k_), r_) for call in case['calls']
                    for i_, k_, r_ in zip(call['ids'], call['nums'], call['ratios'])]
            with b.scripted_random(case['draws']):
                for i_, k_, r_ in reqs:
                    tw.get_cell_by_id(int(i_)).add_random_users(int(k_), None, float(r_))
            # first principles per request: count, inside the cell, not closer than ITS ratio
            taken = {}
            for i_, k_, r_ in reqs:
                c_ = cl.get_cell_by_id(i_)
                cref = b.ref_vertices(b.cell_spec(ctype, R, rot, complex(c_.pos)))
                k0 = taken.get(i_, 0)
                us = c_.users[k0:k0 + k_]
                if len(us) != k_:
                    return cls + ':' + ctype + ':count', 'cell %d has %d users where the requests at call time ask for more' % (i_, c_.num_users)
                for u in us:
                    r = b.check_user(cell, u, cref, complex(c_.pos), float(c_.radius), r_, None, c_.id, sc)
                    if r is not None:
                        return cls + ':' + ctype + ':' + r[0], r[1] + ' (request: cell %d, %d users, ratio %r)' % (i_, k_, r_)
                taken[i_] = k0 + k_
            if cl.num_users != sum(k_ for _, k_, _ in reqs):
                return cls + ':' + ctype + ':count', '%d users in the cluster, the requests at call time ask for %d' % (
                    cl.num_users, sum(k_ for _, k_, _ in reqs))
        elif api == 'Cluster.add_border_users':
            for call in case['calls']:
                if scen == 'same-object-two-roles':
                    arg = bi.fill(call['ids'])           # ids == angles (degrees) == ratios: the single array [1]
                    cl.add_border_users(arg, arg, arg)
                else:
                    cl.add_border_users(bi.fill(call['ids']), ba.fill(call['angles']), br.fill(call['ratios']))
                    if not (bi.holds(call['ids']) and ba.holds(call['angles']) and br.holds(call['ratios'])):
                        return cls + ':' + ctype + ':argument-modified', 'Cluster.add_border_users wrote into its arguments'
                if scen == 'modified-after-call':
                    bi.scribble(1)
                    ba.scribble(10.0)
                    br.scribble(0.2)
            bi.scribble(1)
            ba.scribble(0.0)
            br.scribble(0.1)
            for call in case['calls']:
                for i_, a_, r_ in zip(call['ids'], call['angles'], call['ratios']):
                    tw.get_cell_by_id(int(i_)).add_border_user(float(a_), float(r_))
            for c_ in cl:
                spec = b.cell_spec(ctype, R, rot, complex(c_.pos))
                mine = [([a_], [r_]) for call in case['calls'] for i_, a_, r_ in zip(call['ids'], call['angles'], call['ratios']) if i_ == c_.id]
                exp = expected_border_users(spec, mine)
                got = [complex(u.pos) for u in c_.users]
                if len(got) != len(exp) or any(abs(g - e) > b.TOL * sc for g, e in zip(got, exp)):
                    return cls + ':' + ctype + ':users', 'cell %s: users %s, the contents at call time give %s' % (c_.id, got[:3], exp[:3])
        else:
            with b.scripted_random(case['draws']):
                cl.add_random_users(None, 1)
            alive = set(range(1, n + 1))
            for call in case['calls']:
                cl.delete_all_users(bi.fill(call['ids']))
                alive -= set(call['ids'])
                if scen == 'modified-after-call':
                    bi.scribble(n)
                have = {c_.id for c_ in cl if c_.num_users}
                if have != alive:
                    return cls + ':' + ctype, 'after delete_all_users(%r) the cells with users are %s, expected %s' % (
                        call['ids'], sorted(have), sorted(alive))
            return None
        # equal contents in different objects: the twin
        for x, y in zip(cl, tw):
            px, py = [complex(u.pos) for u in x.users], [complex(u.pos) for u in y.users]
            if len(px) != len(py) or any(abs(u - v) > 1e-12 * sc for u, v in zip(px, py)):
                return cls + ':' + ctype + ':differs-from-fresh-lists', (
                    'cell %s: %s with the refilled buffers, %s when every call is given fresh lists of the same contents' % (x.id, px[:2], py[:2]))
        return None
    if api == 'add_user':
        # ONE Node object: offered, rejected (outside), given a new position by the caller, offered again
        spec = case['spec']
        sc = b.spec_scale(spec)
        ref = b.ref_vertices(spec)
        obj = b.make_shape(spec)
        node = cell.Node(0j)
        n_ok = 0
        for q in case['points']:
            p = b.cx(q)
            if b.boundary_dist(ref, p) < 1e-9 * sc:
                continue
            node.pos = p
            exp = b.winding_inside(ref, p)
            try:
                obj.add_user(node, relative_pos_bool=False)
                got = True
            except ValueError:
                got = False
            if got != exp:
                return cls + ':' + spec['kind'], ('the reused Node at %r was %s; the point is %s the cell (earlier offers: %r)'
                                                  % (p, 'accepted' if got else 'rejected', 'inside' if exp else 'outside', case['points']))
            if got:
                n_ok += 1
                if abs(complex(obj.users[-1].pos) - p) > b.TOL * sc or obj.users[-1] is not node:
                    return cls + ':' + spec['kind'] + ':position', 'user at %r, the Node was offered at %r' % (obj.users[-1].pos, p)
                node = cell.Node(0j)          # an accepted Node belongs to the cell: the caller goes on with another one
            elif complex(node.pos) != p:
                return cls + ':' + spec['kind'] + ':argument-changed', 'the rejected Node was moved to %r' % (node.pos,)
        if obj.num_users != n_ok:
            return cls + ':' + spec['kind'] + ':count', '%d users after %d accepted offers' % (obj.num_users, n_ok)
        # equal contents in another object
        tw = b.make_shape(spec)
        for q in case['points']:
            try:
                tw.add_user(cell.Node(b.cx(q)), relative_pos_bool=False)
            except ValueError:
                pass
        if [complex(u.pos) for u in tw.users] != [complex(u.pos) for u in obj.users] and not any(
                b.boundary_dist(ref, b.cx(q)) < 1e-9 * sc for q in case['points']):
            return cls + ':' + spec['kind'] + ':differs-from-fresh-nodes', 'users %s, with a fresh Node per offer %s' % (
                [u.pos for u in obj.users][:3], [u.pos for u in tw.users][:3])
        return None
    if api == 'same_object':
        spec = case['spec']
        obj = b.make_shape(spec)
        if float(obj.calc_dist(obj)) != 0.0:
            return cls + ':calc_dist', 'calc_dist(self) = %r' % obj.calc_dist(obj)
        # the vertices handed out by the object as the argument of the static helpers
        v = obj.vertices
        keep = np.array(v, copy=True)
        out = shapes.Shape.calc_rotated_pos(v, case['angle'])
        mat = shapes.from_complex_array_to_real_matrix(v)
        v2 = np.asarray(obj.vertices)
        if not np.array_equal(v, keep) or not np.array_equal(v2, keep):
            return cls + ':vertices-changed', 'using the returned vertices as an argument changed them / the object'
        if np.max(np.abs(np.asarray(out) - keep * b.cis(case['angle']))) > 1e-12 * np.max(np.abs(keep)) or \
                not np.array_equal(np.asarray(mat), np.column_stack([keep.real, keep.imag])):
            return cls + ':result', 'calc_rotated_pos / from_complex_array_to_real_matrix of the vertices are wrong'
        return None
    raise KeyError(api)


ORACLES['buffer_reuse'] = o_buffer


def gen_buffer_cases(rng, quick):
    b = B()
    cases = []
    # the two array functions: 2-4 calls; equal angles with different contents and equal contents with different angles
    for api in ('calc_rotated_pos', 'from_complex_array_to_real_matrix'):
        for shape, container in (([5], 'ndarray'), ([2, 3], 'ndarray'), ([1], 'ndarray'), ([4], 'strided-view')):
            k = rng.randint(2, 4)
            n = int(np.prod(shape))
            contents = [[[round(rng.uniform(-9, 9), 3), round(rng.uniform(-9, 9), 3)] for _ in range(n)] for _ in range(k)]
            angles = [b.gen_rot(rng) for _ in range(k)]
            angles[1] = angles[0]                     # same angle, new contents
            if k > 2:
                contents[2] = contents[1]             # same contents, new angle
            cases.append({'api': api, 'scenario': 'refilled-in-place:' + container, 'shape': shape, 'container': container,
                          'contents': contents, 'angles': angles})
    for kind in ('hex', 'sec3', 'square'):
        for scen, container in (('refilled-in-place', 'ndarray'), ('refilled-in-place', 'list'), ('modified-after-call', 'ndarray'),
                                ('same-object-two-roles', 'ndarray')):
            spec = b.gen_spec(rng, [kind], 0)
            k, m = rng.randint(2, 4), rng.randint(1, 3)
            if scen == 'same-object-two-roles':
                calls = [[[rng.choice([0.25, 0.5, 1.0, 0.75, 0.125]) for _ in range(m)], None] for _ in range(k)]
            else:
                calls = [[[float(rng.randint(-24, 24) * 15 + rng.choice([0, 7])) for _ in range(m)],
                          [rng.choice([0.5, 1.0, 0.25, 0.9]) for _ in range(m)]] for _ in range(k)]
            c = {'api': 'add_border_user', 'scenario': scen, 'container': container, 'spec': spec, 'calls': calls}
            if scen == 'refilled-in-place' and container == 'list':
                c['colors'] = [[rng.choice(b.COLORS) for _ in range(m)] for _ in range(k)]
            cases.append(c)
    for kind in ('hex', 'sec3', 'square'):
        spec = b.gen_spec(rng, [kind], 0)
        size = b.shape_size(spec)
        pts = []
        for _ in range(rng.randint(3, 6)):      # outside, outside, inside, ...: rejected offers precede accepted ones
            far = rng.chance(0.5)
            pts.append(b.c2(b.cx(spec['pos']) + size * (rng.uniform(1.5, 4.0) if far else rng.uniform(0.0, 0.45)) * b.cis(rng.uniform(0, 360))))
        pts[0] = b.c2(b.cx(spec['pos']) + 3.0 * size)
        pts[-1] = b.c2(b.cx(spec['pos']) + 0.2 * size * b.cis(rng.uniform(0, 360)))
        cases.append({'api': 'add_user', 'scenario': 'refilled-in-place:Node', 'spec': spec, 'points': pts})
    for kind in ('hex', 'sec3', 'square', 'rect', 'circle', 'wrap', 'sector'):
        spec = b.gen_spec(rng, [kind], 0)
        calls = [[round(rng.uniform(-360, 360), 2), rng.choice([0.5, 1.0, 0.25]), b.gen_queries(rng, spec, 1)[0]] for _ in range(rng.randint(2, 4))]
        cases.append({'api': 'scalar_buffer', 'scenario': '0-d-refilled', 'spec': spec, 'calls': calls,
                      'users': kind in ('hex', 'sec3', 'square')})
        if kind == 'sector':
            continue
        cases.append({'api': 'same_object', 'scenario': 'object-in-two-roles', 'spec': spec, 'angle': b.gen_rot(rng)})
    for ctype, n in (('simple', 7), ('3sec', 3), ('square', 4)):
        base = {'type': ctype, 'n': n, 'R': b.gen_radius(rng), 'rot': b.gen_rot(rng), 'pos': b.gen_pos(rng)}
        maxr = 0.45 if ctype == 'square' else 0.7
        for scen, container in (('refilled-in-place', 'ndarray'), ('refilled-in-place', 'list'), ('modified-after-call', 'ndarray'),
                                ('same-object-two-roles', 'ndarray')):
            m = rng.randint(2, 3)
            k = rng.randint(2, 3)
            calls = [{'ids': [rng.randint(1, n) for _ in range(m)], 'nums': [rng.randint(0, 2) for _ in range(m)],
                      'ratios': [rng.choice([0.0, 0.3, maxr]) for _ in range(m)]} for _ in range(k)]
            calls[0]['nums'][0] = max(1, calls[0]['nums'][0])
            calls[1]['nums'][-1] = 2
            calls[1]['ratios'][-1] = maxr
            cases.append(dict(base, api='Cluster.add_random_users', scenario=scen, container=container, calls=calls,
                              draws=[rng.uniform() for _ in range(2400)]))
            if scen == 'same-object-two-roles':
                bc = [{'ids': [1], 'angles': [1.0], 'ratios': [1.0]} for _ in range(2)]
            else:
                bc = [{'ids': [rng.randint(1, n) for _ in range(m)], 'angles': [float(rng.randint(-12, 12) * 30 + 7) for _ in range(m)],
                       'ratios': [rng.choice([0.5, 0.25, 1.0]) for _ in range(m)]} for _ in range(k)]
            cases.append(dict(base, api='Cluster.add_border_users', scenario=scen, container=container, calls=bc))
        ids = list(range(1, n + 1))
        rng.shuffle(ids)
        cases.append(dict(base, api='Cluster.delete_all_users', scenario='refilled-in-place', container='ndarray',
                          calls=[{'ids': [ids[0]]}, {'ids': [ids[1]]}, {'ids': [ids[2]]}], draws=[rng.uniform() for _ in range(800)]))
    return cases


def buffer_key(case):
    return ('buffer', case['api'], case['scenario'], repr({k: v for k, v in case.items() if k != 'draws'})[:400])


def buffer_oracles(ctx):
    b = B()
    quick = ctx.tier == 'quick'
    for rep in range(1 if quick else 25):
        for case in gen_buffer_cases(ctx.rng, quick):
            case = dict(case, tag='R16:' + case['scenario'].split(':')[0])
            b.run_oracle(ctx, 'buffer_reuse', case, key=buffer_key(case))
            ctx.branch('R16:oracle:' + case['api'])


def plan_buffer(ctx, plan, case):
    b = B()
    shapes, cell, pp = b._mods()
    f = core.f2s
    api, scen = case['api'], case['scenario']
    if api == 'calc_rotated_pos':
        shape = tuple(case['shape'])
        buf = np.zeros(shape, dtype=complex)
        outs_ = []
        for vals, ang in zip(case['contents'], case['angles']):
            buf[...] = cplx(vals).reshape(shape)
            outs_.append(shapes.Shape.calc_rotated_pos(buf, ang))
        buf[...] = 0

        def handle(outs):
            for k, (o_, m) in enumerate(zip(outs_, outs)):
                mp = np.array(b.fpts(m)).reshape(shape)
                ok = np.asarray(o_).shape == shape and np.max(np.abs(np.asarray(o_) - mp)) <= 1e-12 * np.max(np.abs(mp))
                ctx.corr('buffer.calc_rotated_pos', {'case': case, 'call': k}, 'match' if ok else repr(np.asarray(o_).ravel()[:3]),
                         'match' if ok else repr(mp.ravel()[:3]), key=buffer_key(case) + (k,))
            ctx.branch('R16:corr:calc_rotated_pos')
        plan.add(['rotpts %s %s' % (f(ang), b.qline(vals)) for vals, ang in zip(case['contents'], case['angles'])], handle)
    elif api == 'add_border_user' and not case.get('colors'):
        spec = case['spec']
        m_ = len(case['calls'][0][0])
        obj = b.make_shape(spec)
        ba, br = Buffer(case['container'], m_, float), Buffer(case['container'], m_, float)
        toks = []
        for angs, rats in case['calls']:
            if scen == 'same-object-two-roles':
                arg = ba.fill(angs)
                obj.add_border_user(arg, arg)
                rats = angs
            else:
                obj.add_border_user(ba.fill(angs), br.fill(rats))
            if scen == 'modified-after-call':
                ba.scribble(99.0)
                br.scribble(0.3)
            toks += ['B:%s:%s' % (f(a), f(r)) for a, r in zip(angs, rats)]
        ba.scribble(0.0)
        size = spec['side'] if spec['kind'] == 'square' else spec['R']
        users = [complex(u.pos) for u in obj.users]

        def handle(outs):
            mu = b.fpts(outs[0]) if outs[0] != '-' else []
            ok = b.pts_close(users, mu, b.TOL * b.spec_scale(spec))
            ctx.corr('buffer.add_border_user.' + spec['kind'], case, 'match' if ok else repr(users[:4]), 'match' if ok else repr(mu[:4]),
                     key=buffer_key(case))
            ctx.branch('R16:corr:add_border_user')
        plan.add(['cellhist %s %s %s %s %s %s users' % (spec['kind'], f(spec['pos'][0]), f(spec['pos'][1]), f(size), f(spec['rot']),
                                                        ','.join(toks))], handle)
    elif api == 'Cluster.add_random_users':
        ctype, n, R, rot = case['type'], case['n'], case['R'], case['rot']
        pos = b.cx(case['pos'])
        sc = 6 * R + 1e-3 * abs(pos)
        m_ = len(case['calls'][0]['ids'])
        cl = cell.Cluster(R, n, pos, None, ctype, rot)
        geo = [(complex(c_.pos), float(c_.radius), b.ref_vertices(b.cell_spec(ctype, R, rot, complex(c_.pos))), sc) for c_ in cl]
        ids = [i_ for call in case['calls'] for i_ in call['ids']]
        nums = ids if scen == 'same-object-two-roles' else [k_ for call in case['calls'] for k_ in call['nums']]
        rats = [r_ for call in case['calls'] for r_ in call['ratios']]
        flat = {'n': n, 'ids': ids, 'ids_form': 'list', 'nums': nums, 'colors': None, 'ratios': rats, 'draws': case['draws']}
        sim, tie = b.simulate_placement(flat, geo)
        if tie or sim is None:
            ctx.branch('R16:corr:near-tie-or-exhausted-skipped')
            return
        bi, bn, br = Buffer(case['container'], m_, int), Buffer(case['container'], m_, int), Buffer(case['container'], m_, float)
        with b.scripted_random(case['draws']):
            for call in case['calls']:
                if scen == 'same-object-two-roles':
                    arg = bi.fill(call['ids'])
                    cl.add_random_users(arg, arg, None, br.fill(call['ratios']))
                else:
                    cl.add_random_users(bi.fill(call['ids']), bn.fill(call['nums']), None, br.fill(call['ratios']))
                if scen == 'modified-after-call':
                    bi.scribble(1)
                    bn.scribble(2)
                    br.scribble(0.5)
        impl = sorted([(c_.id - 1, complex(u.pos)) for c_ in cl for u in c_.users], key=lambda t: t[0])
        # the k calls with per-cell lists are ONE call of the model with the concatenated lists
        line = 'clusterusers %s %d %s %s %s %s %s l:%s l:%s %s' % (
            ctype, n, f(R), f(rot), f(pos.real), f(pos.imag), ','.join(map(str, ids)), ','.join(map(str, nums)),
            ','.join(f(x) for x in rats), ','.join(f(d) for d in case['draws']))
        small = {k: v for k, v in case.items() if k != 'draws'}

        def handle(outs):
            m = outs[0]
            model = [] if m == '-' else ([(int(t.split(':')[0]), b.fpts(t.split(':')[1])[0]) for t in m.split(';')] if ':' in m else None)
            if model is None:
                ctx.corr('buffer.Cluster.add_random_users', small, 'placed', m, key=buffer_key(case))
                return
            model.sort(key=lambda t: t[0])
            ok = len(model) == len(impl) and all(x[0] == y[0] and abs(x[1] - y[1]) <= b.TOL * sc for x, y in zip(impl, model))
            ctx.corr('buffer.Cluster.add_random_users', small, 'match' if ok else repr(impl[:3]), 'match' if ok else repr(model[:3]),
                     key=buffer_key(case))
            ctx.branch('R16:corr:Cluster.add_random_users')
        plan.add([line], handle)


def buffer_corr(ctx, drv):
    """the same histories against the model, which is given the logical contents of every call"""
    quick = ctx.tier == 'quick'
    plan = Plan()
    for rep in range(1 if quick else 25):
        for case in gen_buffer_cases(ctx.rng, quick):
            plan_buffer(ctx, plan, case)
    plan.run(drv)


REQUIRED = ['R15:oracle:ratio', 'R15:oracle:angle', 'R15:oracle:query', 'R15:oracle:min_dist', 'R15:oracle:cluster',
            'R15:oracle:pointprocess', 'R15:oracle:setter', 'R15:oracle:setter:tiny', 'R15:corr:ratio', 'R15:corr:angle',
            'R15:corr:query', 'R15:corr:min_dist', 'R15:corr:cluster', 'R15:corr:pointprocess', 'R15:corr:setter',
            'R15:corr:setter:tiny', 'R15:close-setter-values', 'R15:close-setter-values:tiny',
            'R16:oracle:calc_rotated_pos', 'R16:oracle:from_complex_array_to_real_matrix', 'R16:oracle:add_border_user',
            'R16:oracle:scalar_buffer', 'R16:oracle:same_object', 'R16:oracle:add_user', 'R16:oracle:Cluster.add_random_users',
            'R16:oracle:Cluster.add_border_users', 'R16:oracle:Cluster.delete_all_users', 'R16:refilled-in-place',
            'R16:modified-after-call', 'R16:same-object-two-roles', 'R16:corr:calc_rotated_pos', 'R16:corr:add_border_user',
            'R16:corr:Cluster.add_random_users']
