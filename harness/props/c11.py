"""C11 — reported SINRs equal first-principles signal / (interference + noise)
(DESIGN.md §5 C11).

Tie to source: hand model `lean/PyPhysim/Model/C11.lean` (polymorphic in the complex
scalar `α` and the real scalar `ρ`; theorems at `ℂ`/`ℝ`, driver at binary64).  Each
seeded scenario is run through the REAL `MultiUserChannelMatrix` /
`MultiUserChannelMatrixExtInt` object (interference channel and joint processing) and
through a real `IASolverBaseClass`, and the same scenario (big channel matrix, antenna
layout, path loss, noise, external power, precoders, filters) is sent to the compiled
model, which rebuilds the channel views and evaluates the same code paths.

`np.linalg.solve` inside `IASolverBaseClass.full_W_H` is an external kernel: its
result is read from the solver and handed to the model; its contract
(`Hieq · full_W_H = W_H`) is checked numerically on every case.

Long-lived objects ("sessions"): ONE channel object and ONE solver bound to it live through
2..6 seeded scenarios reached through the public API (init_from_channel_matrix / randomize
with the same layout, other antenna numbers, another number of users; path loss kept,
changed, removed; noise variance; post filters; precoders / powers / filters handed over
again or left alone).  After EVERY step every reported quantity is compared with the
(stateless) model on the CURRENT inputs, with first principles on the current raw channel
and path loss, and with a fresh object given the same current inputs.  A path loss set for
another number of links is discarded by the new realisation (documented behaviour of
_update_pathloss_big_matrix).  The solver's filters are handed over again whenever its
cached full_W_H would be stale w.r.t. new precoders (iabase cache coherence is C10's
property); when the solver is left alone its own full_W_H is the filter first principles use.

noise_var, the external power and the transmit powers are drawn in every numeric type
(Python int / float / bool, np.int32/64, np.float16/32/64, power vectors as int / float32
arrays, lists, scalars through the P setter), channels and precoders also in integer and
real dtype.

R15 (distinct values that are merely close): dedicated sessions take ONE object through values of one
parameter (noise variance, path loss, external path loss, channel matrix, external power, transmit powers,
precoders, filters) that a tolerant comparison would identify — magnitudes 1e-9 … 1e-20 (all "equal" to 0 and to
each other for np.isclose), values a relative 1e-6 apart (2.4e9 against 2.4e9 + 2e4), adjacent doubles, values
that agree to 12 decimals — in scenarios scaled so that the parameter matters: the first-principles reports of
consecutive steps differ by >= 30 comparison tolerances (margin computed from first principles).  After every step:
model / first principles / fresh object for exactly that value, and the value the object says it holds is bit for
bit the value it was given.

R16 (argument identity, buffers refilled in place): a third of the sessions and dedicated same-layout sessions run
with the caller keeping ONE preallocated array per argument (and one container per per-user sequence), refilled in
place before every call and overwritten with junk as soon as a setter has taken it; steps in which the object is
left alone and only the call arguments get new contents; one array object in two roles (calc_SINR(X, X), the same
array for every user, Nr = Nt = NtE, path loss = external path loss, solver F = full_F = W_H) against first
principles and against equal-content separate objects.

The oracles evaluate the property on the real code from first principles with scalar
loops (no matrix products of the form under test): power of the desired stream after
the filter over the summed powers of every other stream of every user + external
interference + filtered noise.
"""
import math

import numpy as np

from harness import core

MODULE = 'PyPhysim.Properties.C11'
DRIVER = 'drv_c11'
CLAIM = {
    'technique': 'Lean 4 theorems (Mathlib matrices over C: Gram quadratic form, positive semidefiniteness) about an '
                 'executable polymorphic model of both SINR implementations; seeded differential correspondence at '
                 'binary64 against the channel object (IC + joint processing, with and without external '
                 'interference) and the IA solver; scalar-loop first-principles oracles on the real code',
    'text': 'Kernel-checked for every number of users, antenna/stream layout, channel, precoders, filters, noise '
            'variance >= 0 (or none) and external power >= 0: the quotient the channel object and the IA solver '
            'compute equals |u^H H_kk f_l|^2 / (sum over all other streams of all users |u^H H_kj f_jd|^2 + pe sum '
            '|u^H h_e|^2 + sigma^2 |u|^2) (joint processing: the same with H_k for every link); a vanishing '
            'denominator is exactly the ZeroDivisionError case; the two implementations agree for every filter '
            'matrix; the value is invariant under rescaling a filter by any c != 0 and non-negative; transmit powers '
            'and path losses enter as per-link power factors and the channel views scale block (k,j) by '
            'sqrt(pathloss[k,j]) for every layout; the reported Q matrices are the sum of the interfering links\' '
            'covariances (+ external + noise), Hermitian and positive semidefinite; SINR in dB and the sum capacity '
            'are 10 log10 and sum log2(1+SINR) of those values, and calc_SINR raises as soon as one stream does. The '
            'model is tied to multiuser.py / iabase.py / misc.py by correspondence within 1e-9 (1+SINR) on both '
            'implementations and every code path, on fresh objects and after every step of seeded lives of one '
            're-used channel object + solver (the model has no state: reports depend on the current inputs only), '
            'with noise variance / external power / transmit powers given in every numeric type. Second tie for the '
            'FORMULAS: harness/gen/c11.py re-emits on every run, from the current source, the expression trees of '
            '_calc_Bkl_cov_matrix_first_part / _second_part / _all_l and _calc_SINR_k of the channel object, of the '
            'joint-processing _impl twins and of the IA solver (Generated/C11Formulas.lean, primitive matrix '
            'operations only; helpers, lambdas and bound methods inlined; np.dot / .dot / @, any order of conj and '
            'transpose, accumulation loop / sum(generator) are the same tree); theorem '
            'generated_formulas_match_model: every regenerated tree equals the model\'s definition for all arguments '
            'and every scalar type (rfl, no algebraic law), the solver trees reading full_F only.',
    'note': 'trusted: binary64 rounding (compared within 1e-9 relative to the forward-error scale (1+SINR), the '
            'denominator being computed as total power minus own stream), np.linalg.solve in full_W_H (its result is '
            'an input of the model, contract checked per case; the theorems hold for every filter matrix), the '
            'harness. noise_var None/0 with no interference and no other stream is 0/0: a tagged "zero denominator" '
            'outcome in the model (excluded from the value theorems by the denominator hypothesis); the channel '
            'object raises ZeroDivisionError there, the IA solver reports a non-finite entry (inf/nan, also in dB '
            'and sum capacity) and the harness maps both to that tag. Sessions read the raw realisation that '
            'randomize stored from _big_H_no_pathloss; a path loss set for another number of links is discarded by '
            'a new realisation (documented behaviour). Robustness classes: R1 element types (arrays int8..int64, '
            'uint8/16, float32, complex64; scalars incl. narrow numpy ints, float16/32, bool; lists/tuples; K and '
            'antenna numbers in every integer type), R2 layout/shape (Fortran, transposed, strided, reversed, offset '
            'views; 0-d arrays; a user with zero streams), R5 boundaries (path loss exactly 0/1, noise 0/0.0/None/1 '
            'incl. 0.0 after a positive one, pe 0/1, K=1, sizes 1..9 at prime/power-of-two boundaries) and R6 scale '
            '(path loss -100..-130 dB with noise 1e-15..1e-20 and filters 1e-7..1e-9; channel/precoders/filters times '
            '1e-12..1e12; all comparisons relative to the data) run through correspondence AND first-principles '
            'oracles; R3 (inputs left untouched incl. flags, results double precision and not aliasing inputs, '
            'earlier results do not move, the object does not follow the caller\'s arrays), R4 (16 kinds of refused '
            'calls on channel object and solver inside sessions: every observable identical before/after, history '
            'continues against model / first principles / fresh object) and R7 (re-used objects, repeated calls, a '
            'second solver sharing the channel object) by session correspondence and oracles. By theorem: R1/R2 '
            '(reports_depend_on_logical_values_only: the model has no dtype/layout), R3/R4/R7 '
            '(refused_calls_leave_no_trace, reports_depend_on_current_inputs_only), R5 (zero-denominator theorems, '
            'pathloss_stream_power at g=0), R6 (sinr_power_scale_invariant, sinr_scale_invariant); that the '
            'IMPLEMENTATION has these properties is correspondence/oracle evidence only. R8 (every parameter '
            'positional and by keyword in any order, pe omitted / explicit default, set_pathloss() / None, pe=0 '
            'external class vs plain class, covariance plus noise vs without, solver via (F,P) / full_F / P setter / '
            'scalar P / W / W_H / keyword constructor, calc_sum_capacity vs calc_shannon_sum_capacity(calc_SINR()), '
            'solver.calc_Q vs channel.calc_Q): theorem equivalent_forms_agree + sum_capacity_def for the algebra, '
            'correspondence (keyword calls) and the argument-forms oracle for the code. R9 (receiver / transmitter '
            'index of calc_Q, calc_JP_Q, get_Hkl, get_Hk, get_Hk_without_ext_int, solver.calc_Q, '
            'calc_remaining_interference_percentage as int, np.int8..64, np.uint8..64, np.intp, 0-d arrays, run-time '
            'built ints above 256; an index beyond the last user is IndexError; K / antenna / stream counts in every '
            'integer type): theorem index_argument_read_by_value, driver op q, index oracle; negative indices are not '
            'documented and not covered. R10 (per-user matrices of different element types in one list, P as mixed '
            'list): reports_depend_on_logical_values_only + correspondence/oracle. R11 (23 asking calls incl. repr, '
            'properties and every calc_*/get_* inside sessions, all observables compared before/after): theorem '
            'queries_leave_no_trace + session correspondence/oracle. R12 does not apply: users, streams and sources '
            'are positional by documentation and no dict/set/named container is part of the API (independent setters '
            'are applied in shuffled order inside sessions). R13 (deep copy and pickle round trip of solver+channel, '
            'changed on its own, evaluated after the parents moved on; derived solver bound to the derived channel): '
            'reports_depend_on_current_inputs_only + session correspondence/oracle. R14 (258..300 users, 257..300 '
            'streams of one user, 257..300 external sources; 2^16+1 users would need a 4e9-entry channel matrix and '
            'is not run): theorems hold for every K; one case of each per run. calc_shannon_sum_capacity for '
            'arguments of any shape / container: theorem shannon_sum_any_shape, driver op cap2. R15 (distinct values that are merely close: noise variance, path loss, external path '
            'loss, channel matrix, external power, transmit powers — vector and one power for all —, precoders, filters; '
            'tiny magnitudes 1e-9..1e-20, relative distance 1e-6, adjacent doubles, equal to 12 decimals; one object '
            'taken from one value to the next, reports of consecutive steps >= 30 comparison tolerances apart by '
            'construction; the stored value compared bit for bit): theorems close_values_are_not_identified (the '
            'model\'s SINR and Q are injective in noise variance / external power: no tolerance, no rounded key, no '
            'threshold) and setter_takes_effect_for_every_new_value; session correspondence + oracle close-values for '
            'the code. R16 (one preallocated buffer per argument refilled in place for 2..7 calls on one object, junk '
            'written into it right after a setter took it, steps that only change the call arguments, one object as F '
            'and U / as every user\'s precoder / as Nr, Nt and NtE / as path loss and external path loss / as F, full_F '
            'and W_H, equal-content separate objects, calc_shannon_sum_capacity on a refilled array): theorem '
            'results_depend_on_contents_at_call_time (a call reads the contents at call time; earlier results are not '
            'altered by refills); session correspondence + oracles argument-buffers / argument-roles for the code. '
            'Quick tier: the 257..300-stream scenario has one receive antenna at that user (the larger layout runs in '
            'the thorough tier). The IA solver has no external-power '
            'parameter: it is compared at the channel object\'s default pe = 1. Fixed in the worktree: the solver '
            'ignored external interference; integer channel + integer pe + noise raised a casting error. A '
            'MultiUserChannelMatrixExtInt with zero external sources is outside the generators (its Nr/Nt slices '
            'are empty).',
}


def _impl():
    from pyphysim.channels import multiuser
    from pyphysim.ia import iabase
    from pyphysim.util import misc
    return multiuser, iabase, misc


# ------------------------------------------------------------------ helpers
def enc(a):
    a = np.asarray(a)
    flat = a.reshape(-1)
    if np.iscomplexobj(a):
        return {'shape': list(a.shape), 'kind': 'c', 'data': [[float(z.real), float(z.imag)] for z in flat]}
    if a.dtype.kind in 'iu':
        return {'shape': list(a.shape), 'kind': 'i', 'data': [int(z) for z in flat]}
    return {'shape': list(a.shape), 'kind': 'f', 'data': [float(z) for z in flat]}


def dec(d):
    if d['kind'] == 'c':
        a = np.array([complex(re, im) for re, im in d['data']], dtype=complex)
    elif d['kind'] == 'i':
        a = np.array(d['data'], dtype=np.int64)
    else:
        a = np.array(d['data'], dtype=float)
    return a.reshape(d['shape'])


def cline(a):
    flat = np.asarray(a, dtype=complex).reshape(-1)
    if flat.size == 0:
        return '-'
    return ','.join(core.f2s(z.real) + ',' + core.f2s(z.imag) for z in flat)


def cline_many(mats):
    parts = [cline(m) for m in mats if np.asarray(m).size]
    return ','.join(parts) if parts else '-'


def fline(a):
    flat = np.asarray(a, dtype=float).reshape(-1)
    if flat.size == 0:
        return '-'
    return ','.join(core.f2s(x) for x in flat)


def ilist(v):
    v = list(v)
    return ','.join(str(int(x)) for x in v) if v else '-'


def parse_c(s, shape):
    if s == '':
        return np.zeros(shape, dtype=complex)
    v = [core.s2f(t) for t in s.split(',')]
    return (np.array(v[0::2]) + 1j * np.array(v[1::2])).reshape(shape)


def parse_ll(s):
    """`a,b;c` -> [[a, b], [c]]  or  ('error', kind)"""
    if s.startswith('error:'):
        return ('error', s[6:])
    return [[core.s2f(t) for t in r.split(',') if t] for r in s.split(';')]


def obj(mats):
    a = np.empty(len(mats), dtype=object)
    for i, m in enumerate(mats):
        a[i] = m
    return a


def sinr_close(a, b, rtol=1e-9):
    """the code computes the denominator as (total received power) - (own stream), so
    the forward error of the quotient scales with (1 + SINR)"""
    if not (math.isfinite(a) and math.isfinite(b)):
        return False
    m = max(abs(a), abs(b))
    # + absolute floor: a signal amplitude u^H H f that vanishes by cancellation is rounding noise of relative
    # size 1e-16, i.e. a "zero" SINR is only known to about 1e-32 of the uncancelled SINR
    return abs(a - b) <= rtol * max(m, 1e-300) * (1.0 + m) + 1e-18


def mat_close(a, b, rtol=1e-9):
    """entrywise within `rtol` of the largest entry of the two matrices — RELATIVE to their own scale
    (a covariance at -150 dBm is compared as strictly as one of order one)"""
    a = np.asarray(a)
    b = np.asarray(b)
    try:        # (a matrix of Python objects is compared by the numbers it holds; anything else is no matrix)
        a = a.astype(complex) if a.dtype == object else a
        b = b.astype(complex) if b.dtype == object else b
    except (TypeError, ValueError):
        return False
    if a.shape != b.shape or not (np.all(np.isfinite(a)) and np.all(np.isfinite(b))):
        return False
    if a.size == 0:
        return True
    sc = max(float(np.abs(a).max()), float(np.abs(b).max()))
    return float(np.abs(a - b).max()) <= rtol * sc


# ------------------------------------------------------------------ scenario
def layout(case):
    Nr = list(case['Nr'])
    Nt = list(case['Nt'])
    NtE = list(case['NtE']) if case['ext'] else []
    cr = [0]
    for x in Nr:
        cr.append(cr[-1] + x)
    ct = [0]
    for x in Nt + NtE:
        ct.append(ct[-1] + x)
    return Nr, Nt, NtE, cr, ct


ARR_DTYPES = {'complex128': np.complex128, 'complex64': np.complex64, 'float64': np.float64, 'float32': np.float32,
              'int8': np.int8, 'uint8': np.uint8, 'int16': np.int16, 'uint16': np.uint16, 'int32': np.int32,
              'int64': np.int64}


def arr_dtype(case):
    """element type in which the channel, the precoders and the filters are handed over"""
    a = (case.get('present') or {}).get('arr')
    if a:
        return a
    return {'complex': 'complex128', 'float': 'float64', 'int': 'int64'}[case.get('dtype', 'complex')]


def arrays(case):
    """numpy arrays of the case in the element type the case asks for (C-contiguous)"""
    name = arr_dtype(case)
    dt = ARR_DTYPES[name]
    if name.startswith('complex'):
        conv = lambda a: np.asarray(a, dtype=dt)                          # noqa: E731
    elif name.startswith('float'):
        conv = lambda a: np.asarray(np.real(a), dtype=dt)                 # noqa: E731
    else:
        conv = lambda a: np.asarray(np.real(a)).round().astype(dt)        # noqa: E731
    big = conv(dec(case['big']))
    F = [conv(dec(x)) for x in case['F']]
    FJ = [conv(dec(x)) for x in case['FJ']]
    U = [conv(dec(x)) for x in case['U']]
    per_user = (case.get('present') or {}).get('arr_per_user')
    if per_user:        # R10: the matrices of the users differ in element type
        def one(a, nm):
            d = ARR_DTYPES[nm]
            if nm.startswith('complex'):
                return np.asarray(a, dtype=d)
            if nm.startswith('float'):
                return np.asarray(np.real(a), dtype=d)
            return np.asarray(np.real(a)).round().astype(d)
        F = [one(dec(x), per_user[k]) for k, x in enumerate(case['F'])]
        FJ = [one(dec(x), per_user[k]) for k, x in enumerate(case['FJ'])]
        U = [one(dec(x), per_user[k] if (per_user[k].startswith('complex') or not np.any(np.imag(dec(x))))
                 and not (per_user[k] == 'uint8' and np.any(np.real(dec(x)) < 0)) else 'complex128')
             for k, x in enumerate(case['U'])]
    return big, F, FJ, U


LAYOUTS = ['fortran', 'transposed', 'strided', 'reversed', 'offset']


def relayout(a, how):
    """the same matrix in another memory layout (never C-contiguous unless trivially so)"""
    a = np.asarray(a)
    if not how or a.ndim != 2:
        return a
    m, n = a.shape
    if how == 'fortran':
        return np.asfortranarray(a)
    if how == 'transposed':
        return np.ascontiguousarray(a.T).T
    if how == 'strided':            # every second row / column of a buffer whose other cells hold junk
        z = np.full((2 * m + 1, 2 * n + 1), 99, dtype=a.dtype)
        z[::2, ::2][:m, :n] = a
        return z[:2 * m:2, :2 * n:2]
    if how == 'reversed':           # negative strides
        return np.ascontiguousarray(a[::-1, ::-1])[::-1, ::-1]
    if how == 'offset':             # a window inside a larger array
        z = np.full((m + 3, n + 2), 77, dtype=a.dtype)
        z[1:m + 1, 2:n + 2] = a
        return z[1:m + 1, 2:n + 2]
    raise KeyError(how)


def presented(case):
    """(big, F, FJ, U) exactly as they are handed to the implementation: element type, memory layout"""
    big, F, FJ, U = arrays(case)
    how = (case.get('present') or {}).get('layout')
    if how:
        big = relayout(big, how)
        F = [relayout(x, how) for x in F]
        FJ = [relayout(x, how) for x in FJ]
        U = [relayout(x, how) for x in U]
    return big, F, FJ, U


# ------------------------------------------------------------------ R16: the caller's own buffers
_POOL = None        # set while a session with `buffers` runs


class Pool:
    """R16: a caller that keeps ONE preallocated array per argument (role x shape x element type) and refills
    it in place (`buf[...] = new`) before every call; a per-user sequence is ONE container object holding
    those same arrays.  What the code under test is handed is therefore always THE SAME OBJECTS with new
    contents; anything keyed on identity, any reference kept, any work done in place on an argument shows."""
    JUNK = {'c': 99.0 - 77.0j, 'f': 5.0, 'i': 7, 'u': 7, 'b': True}
    SETTER_ROLES = ('big', 'Nr', 'Nt', 'NtE', 'pl', 'ple', 'post', 'solF', 'solU', 'P', 'Ns')

    def __init__(self):
        self.arrays = {}
        self.containers = {}
        self.refilled = {}          # role -> how often an EXISTING buffer was given other contents
        self.scribbled = 0

    @staticmethod
    def role_of(key):
        return key[0][0] if isinstance(key[0], tuple) else key[0]

    def array(self, role, a):
        if not isinstance(a, np.ndarray):
            return a
        fortran = a.ndim == 2 and a.flags['F_CONTIGUOUS'] and not a.flags['C_CONTIGUOUS']
        key = (role, a.shape, a.dtype.str, fortran)
        b = self.arrays.get(key)
        if b is None:
            b = self.arrays[key] = np.empty(a.shape, dtype=a.dtype, order='F' if fortran else 'C')
        elif a.size and not np.array_equal(a, b):
            r = self.role_of(key)
            self.refilled[r] = self.refilled.get(r, 0) + 1
        b[...] = a
        return b

    def container(self, role, kind, mats):
        mats = [self.array((role, k), m) for k, m in enumerate(mats)]
        key = (role, kind, tuple(id(m) for m in mats))
        c = self.containers.get(key)
        if c is None:
            c = self.containers[key] = list(mats) if kind == 'list' else tuple(mats) if kind == 'tuple' else obj(mats)
        return c

    def scribble(self, roles=SETTER_ROLES):
        """the caller goes on using its buffers for something else right after handing them over"""
        for key, b in self.arrays.items():
            if self.role_of(key) in roles and b.flags.writeable:
                b[...] = self.JUNK.get(b.dtype.kind, 0)
                self.scribbled += 1


def pooled(role, a):
    """`a` itself, or — inside a session with the caller's buffers — the caller's ONE buffer for this argument,
    refilled in place with the contents of `a`"""
    return a if _POOL is None else _POOL.array(role, a)


def seq(case, mats, role=None):
    """the per-user matrices in the container the case asks for"""
    c = (case.get('present') or {}).get('container') or ('list' if case.get('as_list') else 'objarray')
    if _POOL is not None and role is not None:
        return _POOL.container(role, c, mats)
    if c == 'list':
        return list(mats)
    if c == 'tuple':
        return tuple(mats)
    return obj(mats)


def dims_arg(case, v, scalar_ok=True):
    """antenna numbers in the type the case asks for (array of any integer type, list, tuple, one int)"""
    t = (case.get('present') or {}).get('dims') or 'array'
    v = [int(x) for x in v]
    if t == 'list':
        return list(v)
    if t == 'tuple':
        return tuple(v)
    if t == 'scalar' and scalar_ok and v and len(set(v)) == 1:
        return int(v[0])
    if t == 'np.scalar' and scalar_ok and v and len(set(v)) == 1:
        return np.int16(v[0])
    if t in ARR_DTYPES:
        return np.array(v, dtype=ARR_DTYPES[t])
    return np.array(v, dtype=int)


def k_arg(case):
    t = (case.get('present') or {}).get('K') or 'int'
    return typed(case['K'], t)


def pl_args(case):
    """the path loss matrices as handed over"""
    t = (case.get('present') or {}).get('pl') or 'float64'

    def one(m, cols):
        a = np.array(m, dtype=float).reshape(case['K'], cols)
        if t == 'list':
            return [list(map(float, r)) for r in a]
        if t == 'float32':
            return a.astype(np.float32)
        if t in LAYOUTS:
            return relayout(a, t)
        return a
    pl = one(case['pl'], case['K'])
    ple = one(case['ple'], len(case['NtE'])) if case['ext'] else None
    return pl, ple


SCALAR_TYPES = {'float': float, 'int': int, 'bool': bool, 'np.int8': np.int8, 'np.uint8': np.uint8,
                'np.int16': np.int16, 'np.uint16': np.uint16, 'np.int32': np.int32, 'np.int64': np.int64,
                'np.float16': np.float16, 'np.float32': np.float32, 'np.float64': np.float64}
NUMTYPES = list(SCALAR_TYPES) + ['0d:float64', '0d:int32', '0d:float32']


def typed(v, tag):
    """the value handed to the implementation: `v` in the numeric type named by `tag`
    (`0d:<type>`: a 0-dimensional numpy array)"""
    if v is None:
        return None
    tag = tag or 'float'
    if tag.startswith('0d:'):
        return np.array(v, dtype=getattr(np, tag[3:]))
    return SCALAR_TYPES[tag](v)


IDX_TYPES = ['int', 'np.int8', 'np.int16', 'np.int32', 'np.int64', 'np.uint8', 'np.uint16', 'np.uint32', 'np.uint64',
             'np.intp', '0d:int64', '0d:uint8', 'bigint']


def idx_typed(k, t):
    """the index value `k` as the Python object of type `t` (`bigint`: an int object built at run time —
    above 256 it is not the interpreter's cached small int, so `is` comparisons with it fail)"""
    k = int(k)
    if t in (None, 'int'):
        return k
    if t == 'bigint':
        return int(str(k))
    if t.startswith('0d:'):
        return np.array(k, dtype=getattr(np, t[3:]))
    return getattr(np, t[3:])(k)


def idx_fits(k, t):
    if t in (None, 'int', 'bigint'):
        return True
    name = t[3:]
    return int(k) <= np.iinfo(getattr(np, name)).max


def idx(case, k):
    """receiver index `k` in the type the scenario asks for"""
    t = (case.get('present') or {}).get('idx') or case.get('idx') or 'int'
    return idx_typed(k, t if idx_fits(k, t) else 'int')


def noise_arg(case):
    return typed(case['noise'], case.get('ntype'))


def noise_value(case):
    """the noise variance as a real number (None = no noise)"""
    v = noise_arg(case)
    return None if v is None else float(v)


def p_arg(case):
    """the power vector as handed to set_precoders (None: full_F is given instead)"""
    if case['P'] is None:
        return None
    pt = case.get('ptype') or 'float'
    if pt == 'list':
        return [float(x) for x in case['P']]
    if pt == 'tuple':
        return tuple(float(x) for x in case['P'])
    if pt.startswith('scalar:'):
        return typed(case['P'][0], pt[7:])
    if pt == 'strided':
        return np.repeat(np.array(case['P'], dtype=float), 2)[::2]
    if pt == 'broadcast':
        return np.broadcast_to(np.float64(case['P'][0]), (case['K'],))
    return np.array(case['P'], dtype={'float': float, 'int': int, 'np.int32': np.int32, 'np.float32': np.float32,
                                      'np.uint8': np.uint8, 'np.int16': np.int16}[pt])


def p_values(case):
    if case['P'] is None:
        return None
    a = p_arg(case)
    if np.ndim(a) == 0:
        return [float(a)] * case['K']
    return [float(x) for x in a]


def by_keyword(case):
    return ((case.get('present') or {}).get('call') or case.get('call')) == 'keyword'


def build_channel(case):
    mu, _, _ = _impl()
    big = presented(case)[0]
    Nr = dims_arg(case, case['Nr'])
    Nt = dims_arg(case, case['Nt'])
    if by_keyword(case):
        if case['ext']:
            ch = mu.MultiUserChannelMatrixExtInt()
            ch.init_from_channel_matrix(channel_matrix=big, Nr=Nr, Nt=Nt, K=k_arg(case),
                                        NtE=dims_arg(case, case['NtE'], scalar_ok=len(case['NtE']) == 1))
            if case['pl'] is not None:
                pl, ple = pl_args(case)
                ch.set_pathloss(pathloss_matrix=pl, ext_int_pathloss=ple)
            else:
                ch.set_pathloss(pathloss_matrix=None, ext_int_pathloss=None)      # explicitly the default
        else:
            ch = mu.MultiUserChannelMatrix()
            ch.init_from_channel_matrix(channel_matrix=big, Nr=Nr, Nt=Nt, K=k_arg(case))
            if case['pl'] is not None:
                ch.set_pathloss(pathloss_matrix=pl_args(case)[0])
            else:
                ch.set_pathloss()           # left at its default
        ch.noise_var = noise_arg(case)
        return ch
    if case['ext']:
        ch = mu.MultiUserChannelMatrixExtInt()
        ch.init_from_channel_matrix(big, Nr, Nt, k_arg(case), dims_arg(case, case['NtE'], scalar_ok=len(case['NtE']) == 1))
        if case['pl'] is not None:
            ch.set_pathloss(*pl_args(case))
    else:
        ch = mu.MultiUserChannelMatrix()
        ch.init_from_channel_matrix(big, Nr, Nt, k_arg(case))
        if case['pl'] is not None:
            ch.set_pathloss(pl_args(case)[0])
    ch.noise_var = noise_arg(case)
    return ch


def pe_args(case):
    """positional `pe` argument of the ExtInt methods (omitted => the default 1.0)"""
    if case['ext'] and case['pe'] is not None:
        return (typed(case['pe'], case.get('petype')),)
    return ()


def pe_value(case):
    if not case['ext']:
        return 0.0
    return 1.0 if case['pe'] is None else float(typed(case['pe'], case.get('petype')))


def call_guard(fn):
    """('ok', value) | ('error', ExceptionTypeName)"""
    try:
        return ('ok', fn())
    except ZeroDivisionError:
        return ('error', 'ZeroDivisionError')


def run_channel(case, jp):
    with np.errstate(all='ignore'):
        return _run_channel(case, jp)


def _run_channel(case, jp):
    return eval_channel(build_channel(case), case, jp)


def eval_channel(ch, case, jp):
    """every quantity the channel object `ch` reports for the scenario `case`"""
    _, F, FJ, U = presented(case)
    Fs = seq(case, FJ if jp else F, role='FJ' if jp else 'F')
    Us = seq(case, U, role='U')
    pe = pe_args(case)
    if by_keyword(case):       # R8: every documented parameter by keyword
        kw = {'pe': pe[0]} if pe else {}
        if jp:
            s = call_guard(lambda: ch.calc_JP_SINR(F=Fs, U=Us, **kw))
            q = [ch.calc_JP_Q(k=idx(case, k), F_all_users=Fs, **kw) for k in range(case['K'])]
        else:
            s = call_guard(lambda: ch.calc_SINR(F=Fs, U=Us, **kw))
            q = [ch.calc_Q(k=idx(case, k), F_all_users=Fs, **kw) for k in range(case['K'])]
    elif jp:
        s = call_guard(lambda: ch.calc_JP_SINR(Fs, Us, *pe))
        q = [ch.calc_JP_Q(idx(case, k), Fs, *pe) for k in range(case['K'])]
    else:
        s = call_guard(lambda: ch.calc_SINR(Fs, Us, *pe))
        q = [ch.calc_Q(idx(case, k), Fs, *pe) for k in range(case['K'])]
    if s[0] == 'ok':
        s = ('ok', [[float(x) for x in r] for r in s[1]])
    return s, q


def run_solver(case):
    """the IA solver on a fresh channel object; returns None when the equivalent channel
    handed to np.linalg.solve is (numerically) singular — precondition of full_W_H"""
    with np.errstate(all='ignore'):
        return _run_solver(case)


def _run_solver(case):
    _, ia, _ = _impl()
    ch = build_channel(case)
    sol = ia.IASolverBaseClass(ch)
    sync_solver(sol, case)
    return eval_solver(sol, build_channel(case), case)


def sync_solver(sol, case, precoders=True, filters=True):
    """hand the precoders + powers and / or the receive filters of `case` to the solver through its
    public setters"""
    _, F, _, U = presented(case)
    if precoders:
        pa = pooled('P', p_arg(case))
        if pa is None:
            sol.set_precoders(full_F=seq(case, F, role='solF'))
        elif np.ndim(pa) == 0 and not isinstance(pa, (list, tuple)):
            sol.P = pa
            sol.set_precoders(F=seq(case, F, role='solF'))
        else:
            sol.set_precoders(F=seq(case, F, role='solF'), P=pa)
    if filters:
        if case.get('set_W'):
            sol.set_receive_filters(W=seq(case, U, role='solU'))
        else:
            sol.set_receive_filters(W_H=seq(case, [u.conj().T for u in U], role='solU'))
    if _POOL is not None:       # R16: the caller re-uses its buffers right away; the solver owns what it was given
        _POOL.scribble()


def eval_solver(sol, ch2, case, synced=True):
    """every quantity the solver reports; `ch2` is the channel object evaluated with the solver's
    precoders and filters.  None / 'ill-conditioned' when outside the preconditions.
    `synced=False`: the filters were not handed over again after the last change (the cached full_W_H
    is whatever the solver holds), so the np.linalg.solve contract is not checked."""
    _, F, _, U = arrays(case)
    K = case['K']
    pv = p_values(case)
    full_F = [np.array(sol.full_F[k], dtype=complex) for k in range(K)]
    blocks = ref_blocks(case)
    if synced:
        for k in range(K):
            heq = U[k].conj().T @ blocks['H'][k][k] @ full_F[k]
            if heq.shape[0] != heq.shape[1] or heq.size == 0:
                return None
            sv = np.linalg.svd(heq, compute_uv=False)
            # singular or nearly so — relative to its own largest singular value and to the scale of the
            # factors it is the product of (a 1x1 equivalent channel that vanishes is rounding noise)
            scale = np.linalg.norm(U[k]) * np.linalg.norm(blocks['H'][k][k]) * np.linalg.norm(full_F[k])
            if sv[-1] <= 1e-6 * sv[0] or sv[-1] <= 1e-8 * scale or sv[0] == 0:
                return None
    try:
        wh = [np.array(sol.full_W_H[k], dtype=complex) for k in range(K)]
        w = [np.array(sol.full_W[k], dtype=complex) for k in range(K)]
    except np.linalg.LinAlgError:
        return None
    if not all(np.all(np.isfinite(x)) for x in wh):
        return None
    # full_W_H inverts the equivalent channel, i.e. it zero-forces the other streams of the own user: with
    # nothing else in the denominator (single user, no noise, no external interference) the denominator is
    # 0 up to the rounding of np.linalg.solve — x/0 or x/rounding-noise.  That is the case the property
    # excludes; the margin keeps the comparison away from it (never compare near-ties).
    fullF_h = [np.asarray(F[k], dtype=complex) * (1.0 if pv is None else math.sqrt(pv[k])) for k in range(K)]
    fp = fp_streams(case, 'ic', fullF_h, [x.conj().T for x in wh], pe_value(dict(case, pe=None)), noise_value(case))
    # … except the structural 0/0: ONE user with ONE stream, no noise, no external interference.  There the
    # code subtracts two identically computed matrices, the denominator is exactly 0 whatever the filter, and
    # the outcome ("zero denominator": non-finite entry on the solver side) is compared as a status.
    lonely = (K == 1 and F[0].shape[1] == 1 and not noise_value(case) and not case['ext'])
    if not lonely and any(not (d > 1e-6 * (sg + d)) for sg, d in fp.values()):
        return 'ill-conditioned'
    contract = 0.0
    if synced:
        for k in range(K):
            heq = U[k].conj().T @ blocks['H'][k][k] @ full_F[k]
            contract = max(contract, float(np.abs(heq @ wh[k] - U[k].conj().T).max()) /
                           max(float(np.abs(U[k]).max()), 1e-300))
    s = call_guard(lambda: sol.calc_SINR())
    # zero denominator: the channel object divides Python scalars (ZeroDivisionError), the solver divides
    # with numpy and reports a non-finite entry (inf for x/0, nan for 0/0; dB values and sum capacity are
    # then non-finite too).  Both are the model's tagged outcome "zero denominator".
    if s[0] == 'ok' and not all(math.isfinite(float(x)) for r in s[1] for x in r):
        s = ('error', 'ZeroDivisionError')
    out = {'full_F': full_F, 'full_W_H': wh, 'full_W': w, 'contract': contract, 'sinr': s}
    if s[0] == 'ok':
        out['sinr'] = ('ok', [[float(x) for x in r] for r in s[1]])
        out['dB'] = [[float(x) for x in r] for r in sol.calc_SINR_in_dB()]
        out['cap'] = float(sol.calc_sum_capacity())
    out['Q'] = [sol.calc_Q(idx(case, k)) for k in range(K)]
    # the channel object evaluated with the solver's precoders and filters (default pe)
    out['chan'] = call_guard(lambda: ch2.calc_SINR(obj(full_F), obj(w)))
    if out['chan'][0] == 'ok':
        out['chan'] = ('ok', [[float(x) for x in r] for r in out['chan'][1]])
    return out


# ------------------------------------------------- first-principles reference
def ref_blocks(case):
    """channel blocks cut out of the big matrix by the harness' own index arithmetic,
    with the path loss applied entry by entry"""
    Nr, Nt, NtE, cr, ct = layout(case)
    K = case['K']
    big = np.asarray(dec(case['big']), dtype=complex)
    if not arr_dtype(case).startswith('complex'):
        big = np.real(big).astype(complex)
    pl = case['pl']
    ple = case.get('ple')
    H = [[None] * K for _ in range(K)]
    for k in range(K):
        for j in range(K):
            g = 1.0 if pl is None else math.sqrt(pl[k][j])
            H[k][j] = big[cr[k]:cr[k + 1], ct[j]:ct[j + 1]] * g
    He = []
    for k in range(K):
        cols = []
        for e in range(len(NtE)):
            g = 1.0 if pl is None else math.sqrt(ple[k][e])
            cols.append(big[cr[k]:cr[k + 1], ct[K + e]:ct[K + e + 1]] * g)
        He.append(np.hstack(cols) if cols else np.zeros((Nr[k], 0), dtype=complex))
    Hk = [np.hstack([H[k][j] for j in range(K)]) for k in range(K)]
    return {'H': H, 'He': He, 'Hk': Hk}


def uh_h_f(u, Hm, f):
    """u^H H f with scalar loops"""
    acc = 0j
    for a in range(Hm.shape[0]):
        ua = complex(u[a]).conjugate()
        row = 0j
        for b in range(Hm.shape[1]):
            row += complex(Hm[a, b]) * complex(f[b])
        acc += ua * row
    return acc


def fp_streams(case, variant, F, U, pe, noise):
    """{(k,l): (signal power, interference + external + noise power)} from first principles.
    `variant`: 'ic' (transmitter j reaches receiver k through H_kj, precoder F_j on its own
    antennas) or 'jp' (every precoder is applied on all users' antennas, channel H_k)"""
    K = case['K']
    b = ref_blocks(case)
    out = {}
    for k in range(K):
        for l in range(F[k].shape[1]):
            u = U[k][:, l]

            def chan(j):
                return b['H'][k][j] if variant == 'ic' else b['Hk'][k]
            sig = abs(uh_h_f(u, chan(k), F[k][:, l])) ** 2
            intf = 0.0
            for j in range(K):
                for d in range(F[j].shape[1]):
                    if (j, d) != (k, l):
                        intf += abs(uh_h_f(u, chan(j), F[j][:, d])) ** 2
            ext = 0.0
            He = b['He'][k]
            for e in range(He.shape[1]):
                ext += pe * abs(sum(complex(u[a]).conjugate() * complex(He[a, e]) for a in range(He.shape[0]))) ** 2
            nz = (noise or 0.0) * sum(abs(complex(x)) ** 2 for x in u)
            out[(k, l)] = (sig, intf + ext + nz)
    return out


def fp_Q(case, variant, F, pe, noise, only=None):
    """sum of the interfering links' covariances (+ external interference + noise),
    built from outer products of the received stream vectors (`only`: just these receivers)"""
    K = case['K']
    b = ref_blocks(case)
    Nr = case['Nr']
    out = []
    for k in (range(K) if only is None else only):
        Q = np.zeros((Nr[k], Nr[k]), dtype=complex)
        for j in range(K):
            if j == k:
                continue
            Hm = b['H'][k][j] if variant == 'ic' else b['Hk'][k]
            for d in range(F[j].shape[1]):
                x = Hm @ F[j][:, d]
                Q += np.outer(x, x.conj())
        He = b['He'][k]
        for e in range(He.shape[1]):
            Q += pe * np.outer(He[:, e], He[:, e].conj())
        if noise:
            Q += noise * np.eye(Nr[k])
        out.append(Q)
    return out


def variant_tag(case):
    tag = 'extint' if case['ext'] else 'plain'
    if 'noise' not in case:          # a session: only the class of the channel object is known
        return tag
    pr = case.get('present') or {}
    if pr.get('arr'):
        tag += ':R1-' + pr['arr']
    elif case.get('dtype', 'complex') != 'complex':
        tag += ':' + case['dtype']
    if case.get('ntype') not in (None, 'float') and case['noise'] is not None:
        tag += ':noise-' + case['ntype']
    if pr.get('layout'):
        tag += ':R2-' + pr['layout']
    it = pr.get('idx') or case.get('idx')
    if it not in (None, 'int'):
        tag += ':idx-' + it
    if pr.get('arr_per_user'):
        tag += ':R10-' + '+'.join(sorted(set(pr['arr_per_user'])))
    if by_keyword(case):
        tag += ':by-keyword'
    if case.get('rclass'):
        tag += ':' + case['rclass']
    return tag


def compare_streams(case, got, fp):
    """None | (what, detail) — `got` = ('ok', lists) or ('error', kind)"""
    zero = [kl for kl, (s, d) in fp.items() if d == 0.0]
    if got[0] == 'error':
        if zero:
            return None          # 0/0 or x/0: outside the property (denominator hypothesis)
        return ('exception:' + got[1], 'no stream has a zero denominator')
    if zero:
        return None
    for (k, l), (s, d) in sorted(fp.items()):
        v = got[1][k][l]
        if not (v >= 0.0):
            return ('negative', 'stream (%d,%d): %r' % (k, l, v))
        if not sinr_close(v, s / d):
            return ('not-first-principles', 'stream (%d,%d): reported %.17g, first principles %.17g' % (k, l, v, s / d))
    return None


# ------------------------------------------------------------------ oracles
def o_channel(case, jp):
    got, q = run_channel(case, jp)
    return judge_channel(case, jp, got, q)


def judge_channel(case, jp, got, q):
    """what a channel object reported (`got`, `q`) for the scenario `case` against first principles"""
    _, F, FJ, U = arrays(case)
    Fc = [np.asarray(x, dtype=complex) for x in (FJ if jp else F)]
    Uc = [np.asarray(x, dtype=complex) for x in U]
    fp = fp_streams(case, 'jp' if jp else 'ic', Fc, Uc, pe_value(case), noise_value(case))
    r = compare_streams(case, got, fp)
    if r is not None:
        return (r[0] + ':' + variant_tag(case), r[1])
    qref = fp_Q(case, 'jp' if jp else 'ic', Fc, pe_value(case), noise_value(case))
    for k in range(case['K']):
        Q = np.asarray(q[k])
        sc = float(np.abs(qref[k]).max()) if qref[k].size else 0.0
        if Q.shape != qref[k].shape:
            return ('Q-shape:' + variant_tag(case), 'receiver %d: %s' % (k, Q.shape))
        if Q.size == 0:
            continue
        if float(np.abs(Q - Q.conj().T).max()) > 1e-12 * sc:
            return ('Q-not-hermitian:' + variant_tag(case), 'receiver %d' % k)
        if float(np.linalg.eigvalsh((Q + Q.conj().T) / 2).min()) < -1e-9 * sc:
            return ('Q-not-psd:' + variant_tag(case), 'receiver %d' % k)
        if not mat_close(Q, qref[k]):
            return ('Q-not-sum-of-links:' + variant_tag(case),
                    'receiver %d: max deviation %.3e' % (k, float(np.abs(Q - qref[k]).max())))
    return None


def o_calc_SINR(case):
    return o_channel(case, False)


def o_calc_JP_SINR(case):
    return o_channel(case, True)


def o_scale(case):
    """rescaling the receive filter of a stream by a non-zero complex number leaves every
    reported SINR where it was (both variants)"""
    for jp in (False, True):
        got, _ = run_channel(case, jp)
        c2 = dict(case)
        U = [np.asarray(dec(x), dtype=complex) for x in case['U']]
        for k in range(case['K']):
            sc = np.array([complex(re, im) for re, im in case['scale'][k]])
            U[k] = U[k] * sc[None, :]
        c2['U'] = [enc(u) for u in U]
        c2['dtype'] = 'complex'
        if c2.get('present'):
            c2['present'] = dict(c2['present'], arr=None, arr_per_user=None)
        got2, _ = run_channel(c2, jp)
        if got[0] != got2[0]:
            return ('scale-variant:' + variant_tag(case), '%s -> %s' % (got, got2))
        if got[0] == 'ok':
            for k in range(case['K']):
                for l in range(len(got[1][k])):
                    if not sinr_close(got[1][k][l], got2[1][k][l]):
                        return ('scale-variant:' + variant_tag(case),
                                '%s stream (%d,%d): %.17g -> %.17g' % ('jp' if jp else 'ic', k, l, got[1][k][l], got2[1][k][l]))
    return None


def o_solver(case):
    """the IA solver: first principles (its own full_F / full_W_H), agreement with the
    channel object, dB and sum capacity"""
    return judge_solver(case, run_solver(case))


def judge_solver(case, out):
    if out is None or out == 'ill-conditioned':
        return None
    tag = variant_tag(case)
    K = case['K']
    # the precoders with the transmit power applied, formed by the harness: stream powers scale with P_k
    _, F, _, _ = arrays(case)
    pv = p_values(case)
    fullF = [np.asarray(F[k], dtype=complex) * (1.0 if pv is None else math.sqrt(pv[k])) for k in range(K)]
    for k in range(K):
        if not mat_close(out['full_F'][k], fullF[k], rtol=1e-12):
            return ('full_F-not-sqrtP-scaled:' + tag, 'user %d' % k)
    Uc = [out['full_W_H'][k].conj().T for k in range(K)]
    fp = fp_streams(case, 'ic', fullF, Uc, pe_value(dict(case, pe=None)), noise_value(case))
    r = compare_streams(case, out['sinr'], fp)
    if r is not None:
        return (r[0] + ':' + tag, r[1])
    if out['sinr'][0] != out['chan'][0]:
        return ('paths-disagree:' + tag, 'solver %s, channel object %s' % (out['sinr'][0], out['chan'][0]))
    if out['sinr'][0] == 'ok':
        flat = []
        for k in range(K):
            for l in range(len(out['sinr'][1][k])):
                a, b = out['sinr'][1][k][l], out['chan'][1][k][l]
                flat.append(a)
                if not sinr_close(a, b):
                    return ('paths-disagree:' + tag, 'stream (%d,%d): solver %.17g, channel object %.17g' % (k, l, a, b))
                if a > 0:
                    if not core.close(out['dB'][k][l], 10.0 * math.log10(a), rtol=1e-12, atol=1e-12):
                        return ('dB:' + tag, 'stream (%d,%d)' % (k, l))
        cap = math.fsum(math.log2(1.0 + x) for x in flat)
        if not core.close(out['cap'], cap, rtol=1e-12):
            return ('capacity:' + tag, 'reported %.17g, sum log2(1+SINR) %.17g' % (out['cap'], cap))
    qref = fp_Q(case, 'ic', fullF, pe_value(dict(case, pe=None)), noise_value(case))
    for k in range(K):
        if not mat_close(out['Q'][k], qref[k]):
            return ('Q-not-sum-of-links:' + tag, 'solver.calc_Q(%d)' % k)
    return None


R15_PARAMS = ['noise', 'pl', 'ple', 'big', 'pe', 'P', 'F', 'U']
R15_KINDS = [(p_, c_) for c_ in ('tiny', 'rel1e-6') for p_ in R15_PARAMS] + \
            [(p_, c_) for c_ in ('ulp', 'dec12') for p_ in ('noise', 'pl', 'P')]
R16_ROLES = ['big', 'pl', 'ple', 'post', 'solF', 'solU', 'P', 'F', 'FJ', 'U']

CAP_SHAPES = ['1d', 'scalar', 'npscalar', '0d', '2d', 'column', 'row', '3d', 'list', 'tuple', 'list-of-lists',
              'fortran', 'strided', 'reversed', 'empty', 'empty-2d', 'int', 'float32', 'per-user-arrays',
              'list-of-arrays']


def cap_arg(case):
    """the argument of calc_shannon_sum_capacity in the shape / container the case asks for;
    `case['sinrs']` is a list of rows (the entries, row by row)"""
    rows = [[float(x) for x in r] for r in case['sinrs']]
    flat = [x for r in rows for x in r]
    sh = case.get('shape', '1d')
    rect = rows and all(len(r) == len(rows[0]) for r in rows)
    a2 = np.array(rows, dtype=float) if rect else None
    if sh == 'scalar':
        return float(flat[0])
    if sh == 'npscalar':
        return np.float64(flat[0])
    if sh == '0d':
        return np.array(flat[0])
    if sh == '2d':
        return a2
    if sh == 'column':
        return np.array(flat).reshape(-1, 1)
    if sh == 'row':
        return np.array(flat).reshape(1, -1)
    if sh == '3d':
        return a2.reshape(a2.shape[0], 1, a2.shape[1])
    if sh == 'list':
        return list(flat)
    if sh == 'tuple':
        return tuple(flat)
    if sh == 'list-of-lists':
        return [list(r) for r in rows]
    if sh == 'fortran':
        return np.asfortranarray(a2)
    if sh == 'strided':
        return np.repeat(a2, 2, axis=1)[:, ::2]
    if sh == 'reversed':
        return a2[::-1, ::-1][::-1, ::-1]
    if sh == 'empty':
        return np.array([], dtype=float)
    if sh == 'empty-2d':
        return np.zeros((0, 3))
    if sh == 'int':
        return np.array(rows, dtype=np.int64)
    if sh == 'float32':
        return np.array(rows, dtype=np.float32)
    if sh == 'per-user-arrays':         # what calc_SINR returns: a 1-D array of 1-D arrays
        return obj([np.array(r) for r in rows])
    if sh == 'list-of-arrays':
        return [np.array(r) for r in rows]
    return np.array(flat)


def cap_entries(case):
    sh = case.get('shape', '1d')
    if sh in ('scalar', 'npscalar', '0d'):
        return [float(case['sinrs'][0][0])]
    if sh in ('empty', 'empty-2d'):
        return []
    return [float(x) for r in case['sinrs'] for x in r]


def o_capacity(case):
    """calc_shannon_sum_capacity of an argument of any shape: ONE number, sum of log2(1+x) over all entries"""
    _, _, misc = _impl()
    if isinstance(case['sinrs'], list) and case['sinrs'] and not isinstance(case['sinrs'][0], list):
        case = dict(case, sinrs=[case['sinrs']])        # older replay files: a flat list
    sh = case.get('shape', '1d')
    with np.errstate(all='ignore'):
        got = misc.calc_shannon_sum_capacity(cap_arg(case))
    if np.ndim(got) != 0:
        return ('capacity:not-a-scalar:' + sh, 'result has shape %s' % (np.shape(got),))
    ref = math.fsum(math.log2(1.0 + x) for x in cap_entries(case))
    if not core.close(float(got), ref, rtol=1e-12, atol=1e-12):
        return ('capacity:' + sh, 'reported %.17g, sum log2(1+x) over all entries %.17g' % (float(got), ref))
    buf = cap_arg(case)
    if isinstance(buf, np.ndarray) and buf.dtype.kind == 'f' and buf.flags.writeable and buf.size:
        # R16: the caller refills the SAME array object and asks again
        with np.errstate(all='ignore'):
            misc.calc_shannon_sum_capacity(buf)
            for factor in (3.0, 0.5):
                buf[...] = buf * factor
                got2 = misc.calc_shannon_sum_capacity(buf)
                ref2 = math.fsum(math.log2(1.0 + float(x)) for x in buf.reshape(-1))
                if np.ndim(got2) != 0 or not core.close(float(got2), ref2, rtol=1e-12, atol=1e-12):
                    return ('R16:capacity:refilled-argument:' + sh,
                            'after the argument array was refilled in place: reported %r, sum log2(1+x) %.17g' % (got2, ref2))
    return None


def o_forms(case):
    """R8: argument forms and equivalent entry points.  Positional / keyword (in any order) / default vs the
    default given explicitly; the external-interference class at pe = 0 against the plain class on the users'
    columns; covariance plus noise against covariance without noise + noise * I; the solver configured through
    (F, P) against full_F = F sqrt(P), through W against W_H, through the P setter (scalar) against the power
    vector; calc_sum_capacity against calc_shannon_sum_capacity(calc_SINR()); solver.calc_Q(k) against
    channel.calc_Q(k, full_F); the constructor argument by keyword"""
    mu, ia, misc = _impl()
    tag = 'extint' if case['ext'] else 'plain'
    K = case['K']
    ext = case['ext']

    def same(a, b, what):
        d = same_reports(a, b)
        return None if d is None else ('R8:%s:%s' % (what, tag), d)

    def rep(s, q):
        s = ('ok', [[float(x) for x in r] for r in s[1]]) if s[0] == 'ok' else s
        return s, q
    with np.errstate(all='ignore'):
        ch = build_channel(case)
        _, F, FJ, U = presented(case)
        Fs, FJs, Us = seq(case, F), seq(case, FJ), seq(case, U)
        pe = pe_args(case)
        kw = {'pe': pe[0]} if pe else {}
        for jp, (sm, qm, A) in enumerate(((ch.calc_SINR, ch.calc_Q, Fs), (ch.calc_JP_SINR, ch.calc_JP_Q, FJs))):
            pos = rep(call_guard(lambda: sm(A, Us, *pe)), [qm(k, A, *pe) for k in range(K)])
            key = rep(call_guard(lambda: sm(U=Us, F=A, **kw)), [qm(F_all_users=A, k=k, **kw) for k in range(K)])
            r = same(pos, key, ('jp' if jp else 'ic') + ':positional-vs-keyword')
            if r:
                return r
            if ext:
                v = pe_value(case)
                if v == 1.0:      # the default, left out / positional / by keyword
                    for form, a, k2 in (('omitted', (), {}), ('positional', (1.0,), {}), ('keyword', (), {'pe': 1.0})):
                        alt = rep(call_guard(lambda: sm(A, Us, *a, **k2)), [qm(k, A, *a, **k2) for k in range(K)])
                        r = same(pos, alt, ('jp' if jp else 'ic') + ':default-pe-' + form)
                        if r:
                            return r
        if ext:
            a = ch.calc_cov_matrix_extint_plus_noise(*pe)
            b = ch.calc_cov_matrix_extint_plus_noise(**kw)
            c0 = ch.calc_cov_matrix_extint_without_noise(*pe)
            nv = noise_value(case) or 0.0
            for k in range(K):
                if not mat_close(a[k], b[k], 1e-12) and np.abs(a[k]).max() > 0:
                    return ('R8:extint-covariance:positional-vs-keyword:' + tag, 'receiver %d' % k)
                if not mat_close(a[k], c0[k] + nv * np.eye(case['Nr'][k]), 1e-12) and np.abs(a[k]).max() > 0:
                    return ('R8:extint-covariance:plus-noise-vs-without-noise:' + tag, 'receiver %d' % k)
            # pe = 0: the class with external interference must agree with the plain class on the users' part
            c0case = dict(case, pe=0.0, petype='float')
            plain = dict(case, ext=False, NtE=[], pe=None, ple=None)
            big = dec(case['big'])
            plain['big'] = enc(np.asarray(big)[:, :sum(case['Nt'])])
            for jp in (False, True):
                r = same(run_channel(c0case, jp), run_channel(plain, jp), ('jp' if jp else 'ic') + ':pe=0-vs-plain-class')
                if r:
                    return r
        if case.get('solver'):
            def solver(how):
                c2 = build_channel(case)
                sol = ia.IASolverBaseClass(multiUserChannel=c2) if how == 'ctor-keyword' else ia.IASolverBaseClass(c2)
                pv = p_values(case)
                Fa = arrays(case)[1]
                if how == 'full_F' and pv is not None:
                    sol.set_precoders(full_F=obj([np.asarray(Fa[k], dtype=complex) * math.sqrt(pv[k]) for k in range(K)]))
                elif how == 'P-setter-after' and pv is not None:
                    sol.set_precoders(F=seq(case, F))
                    sol.P = np.array(pv)
                elif how == 'P-scalar' and pv is not None and len(set(pv)) == 1:
                    sol.P = pv[0]
                    sol.set_precoders(F=seq(case, F))
                else:
                    sync_solver(sol, case, filters=False)
                if how == 'W':
                    sol.set_receive_filters(W=seq(case, U))
                else:
                    sol.set_receive_filters(W_H=seq(case, [u.conj().T for u in U]))
                return sol, c2
            base_sol, base_ch = solver('W_H')
            base = eval_solver(base_sol, base_ch, case)
            if isinstance(base, dict):
                for how in ('full_F', 'P-setter-after', 'P-scalar', 'W', 'ctor-keyword'):
                    sol2, ch2 = solver(how)
                    o = eval_solver(sol2, ch2, case)
                    if not isinstance(o, dict):
                        continue
                    r = same((base['sinr'], base['Q']), (o['sinr'], o['Q']), 'solver:' + how)
                    if r:
                        return r
                if base['sinr'][0] == 'ok':
                    cap2 = float(misc.calc_shannon_sum_capacity(base_sol.calc_SINR()))
                    if not core.close(base['cap'], cap2, rtol=1e-12):
                        return ('R8:calc_sum_capacity-vs-calc_shannon_sum_capacity:' + tag, '%.17g vs %.17g' % (base['cap'], cap2))
                for k in range(K):
                    if not mat_close(base['Q'][k], base_ch.calc_Q(k, base_sol.full_F), 1e-12) and np.abs(base['Q'][k]).max() > 0:
                        return ('R8:solver.calc_Q-vs-channel.calc_Q:' + tag, 'receiver %d' % k)
    return None


INDEX_METHODS = ['calc_Q', 'calc_JP_Q', 'get_Hkl', 'get_Hk', 'get_Hk_without_ext_int', 'solver.calc_Q',
                 'solver.calc_remaining_interference_percentage']


def o_index(case):
    """R1 for INDEX arguments: every receiver / transmitter index argument of every public method, given as
    Python int, numpy integer of every width and signedness, np.intp, 0-d integer array and a run-time-built
    int (not the cached small-int object above 256), designates the user with that VALUE: same result as for
    the plain Python int, and Q = sum of the interfering links' covariances for exactly that receiver"""
    _, ia, _ = _impl()
    tag = 'extint' if case['ext'] else 'plain'
    K = case['K']
    with np.errstate(all='ignore'):
        ch = build_channel(case)
        _, F, FJ, U = presented(case)
        Fs, FJs = seq(case, F), seq(case, FJ)
        pe = pe_args(case)
        sol = None
        if case.get('solver'):
            sol = ia.IASolverBaseClass(ch)
            sync_solver(sol, case)
        ks = case.get('ks') or list(range(K))
        Fc = [np.asarray(x, dtype=complex) for x in arrays(case)[1]]
        FJc = [np.asarray(x, dtype=complex) for x in arrays(case)[2]]
        qref = dict(zip(ks, fp_Q(case, 'ic', Fc, pe_value(case), noise_value(case), only=ks)))
        qjref = dict(zip(ks, fp_Q(case, 'jp', FJc, pe_value(case), noise_value(case), only=ks)))
        for k in ks:
            l = (k + 1) % K
            calls = {'calc_Q': lambda a, b: ch.calc_Q(a, Fs, *pe),
                     'calc_JP_Q': lambda a, b: ch.calc_JP_Q(a, FJs, *pe),
                     'get_Hkl': lambda a, b: ch.get_Hkl(a, b),
                     'get_Hk': lambda a, b: ch.get_Hk(a)}
            if case['ext']:
                calls['get_Hk_without_ext_int'] = lambda a, b: ch.get_Hk_without_ext_int(a)
            if sol is not None:
                calls['solver.calc_Q'] = lambda a, b: sol.calc_Q(a)
                calls['solver.calc_remaining_interference_percentage'] = \
                    lambda a, b: sol.calc_remaining_interference_percentage(a)
            plain = {}
            for name, fn in calls.items():
                try:
                    plain[name] = np.array(fn(k, l))
                except np.linalg.LinAlgError:
                    plain[name] = None
            if not mat_close(plain['calc_Q'], qref[k]):
                return ('R1:index:calc_Q:not-sum-of-links:int:' + tag, 'k = %d' % k)
            if not mat_close(plain['calc_JP_Q'], qjref[k]):
                return ('R1:index:calc_JP_Q:not-sum-of-links:int:' + tag, 'k = %d' % k)
            for t in IDX_TYPES[1:]:
                if not (idx_fits(k, t) and idx_fits(l, t)):
                    continue
                for name, fn in calls.items():
                    if plain[name] is None:
                        continue
                    try:
                        r = np.array(fn(idx_typed(k, t), idx_typed(l, t)))
                    except Exception as e:
                        return ('R1:index:%s:exception:%s:%s' % (name, t, tag),
                                'k = %d as %s: %s' % (k, t, repr(e)[:200]))
                    if r.shape != plain[name].shape or not (
                            np.array_equal(r, plain[name], equal_nan=r.dtype.kind in 'fc') or mat_close(r, plain[name], 1e-12)):
                        return ('R1:index:%s:differs-from-python-int:%s:%s' % (name, t, tag),
                                'k = %d as %s' % (k, t))
    return None


# ------------------------------------------------------------- long-lived objects
def run_session(sess):
    """ONE channel object and ONE IA solver bound to it live through the steps of `sess`; after every
    step every reported quantity is collected.  Returns one record per step with the scenario the object
    is in at that point (`case`: current raw channel, current path loss, current noise variance, …).
    `sess['buffers']` (R16): every array argument of every call is the caller's ONE buffer for that argument,
    refilled in place before the call and overwritten with junk right after a setter took it."""
    global _POOL
    pool = Pool() if sess.get('buffers') else None
    _POOL = pool
    try:
        with np.errstate(all='ignore'):
            out = _run_session(sess)
    finally:
        _POOL = None
    if pool is not None and out:
        out[-1]['pool'] = {'refilled': dict(pool.refilled), 'scribbled': pool.scribbled}
    return out


def observe(ch, sols, ext):
    """every public observable of the channel object and of the solvers bound to it (copies)"""
    def cp(x):
        if x is None:
            return None
        if isinstance(x, np.ndarray) and x.dtype == object:
            return [cp(y) for y in x]
        if isinstance(x, (list, tuple)):
            return [cp(y) for y in x]
        return np.array(x)
    o = {'K': ch.K, 'Nr': cp(ch.Nr), 'Nt': cp(ch.Nt), 'noise_var': ch.noise_var, 'pathloss': cp(ch.pathloss),
         'big_H': cp(ch.big_H), 'H': cp(ch.H), 'W': cp(ch.W)}
    if ext:
        o['extIntK'] = ch.extIntK
        o['extIntNt'] = cp(ch.extIntNt)
    for i, sol in enumerate(sols):
        if sol is not None:
            o['sol%d' % i] = {'F': cp(sol.F), 'full_F': cp(sol.full_F) if sol.F is not None else None,
                              'P': cp(sol.P), 'Ns': cp(sol.Ns), 'W_H': cp(sol.W_H), 'noise_var': sol.noise_var}
    return o


def same_obs(a, b, path=''):
    """None | name of the first observable that differs"""
    if isinstance(a, dict):
        for k in a:
            r = same_obs(a[k], b.get(k) if isinstance(b, dict) else None, path + '.' + str(k))
            if r:
                return r
        return None
    if isinstance(a, list):
        if not isinstance(b, list) or len(a) != len(b):
            return path
        for i, (x, y) in enumerate(zip(a, b)):
            r = same_obs(x, y, path + '[%d]' % i)
            if r:
                return r
        return None
    if a is None or b is None:
        return None if (a is None and b is None) else path
    a1, b1 = np.asarray(a), np.asarray(b)
    if a1.shape != b1.shape or a1.dtype != b1.dtype or not np.array_equal(a1, b1, equal_nan=a1.dtype.kind in 'fc'):
        return path
    return None


def rejected_call(name, ch, sol, c, ext):
    """perform ONE call that the public API must refuse (bad argument / guard); returns the exception"""
    K = c['K']
    Nr, Nt, NtE = list(c['Nr']), list(c['Nt']), list(c['NtE'])
    more = NtE + [1] if ext else []             # announces one more external source than the object has
    fewer = NtE[:-1] if len(NtE) > 1 else (NtE + [2] if ext else [])
    extra = (np.array(more, dtype=int),) if ext else ()
    extra2 = (np.array(fewer, dtype=int),) if ext else ()
    _, F, _, U = arrays(c)
    try:
        if name == 'init:shape':
            ch.init_from_channel_matrix(np.ones((sum(Nr) + 1, sum(Nt) + sum(more)), dtype=complex),
                                        np.array(Nr), np.array(Nt), K, *extra)
        elif name == 'init:shape-fewer-sources':
            ch.init_from_channel_matrix(np.ones((sum(Nr), sum(Nt) + sum(fewer) + 1), dtype=complex),
                                        np.array(Nr), np.array(Nt), K, *extra2)
        elif name == 'init:K':
            ch.init_from_channel_matrix(np.ones((sum(Nr), sum(Nt) + sum(more)), dtype=complex),
                                        np.array(Nr), np.array(Nt), K + 1, *extra)
        elif name == 'randomize:K':
            ch.randomize(np.array(Nr), np.array(Nt), K + 1, *extra)
        elif name == 'pathloss:shape':
            if ext:
                ch.set_pathloss(np.ones((K, K)), np.ones((K + 1, len(NtE))))
            else:
                ch.set_pathloss(np.ones((max(K - 1, 0), max(K - 1, 0))))
        elif name == 'pathloss:missing-ext':
            ch.set_pathloss(np.ones((K, K)), None)
        elif name == 'noise:negative':
            ch.noise_var = -1.0
        elif name == 'calc:bad-F':
            bad = obj([np.ones((f.shape[0] + 1, max(f.shape[1], 1)), dtype=complex) for f in F])
            ch.calc_SINR(bad, obj(U))
        elif name == 'precoders:none':
            sol.set_precoders()
        elif name == 'filters:none':
            sol.set_receive_filters()
        elif name == 'filters:both':
            sol.set_receive_filters(W_H=obj([u.conj().T for u in U]), W=obj(U))
        elif name == 'P:negative':
            sol.P = -1.0
        elif name == 'P:zero':
            sol.P = 0
        elif name == 'P:length':
            sol.P = np.ones(K + 1)
        elif name == 'P:one-negative':
            sol.P = np.array([1.0] * (K - 1) + [-2.0])
        elif name == 'randomizeF:bad-P':
            sol.randomizeF(np.array(c['Ns'], dtype=int), -1.0)
        else:
            raise KeyError(name)
    except KeyError:
        raise
    except Exception as e:      # noqa: the refusal
        return e
    return None


QUERIES = ['calc_SINR', 'calc_JP_SINR', 'calc_Q', 'calc_JP_Q', 'get_Hkl', 'get_Hk', 'H', 'big_H', 'repr', 'W',
           'solver.calc_SINR', 'solver.calc_SINR_in_dB', 'solver.calc_sum_capacity', 'solver.calc_Q', 'solver.full_W_H',
           'solver.full_W', 'solver.get_cost', 'solver.calc_remaining_interference_percentage']
QUERIES_EXT = ['calc_cov_matrix_extint_plus_noise', 'calc_cov_matrix_extint_without_noise', 'get_Hk_without_ext_int',
               'H_no_ext_int', 'big_H_no_ext_int']


def run_query(name, ch, sol, c, ext):
    """ONE call of the public API that only asks for something"""
    _, F, FJ, U = presented(c)
    pe = pe_args(c)
    k = c['K'] - 1

    def objs(role, mats):       # R16: the caller's one container of its own buffers, when it keeps buffers
        return obj(mats) if _POOL is None else _POOL.container(role, 'objarray', mats)
    if name == 'calc_SINR':
        return ch.calc_SINR(objs('F', F), objs('U', U), *pe)
    if name == 'calc_JP_SINR':
        return ch.calc_JP_SINR(objs('FJ', FJ), objs('U', U), *pe)
    if name == 'calc_Q':
        return ch.calc_Q(k, objs('F', F), *pe)
    if name == 'calc_JP_Q':
        return ch.calc_JP_Q(k, objs('FJ', FJ), *pe)
    if name == 'get_Hkl':
        return ch.get_Hkl(k, 0)
    if name == 'get_Hk':
        return ch.get_Hk(k)
    if name in ('H', 'big_H', 'W', 'H_no_ext_int', 'big_H_no_ext_int'):
        return getattr(ch, name)
    if name == 'repr':
        return (repr(ch), str(ch), repr(sol))
    if name in ('calc_cov_matrix_extint_plus_noise', 'calc_cov_matrix_extint_without_noise'):
        return getattr(ch, name)(*pe)
    if name == 'get_Hk_without_ext_int':
        return ch.get_Hk_without_ext_int(k)
    if name.startswith('solver.'):
        m = name[7:]
        if m in ('full_W_H', 'full_W'):
            return getattr(sol, m)
        if m in ('calc_Q', 'calc_remaining_interference_percentage'):
            return getattr(sol, m)(k)
        return getattr(sol, m)()
    raise KeyError(name)


REJECTS_CHANNEL = ['init:shape', 'init:K', 'randomize:K', 'pathloss:shape', 'noise:negative', 'calc:bad-F']
REJECTS_EXT = ['init:shape-fewer-sources', 'pathloss:missing-ext']
REJECTS_SOLVER = ['precoders:none', 'filters:none', 'filters:both', 'P:negative', 'P:zero', 'P:length',
                  'P:one-negative', 'randomizeF:bad-P']


def second_case(c, F2, U2):
    """the scenario as the SECOND solver sharing the channel object sees it: its own precoders (handed
    over scaled, no power vector) and filters"""
    return dict(c, F=F2, U=U2, P=None, ptype='float', set_W=False, Ns=[f['shape'][1] for f in F2])


def _run_session(sess):
    mu, ia, _ = _impl()
    ext = sess['ext']
    ch = mu.MultiUserChannelMatrixExtInt() if ext else mu.MultiUserChannelMatrix()
    sol = None
    sol2 = None                 # a second solver bound to the SAME channel object (R7: shared objects)
    sol_ok = False
    cur_big = None
    out = []
    cur_F = None
    F2 = U2 = None
    sol2_layout = None
    held = []                   # (label, array as returned earlier, copy taken then) — R3: outputs stay put
    child = None
    for st in sess['steps']:
        c = dict(st['case'])
        ops = st['ops']
        K = c['K']
        if c['F'] is None:      # inherited from the previous step (or about to be drawn by randomizeF)
            c['F'] = cur_F
        Nr = pooled('Nr', dims_arg(c, c['Nr']))
        Nt = pooled('Nt', dims_arg(c, c['Nt']))
        extra = (pooled('NtE', dims_arg(c, c['NtE'], scalar_ok=len(c['NtE']) == 1)),) if ext else ()
        if ops['real'] == 'init':
            ch.init_from_channel_matrix(pooled('big', presented(c)[0]), Nr, Nt, k_arg(c), *extra)
        elif ops['real'] == 'randomize':
            ch.set_channel_seed(ops['seed'])
            ch.randomize(Nr, Nt, k_arg(c), *extra)
            # the raw realisation the object now stores (before any path loss)
            c['big'] = enc(np.array(ch._big_H_no_pathloss, dtype=complex))
        else:
            c['big'] = cur_big
        cur_big = c['big']
        for which in ops.get('setter_order') or ['pl', 'noise', 'post']:     # independent setters, any order
            if which == 'pl':
                if ops['pl'] == 'set':
                    pl_, ple_ = pl_args(c)
                    if ext:
                        ch.set_pathloss(pooled('pl', pl_), pooled('ple', ple_))
                    else:
                        ch.set_pathloss(pooled('pl', pl_))
                elif ops['pl'] == 'none':
                    ch.set_pathloss(None)
            elif which == 'noise':
                if ops['noise'] == 'set':
                    ch.noise_var = noise_arg(c)
            elif ops.get('post'):
                ch.set_post_filter(seq(c, presented(c)[3], role='post'))
        if _POOL is not None:       # R16: the object owns what it was given; the caller's buffers move on
            _POOL.scribble()
        if sol is None:
            sol = ia.IASolverBaseClass(ch)
        if ops['sol'] != 'sync' and not sol_ok:
            # the solver was outside its preconditions in the previous step (singular equivalent channel):
            # start over with everything handed over again
            ops = dict(ops, sol='sync')
        if ops['sol'] == 'sync':
            sync_solver(sol, c)
        elif ops['sol'] == 'precoders':         # new precoders / powers, the filters stay where they are
            sync_solver(sol, c, filters=False)
        elif ops['sol'] == 'filters':           # new filters only
            sync_solver(sol, c, precoders=False)
        elif ops['sol'] == 'P':                 # only the power, through the property setter
            sol.P = pooled('P', p_arg(c))
        elif ops['sol'] == 'randomizeF':        # random unit-norm precoders drawn by the solver itself
            sol._rs.seed(ops['seed'])
            sol.randomizeF(pooled('Ns', np.array(c['Ns'], dtype=int)), pooled('P', p_arg(c)))
            c['F'] = [enc(np.array(sol.F[k], dtype=complex)) for k in range(K)]
        if _POOL is not None:
            _POOL.scribble()
        cur_F = c['F']
        rec = {'case': c, 'ops': ops}
        if sess.get('r15'):         # what the object says it holds right after the setters
            rec['stored'] = {'noise_var': ch.noise_var,
                             'pathloss': None if ch.pathloss is None else np.array(ch.pathloss),
                             'P': np.array(sol.P), 'F': [np.array(x) for x in sol.F],
                             'W_H': [np.array(x) for x in sol.W_H]}
        # R7: the second solver gets its own precoders / filters when the layout changed (or first), and is
        # otherwise left alone while the first solver and the channel object are being driven
        lay = (tuple(c['Nr']), tuple(c['Nt']), tuple(c['Ns']))
        if sol2 is None:
            sol2 = ia.IASolverBaseClass(ch)
        sync2 = (sol2_layout != lay) or bool(ops.get('sol2'))
        if sync2:
            F2 = [enc(np.conj(dec(f)) * (1 + 0.5j)) for f in c['F']]
            U2 = [enc(np.asarray(dec(u), dtype=complex) * 1j) for u in c['U']]
            sync_solver(sol2, second_case(c, F2, U2))
            sol2_layout = lay
        # R11: calls that only ASK — none of them may move any observable of the channel object or of either solver
        rec['queried'] = []
        for name in ops.get('query', []):
            before = observe(ch, [sol, sol2], ext)
            try:
                run_query(name, ch, sol, c, ext)
            except (np.linalg.LinAlgError, ZeroDivisionError):
                pass
            changed = same_obs(before, observe(ch, [sol, sol2], ext))
            rec['queried'].append({'call': name, 'changed': changed})
        # R4: calls the API must refuse — each must raise and leave EVERY observable as it was
        rec['rejected'] = []
        for name in ops.get('reject', []):
            before = observe(ch, [sol, sol2], ext)
            exc = rejected_call(name, ch, sol, c, ext)
            try:
                after = observe(ch, [sol, sol2], ext)
                changed = same_obs(before, after)
            except Exception as e:      # the object can no longer even be observed
                changed = 'unobservable:' + type(e).__name__
            rec['rejected'].append({'call': name, 'raised': None if exc is None else type(exc).__name__,
                                    'changed': changed})
        if any(r['changed'] or r['raised'] is None for r in rec['rejected']):
            rec['abort'] = True         # the object is no longer in a known state: the history ends here
            out.append(rec)
            return out
        for what in ops['order']:
            if what == 'sol':
                try:
                    rec['sol'] = eval_solver(sol, ch, c, synced=(ops['sol'] != 'untouched'))
                except np.linalg.LinAlgError:
                    rec['sol'] = None
                sol_ok = isinstance(rec['sol'], dict)
            else:
                rec[what] = eval_channel(ch, c, what == 'jp')
                if ops.get('repeat'):       # R7: asking again changes nothing
                    rec[what + '2'] = eval_channel(ch, c, what == 'jp')
        c2 = second_case(c, F2, U2)
        try:
            rec['sol2'] = None if ops.get('no_sol2') else eval_solver(sol2, ch, c2, synced=sync2)
        except np.linalg.LinAlgError:
            rec['sol2'] = None
        rec['case2'] = c2
        # R3: what earlier steps returned has not moved
        rec['moved'] = [lab for lab, arr, cp in held if not (arr.shape == cp.shape and np.array_equal(arr, cp))]
        for what in ('ic', 'jp'):
            for k, q in enumerate(rec[what][1]):
                held.append(('%s.Q[%d]@step%d' % (what, k, len(out)), q, np.array(q)))
        if isinstance(rec.get('sol'), dict):
            for k, q in enumerate(rec['sol']['Q']):
                held.append(('sol.Q[%d]@step%d' % (k, len(out)), q, np.array(q)))
        held = held[-40:]
        out.append(rec)
        # R13: an object DERIVED from the live ones (deep copy / pickle round trip of solver + channel), changed
        # on its own right away, evaluated only after the parents have gone through the rest of their life
        if ops.get('derive') and child is None and sol_ok:
            import copy
            import pickle
            pair = copy.deepcopy((ch, sol)) if ops['derive'] == 'deepcopy' else pickle.loads(pickle.dumps((ch, sol)))
            cc = dict(c)
            if ops.get('derive_change', 'noise') == 'noise':
                cc = dict(c, noise=7.0, ntype='float')
                pair[0].noise_var = 7.0
            child = (pair, cc, ops['derive'], len(out) - 1)
    if child is not None:
        (cch, csol), cc, how, at = child
        crec = {'case': cc, 'how': how, 'at': at, 'ic': eval_channel(cch, cc, False), 'jp': eval_channel(cch, cc, True),
                'same_channel': csol._multiUserChannel is cch}
        try:
            crec['sol'] = eval_solver(csol, cch, cc, synced=False)
        except np.linalg.LinAlgError:
            crec['sol'] = None
        out[-1]['child'] = crec
    return out


def same_reports(a, b):
    """two (sinr, Q list) reports agree"""
    if a[0][0] != b[0][0]:
        return 'status %s vs %s' % (a[0], b[0])
    if a[0][0] == 'ok':
        for k, r in enumerate(a[0][1]):
            for l, v in enumerate(r):
                if not sinr_close(v, b[0][1][k][l]):
                    return 'stream (%d,%d): %.17g vs %.17g' % (k, l, v, b[0][1][k][l])
    for k in range(len(a[1])):
        if not mat_close(a[1][k], b[1][k]):
            return 'Q of receiver %d' % k
    return None


def o_session(sess):
    """after EVERY step of the life of one channel object + one solver: every reported quantity equals
    first principles on the CURRENT raw channel / path loss / noise / precoders / filters, and equals what
    a fresh object reports for the same current inputs"""
    return judge_session(sess, run_session(sess))


def judge_session(sess, recs):
    """what one channel object + solver reported along the session `sess` (`recs` = run_session(sess))"""
    tag = 'extint' if sess['ext'] else 'plain'
    for i, rec in enumerate(recs):
        c, ops = rec['case'], rec['ops']
        for rj in rec.get('rejected', []):
            if rj['raised'] is None:
                return ('R4:not-refused:%s:%s' % (rj['call'], tag), 'step %d' % i)
            if rj['changed']:
                return ('R4:refused-call-changed-the-object:%s:%s' % (rj['call'], tag),
                        'step %d: %s differs after the %s' % (i, rj['changed'], rj['raised']))
        rj = rec.get('rejected') or []
        where = '@%s/%s%s:%s' % (ops['real'], ops['pl'], ('+after-refused-' + rj[0]['call']) if rj else '', tag)
        for what, name in (('ic', 'calc_SINR'), ('jp', 'calc_JP_SINR')):
            r = judge_channel(c, what == 'jp', *rec[what])
            if r is not None:
                return ('%s:%s%s' % (name, r[0].split(':')[0], where), 'step %d: %s' % (i, r[1]))
            d = same_reports(rec[what], run_channel(c, what == 'jp'))
            if d is not None:
                return ('%s:differs-from-fresh-object%s' % (name, where), 'step %d: %s' % (i, d))
        for qy in rec.get('queried', []):
            if qy['changed']:
                return ('R11:query-changed-the-object:%s:%s' % (qy['call'], tag),
                        'step %d: %s differs after the call' % (i, qy['changed']))
        if rec.get('child'):
            cr = rec['child']
            cw = ':%s:%s' % (cr['how'], tag)
            if not cr['same_channel']:
                return ('R13:derived-solver-not-bound-to-derived-channel' + cw, 'derived at step %d' % cr['at'])
            for what, name in (('ic', 'calc_SINR'), ('jp', 'calc_JP_SINR')):
                r = judge_channel(cr['case'], what == 'jp', *cr[what])
                if r is not None:
                    return ('R13:derived-object:%s:%s%s' % (name, r[0].split(':')[0], cw),
                            'derived at step %d, evaluated after the parents moved on: %s' % (cr['at'], r[1]))
            if isinstance(cr.get('sol'), dict):
                r = judge_solver(cr['case'], cr['sol'])
                if r is not None:
                    return ('R13:derived-object:IASolver:%s%s' % (r[0].split(':')[0], cw),
                            'derived at step %d: %s' % (cr['at'], r[1]))
        if rec.get('moved'):
            return ('R3:earlier-output-changed:%s' % tag, 'step %d: %s' % (i, rec['moved'][:3]))
        for what in ('ic', 'jp'):
            if what + '2' in rec:
                d = same_reports(rec[what], rec[what + '2'])
                if d is not None:
                    return ('R7:second-call-differs:%s:%s' % (what, tag), 'step %d: %s' % (i, d))
        o2 = rec.get('sol2')
        if isinstance(o2, dict):
            r = judge_solver(rec['case2'], o2)
            if r is not None:
                return ('R7:second-solver:%s%s' % (r[0].split(':')[0], where), 'step %d: %s' % (i, r[1]))
        o = rec.get('sol')
        if isinstance(o, dict) and ops['sol'] != 'untouched':
            # the equivalent channel passed the conditioning pre-check, so np.linalg.solve is accurate: a
            # full_W_H that does not compensate the CURRENT equivalent channel is a stale one
            if o['contract'] > 1e-7:
                return ('IASolver:full_W_H-not-for-current-inputs%s' % where,
                        'step %d (solver op %s): |Hieq full_W_H - W_H| = %.3e' % (i, ops['sol'], o['contract']))
            if o['contract'] > 1e-9:
                o = None
        if isinstance(o, dict):
            r = judge_solver(c, o)
            if r is not None:
                return ('IASolver:%s%s' % (r[0].split(':')[0], where), 'step %d: %s' % (i, r[1]))
            if ops['sol'] != 'untouched':
                f = run_solver(c)
                if isinstance(f, dict):
                    d = same_reports((o['sinr'], o['Q']), (f['sinr'], f['Q']))
                    if d is None and o['sinr'][0] == 'ok' and not core.close(o['cap'], f['cap'], rtol=1e-9 * (1 + sum(sum(r) for r in o['sinr'][1]))):
                        d = 'sum capacity %.17g vs %.17g' % (o['cap'], f['cap'])
                    if d is not None:
                        return ('IASolver:differs-from-fresh-object%s' % where, 'step %d: %s' % (i, d))
    return None


# ------------------------------------------------------------------ R15 / R16
def sinr_fp(case, variant='ic', as_solver=False):
    """first-principles SINR of every stream of the scenario: {(k, l): value, None for a zero denominator}
    (`as_solver`: precoders scaled by sqrt(P), external sources at the default power — a proxy of what the
    solver reports, with the raw filters)"""
    _, F, FJ, U = arrays(case)
    Fc = [np.asarray(x, dtype=complex) for x in (FJ if variant == 'jp' else F)]
    pe = pe_value(case)
    if as_solver:
        pv = p_values(case)
        Fc = [Fc[k] * (1.0 if pv is None else math.sqrt(pv[k])) for k in range(case['K'])]
        pe = pe_value(dict(case, pe=None))
    Uc = [np.asarray(x, dtype=complex) for x in U]
    fp = fp_streams(case, variant, Fc, Uc, pe, noise_value(case))
    return {kl: (sg / d if d else None) for kl, (sg, d) in fp.items()}


def fp_margin(a, b):
    """by how many comparison tolerances (of sinr_close) two first-principles reports differ, at the stream
    where they differ most"""
    m = 0.0
    for kl in a:
        x, y = a[kl], b.get(kl)
        if x is None or y is None:
            continue
        top = max(abs(x), abs(y))
        m = max(m, abs(x - y) / (1e-9 * max(top, 1e-300) * (1.0 + top) + 1e-18))
    return m


def stored_mismatch(c, st, ext):
    """R15: what the objects say they hold (`st`) against what the setters were given, EXACTLY (no arithmetic
    lies between the two; a value one ulp away from the previous one is a new value)"""
    K = c['K']
    nv = noise_value(c)
    got = st['noise_var']
    if (got is None) != (nv is None) or (nv is not None and float(got) != nv):
        return ('noise_var', 'noise_var reads %r after it was set to %r' % (got, nv))
    if c['pl'] is None:
        if st['pathloss'] is not None:
            return ('pathloss', 'a path loss is stored, none was set')
    else:
        want = np.array(c['pl'], dtype=float).reshape(K, K)
        if ext:
            want = np.hstack([want, np.array(c['ple'], dtype=float).reshape(K, len(c['NtE']))])
        if st['pathloss'] is None or st['pathloss'].shape != want.shape or not np.array_equal(st['pathloss'], want):
            return ('pathloss', 'the stored path loss is not the matrix that was set last')
    pv = p_values(c)
    _, F, _, U = arrays(c)
    if pv is not None:
        if not np.array_equal(st['P'], np.array(pv, dtype=float)):
            return ('P', 'P reads %r after it was set to %r' % (st['P'].tolist(), pv))
        for k in range(K):
            if not np.array_equal(st['F'][k], np.asarray(F[k], dtype=complex)):
                return ('F', 'the stored precoder of user %d is not the one handed over last' % k)
    for k in range(K):
        if not np.array_equal(st['W_H'][k], np.asarray(U[k], dtype=complex).conj().T):
            return ('W_H', 'the stored receive filter of user %d is not the one handed over last' % k)
    return None


def o_close(sess):
    """R15: ONE channel object + solver taken through values of one parameter that are DISTINCT but merely close
    (tiny magnitudes that `np.isclose` identifies with 0 and with each other; values a relative 1e-6 apart;
    adjacent doubles; values that differ beyond the 12th decimal).  After every step every report is first
    principles / the model / a fresh object for exactly THAT value, and the value the objects say they hold is
    bit for bit the value the setter was given"""
    param, kind = sess['r15']
    where = 'R15:%s:%s:' % (param, kind)
    recs = run_session(sess)
    r = judge_session(sess, recs)
    if r is not None:
        return (where + r[0], r[1])
    for i, rec in enumerate(recs):
        if rec.get('stored') is not None:
            bad = stored_mismatch(rec['case'], rec['stored'], sess['ext'])
            if bad:
                return (where + 'setter-did-not-take-the-value:' + bad[0], 'step %d: %s' % (i, bad[1]))
    return None


def o_buffers(sess):
    """R16 (i) + (iii): the session of o_session, with every array argument of every call being the caller's ONE
    buffer for that argument — refilled in place before the call, overwritten with junk as soon as a setter has
    taken it.  Reports depend on the contents at call time only: first principles / fresh object on the current
    contents after every step, earlier results untouched"""
    r = judge_session(sess, run_session(dict(sess, buffers=True)))
    return None if r is None else ('R16:caller-buffers:' + r[0], r[1])


def o_roles(case):
    """R16 (ii) + (iv): ONE array object in two roles — the same container of the same arrays as precoders AND
    as receive filters (`calc_SINR(X, X)`; K = 1: `calc_JP_SINR(X, X)`), one array object as the precoder of
    every user, one integer array as Nr, Nt (and NtE), one matrix as path loss and external path loss, the
    solver given `F=X, full_F=X` and `W_H=X` — against first principles on the contents, and against the same
    calls made with equal-content but separate objects.  Nothing handed over is changed."""
    mu, ia, _ = _impl()
    K, ext = case['K'], case['ext']
    tag = 'extint' if ext else 'plain'
    with np.errstate(all='ignore'):
        big = np.array(dec(case['big']), dtype=complex)
        N = np.array(case['Nr'], dtype=int)
        X = [np.array(dec(x), dtype=complex) for x in case['F']]
        if case.get('shared_user_array'):
            X = [X[0]] * K
        Xc = list(X) if case.get('as_list') else obj(X)
        p = None if case['pl'] is None else np.array(case['pl'], dtype=float).reshape(K, K)
        snap = {'X': [np.array(x) for x in X], 'N': np.array(N), 'p': None if p is None else np.array(p),
                'big': np.array(big)}

        def copies():
            return obj([np.array(x) for x in snap['X']])

        def build(same):
            ch = mu.MultiUserChannelMatrixExtInt() if ext else mu.MultiUserChannelMatrix()
            if same:
                ch.init_from_channel_matrix(big, N, N, K, *((N,) if ext else ()))
                if p is not None:
                    ch.set_pathloss(*((p, p) if ext else (p,)))
            else:
                ch.init_from_channel_matrix(np.array(big), np.array(N), np.array(N), K,
                                            *((np.array(N),) if ext else ()))
                if p is not None:
                    ch.set_pathloss(*((np.array(p), np.array(p)) if ext else (np.array(p),)))
            ch.noise_var = noise_arg(case)
            return ch

        def intact(when):
            for k in range(K):
                if not np.array_equal(X[k], snap['X'][k]):
                    return ('R16:shared-argument-modified:X:' + tag, 'array of user %d %s' % (k, when))
            if not np.array_equal(N, snap['N']) or not np.array_equal(big, snap['big']):
                return ('R16:shared-argument-modified:N-or-channel:' + tag, when)
            if p is not None and not np.array_equal(p, snap['p']):
                return ('R16:shared-argument-modified:pathloss:' + tag, when)
            return None
        ch, ch2 = build(True), build(False)
        pe = pe_args(case)

        def ask(c_, F_, U_, jp):
            sm, qm = (c_.calc_JP_SINR, c_.calc_JP_Q) if jp else (c_.calc_SINR, c_.calc_Q)
            sr = call_guard(lambda: sm(F_, U_, *pe))
            if sr[0] == 'ok':
                sr = ('ok', [[float(x) for x in r] for r in sr[1]])
            return sr, [qm(k, F_, *pe) for k in range(K)]
        for jp in ((False, True) if K == 1 else (False,)):
            name = 'calc_JP_SINR' if jp else 'calc_SINR'
            same = ask(ch, Xc, Xc, jp)
            r = judge_channel(case, jp, *same)
            if r is not None:
                return ('R16:same-object-as-F-and-U:%s:%s' % (name, r[0]), r[1])
            r = intact('after %s(X, X)' % name)
            if r:
                return r
            d = same_reports(same, ask(ch2, copies(), copies(), jp))
            if d is not None:
                return ('R16:same-object-vs-equal-copies:%s:%s' % (name, tag), d)
        # the solver: the same container as F, as full_F (no power vector: P = 1) and as W_H
        sol = ia.IASolverBaseClass(ch)
        sol.set_precoders(F=Xc, full_F=Xc)
        sol.set_receive_filters(W_H=Xc)
        cs = dict(case, P=None, ptype='float', set_W=False, U=[enc(x.conj().T) for x in snap['X']])
        try:
            out = eval_solver(sol, ch2, cs)
        except np.linalg.LinAlgError:
            out = None
        r = judge_solver(cs, out)
        if r is not None:
            return ('R16:same-object-as-F-full_F-and-W_H:' + r[0], r[1])
        r = intact('after the solver was given X as F, full_F and W_H')
        if r:
            return r
        if isinstance(out, dict):
            f = run_solver(cs)
            if isinstance(f, dict):
                d = same_reports((out['sinr'], out['Q']), (f['sinr'], f['Q']))
                if d is not None:
                    return ('R16:same-object-vs-equal-copies:IASolver:' + tag, d)
    return None


def o_immutable(case):
    """R3: the arrays handed to the code are left exactly as they were (values, dtype, flags); what the code
    returns shares no memory with them; what an earlier call returned does not move when later calls are
    made, when the caller overwrites its own arrays afterwards, or when the caller scribbles on a result"""
    import copy
    mu, ia, _ = _impl()
    tag = variant_tag(case)
    K = case['K']
    with np.errstate(all='ignore'):
        big, F, FJ, U = presented(case)
        WH = [np.array(u.conj().T) for u in U]
        handed = {'big': big, 'Nr': dims_arg(case, case['Nr']), 'Nt': dims_arg(case, case['Nt'])}
        for k in range(K):
            handed['F[%d]' % k], handed['FJ[%d]' % k], handed['U[%d]' % k] = F[k], FJ[k], U[k]
            handed['W_H[%d]' % k] = WH[k]
        if case['ext']:
            handed['NtE'] = dims_arg(case, case['NtE'], scalar_ok=len(case['NtE']) == 1)
        if case['pl'] is not None:
            pl, ple = pl_args(case)
            handed['pathloss'] = pl
            if case['ext']:
                handed['ext_pathloss'] = ple
        pa = p_arg(case)
        if isinstance(pa, np.ndarray):
            handed['P'] = pa
        snap = copy.deepcopy(handed)
        flags = {n: (a.flags.writeable if isinstance(a, np.ndarray) else None) for n, a in handed.items()}
        ext = case['ext']
        ch = mu.MultiUserChannelMatrixExtInt() if ext else mu.MultiUserChannelMatrix()
        ch.init_from_channel_matrix(big, handed['Nr'], handed['Nt'], k_arg(case), *((handed['NtE'],) if ext else ()))
        if case['pl'] is not None:
            ch.set_pathloss(*((handed['pathloss'], handed['ext_pathloss']) if ext else (handed['pathloss'],)))
        ch.noise_var = noise_arg(case)
        pe = pe_args(case)
        outs = {}

        def ask(label):
            s = call_guard(lambda: ch.calc_SINR(seq(case, F), seq(case, U), *pe))
            if s[0] == 'ok':
                for k in range(K):
                    outs['%s.SINR[%d]' % (label, k)] = s[1][k]
            sj = call_guard(lambda: ch.calc_JP_SINR(seq(case, FJ), seq(case, U), *pe))
            if sj[0] == 'ok':
                for k in range(K):
                    outs['%s.JP_SINR[%d]' % (label, k)] = sj[1][k]
            for k in range(K):
                outs['%s.Q[%d]' % (label, k)] = ch.calc_Q(idx(case, k), seq(case, F), *pe)
                outs['%s.JP_Q[%d]' % (label, k)] = ch.calc_JP_Q(idx(case, k), seq(case, FJ), *pe)
            if ext:
                for k, r in enumerate(ch.calc_cov_matrix_extint_plus_noise(*pe)):
                    outs['%s.Re[%d]' % (label, k)] = r
        ask('first')
        sol = None
        if case.get('solver'):
            sol = ia.IASolverBaseClass(ch)
            if pa is None:
                sol.set_precoders(full_F=seq(case, F))
            elif np.ndim(pa) == 0 and not isinstance(pa, (list, tuple)):
                sol.P = pa
                sol.set_precoders(F=seq(case, F))
            else:
                sol.set_precoders(F=seq(case, F), P=pa)
            sol.set_receive_filters(W_H=seq(case, WH))
            try:
                r = call_guard(lambda: sol.calc_SINR())
                if r[0] == 'ok':
                    for k in range(K):
                        outs['solver.SINR[%d]' % k] = r[1][k]
                for k in range(K):
                    outs['solver.Q[%d]' % k] = sol.calc_Q(idx(case, k))
                    outs['solver.full_F[%d]' % k] = sol.full_F[k]
            except np.linalg.LinAlgError:
                pass

        def inputs_intact(when):
            for n, a in handed.items():
                b = snap[n]
                if isinstance(a, np.ndarray):
                    if a.dtype != b.dtype or a.shape != b.shape or not np.array_equal(a, b):
                        return ('R3:input-modified:%s:%s' % (n.split('[')[0], tag), '%s %s' % (n, when))
                    if a.flags.writeable != flags[n]:
                        return ('R3:input-flags-modified:%s:%s' % (n.split('[')[0], tag), '%s %s' % (n, when))
                elif a != b:
                    return ('R3:input-modified:%s:%s' % (n.split('[')[0], tag), '%s %s' % (n, when))
            return None
        r = inputs_intact('after the calls')
        if r:
            return r
        for lab, o in outs.items():
            o = np.asarray(o)
            if o.dtype == object:
                continue
            if o.dtype.kind not in 'fc' or o.dtype.itemsize < 8:
                return ('R3:result-dtype:%s:%s' % (lab.split('.')[1].split('[')[0], tag), '%s has dtype %s' % (lab, o.dtype))
            for n, a in handed.items():
                if isinstance(a, np.ndarray) and o.size and a.size and np.shares_memory(o, a):
                    return ('R3:output-aliases-input:%s:%s' % (lab.split('.')[1].split('[')[0], tag), '%s shares memory with %s' % (lab, n))
        kept = {lab: np.array(o) for lab, o in outs.items()}
        first = dict(outs)
        # later calls, the caller re-using its own arrays, the caller scribbling on results
        for n, a in handed.items():
            if isinstance(a, np.ndarray) and a.flags.writeable and n not in ('Nr', 'Nt', 'NtE'):
                a[...] = 0
        for lab, o in list(first.items()):
            if lab.startswith('first.Q') or lab.startswith('first.Re'):
                pass
        _, F, FJ, U = presented(case)       # fresh copies of the same values for the second round
        ask('second')
        for lab in list(kept):
            if lab.startswith('first.'):
                twin = outs.get('second.' + lab[6:])
                if twin is not None and not (np.array_equal(np.asarray(twin), kept[lab]) or
                                             mat_close(np.asarray(twin), kept[lab], rtol=1e-12)):
                    return ('R3:object-follows-the-callers-array:%s:%s' % (lab.split('.')[1].split('[')[0], tag),
                            '%s differs after the caller overwrote the arrays it had handed over' % lab)
        # scribble on what was returned, change the object, ask again
        for lab, o in first.items():
            if isinstance(o, np.ndarray) and o.flags.writeable and o.dtype != object and lab.startswith('second.'):
                o[...] = -7
        ch.noise_var = 3.0
        ask('third')
        ch.noise_var = noise_arg(case)
        ask('fourth')
        for lab, cp in kept.items():
            if lab.startswith('first.'):
                if not np.array_equal(np.asarray(first[lab]), cp):
                    return ('R3:earlier-output-changed:%s:%s' % (lab.split('.')[1].split('[')[0], tag), lab)
                twin = outs.get('fourth.' + lab[6:])
                if twin is not None and not mat_close(np.asarray(twin), cp, rtol=1e-12) and not np.array_equal(np.asarray(twin), cp):
                    return ('R3:result-depends-on-scribbled-output:%s:%s' % (lab.split('.')[1].split('[')[0], tag), lab)
    return None


ORACLES = {
    'close-values': o_close,
    'argument-buffers': o_buffers,
    'argument-roles': o_roles,
    'session': o_session,
    'immutability': o_immutable,
    'index-arguments': o_index,
    'argument-forms': o_forms,
    'calc_SINR': o_calc_SINR,
    'calc_JP_SINR': o_calc_JP_SINR,
    'calc_SINR.rescaled-filter': o_scale,
    'IASolver.calc_SINR': o_solver,
    'calc_shannon_sum_capacity': o_capacity,
}


def run_oracle(ctx, call, case, key=None, nontrivial=True):
    ctx.count((call, key if key is not None else core.hashlib.sha1(repr(case).encode()).hexdigest()), nontrivial)
    try:
        r = ORACLES[call](case)
    except Exception as e:  # an exception where the property promises a value
        r = ('exception:%s:%s' % (type(e).__name__, variant_tag(case) if 'ext' in case else case.get('shape', '-')),
             repr(e)[:300])
    if r is not None:
        # one defect shows under many input classes (element type x noise type x index type x history):
        # a handful of replay files per kind of failure is enough, the rest is only counted
        seen = ctx.extra.setdefault('failure_groups', {})
        grp = call + '/' + r[0].replace('@', ':').split(':')[0]
        seen[grp] = seen.get(grp, 0) + 1
        if seen[grp] <= 4:
            ctx.fail(call, r[0], case, r[1])
        ctx.branch('oracle-fail:' + call)
    else:
        ctx.branch('oracle-ok:' + call)
    return r


def replay(ctx, rep):
    try:
        r = ORACLES[rep['call']](rep['case'])
    except Exception:
        return True
    return r is not None


# ------------------------------------------------------------ case generator
SQUARES = [0.0625, 0.25, 1.0, 4.0, 0.5625, 2.25]      # path losses with exact square roots


class Gen:
    def __init__(self, rng, tier):
        self.rng = rng
        self.tier = tier
        self.np = np.random.RandomState(rng.u64() % (1 << 32))

    def cmat(self, m, n, kind):
        if kind == 'gint':
            return (self.np.randint(-3, 4, size=(m, n)) + 1j * self.np.randint(-3, 4, size=(m, n))).astype(complex)
        if kind == 'rint':
            return self.np.randint(-3, 4, size=(m, n)).astype(complex)
        return (self.np.randn(m, n) + 1j * self.np.randn(m, n)) / math.sqrt(2.0)

    def case(self, kind=None, ext=None, solver_ok=False, K=None, dims=None, NtE=None, retype=True):
        rng = self.rng
        big_dims = self.tier != 'quick' and rng.chance(0.15)
        kind = kind or rng.choice(['gauss', 'gauss', 'gauss', 'gint', 'gint', 'wide', 'wide', 'rint'])
        exact = kind in ('gint', 'rint')
        if K is None:
            K = rng.choice([1, 2, 2, 3, 3, 4] + ([5, 6] if big_dims else []))
        hi = 6 if big_dims else 4
        Nr = [rng.randint(1, hi) for _ in range(K)]
        Nt = [rng.randint(1, hi) for _ in range(K)]
        if solver_ok:
            Ns = [rng.randint(1, min(Nr[k], Nt[k], 3)) for k in range(K)]
        else:
            Ns = [rng.randint(1, 3) for _ in range(K)]
        if dims is not None:
            Nr, Nt, Ns = [list(x) for x in dims]
        ext = rng.chance(0.5) if ext is None else ext
        if NtE is not None and ext:
            NtE = list(NtE)
        else:
            NtE = [rng.randint(1, 2) for _ in range(rng.choice([1, 1, 2, 3]))] if ext else []
        ntot = sum(Nt)
        big = self.cmat(sum(Nr), ntot + sum(NtE), 'gint' if exact else 'gauss')
        if kind == 'rint':
            big = self.cmat(sum(Nr), ntot + sum(NtE), 'rint')
        mk = (lambda m, n: self.cmat(m, n, kind)) if exact else (lambda m, n: self.cmat(m, n, 'gauss'))
        F = [mk(Nt[k], Ns[k]) for k in range(K)]
        FJ = [mk(ntot, Ns[k]) for k in range(K)]
        U = [mk(Nr[k], Ns[k]) for k in range(K)]
        if kind == 'wide':      # very unequal powers / filter norms
            F = [f * 10.0 ** rng.uniform(-1.5, 1.5) for f in F]
            FJ = [f * 10.0 ** rng.uniform(-1.5, 1.5) for f in FJ]
            U = [u * 10.0 ** rng.uniform(-2, 2) for u in U]
        pl = ple = None
        if rng.chance(0.6):
            if exact:
                pl = [[rng.choice(SQUARES) for _ in range(K)] for _ in range(K)]
                ple = [[rng.choice(SQUARES) for _ in NtE] for _ in range(K)]
            else:
                span = 3.0 if kind == 'wide' else 1.0
                pl = [[10.0 ** rng.uniform(-span, 0.3) for _ in range(K)] for _ in range(K)]
                ple = [[10.0 ** rng.uniform(-span, 0.3) for _ in NtE] for _ in range(K)]
        r = rng.uniform()
        lonely = (K == 1 and Ns[0] == 1 and not ext)      # nothing but noise in the denominator
        if exact:
            noise = None if r < 0.3 else 0.0 if r < 0.5 else rng.choice([0.25, 0.5, 1.0, 3.0])
        else:
            noise = None if r < 0.2 else 0.0 if r < 0.35 else 10.0 ** rng.uniform(-3, 1)
            if lonely and not noise:
                noise = 10.0 ** rng.uniform(-3, 1)
        if ext:
            pe = rng.choice([None, 0.0, 0.5, 2.0]) if exact else rng.choice([None, 0.0, 10.0 ** rng.uniform(-2, 1.5)])
        else:
            pe = None
        P = None
        if rng.chance(0.75):
            P = [rng.choice([0.25, 1.0, 4.0, 2.25]) for _ in range(K)] if exact else \
                [10.0 ** rng.uniform(-1.5, 1.5) for _ in range(K)]
        scale = [[[0.0, 0.0]] * 0 for _ in range(K)]
        for k in range(K):
            row = []
            for _ in range(Ns[k]):
                if exact:
                    c = complex(rng.choice([-2, -1, 1, 2, 0]), rng.choice([-2, -1, 1, 2]))
                else:
                    mag = 10.0 ** rng.uniform(-3, 3)
                    ph = rng.uniform(0, 2 * math.pi)
                    c = complex(mag * math.cos(ph), mag * math.sin(ph))
                row.append([c.real, c.imag])
            scale[k] = row
        case = {'K': K, 'Nr': Nr, 'Nt': Nt, 'NtE': NtE, 'Ns': Ns, 'ext': bool(ext), 'kind': kind,
                'big': enc(big), 'pl': pl, 'ple': ple, 'noise': noise, 'pe': pe,
                'F': [enc(f) for f in F], 'FJ': [enc(f) for f in FJ], 'U': [enc(u) for u in U],
                'P': P, 'scale': scale, 'dtype': rng.choice(['int', 'float', 'complex']) if kind == 'rint' else 'complex',
                'as_list': rng.chance(0.2), 'set_W': rng.chance(0.3),
                'ntype': 'float', 'petype': 'float', 'ptype': 'float', 'idx': rng.choice(IDX_TYPES),
                'call': rng.choice(['positional', 'keyword'])}
        if retype:
            self.retype(case)
        return case

    def retype(self, c):
        """draw the numeric TYPE of the noise variance, the external power and the transmit powers (Python
        int/float/bool, numpy integers and floats of several widths); values are moved to ones the type
        represents exactly, so that first principles are evaluated on exactly what the code is given"""
        rng = self.rng

        def scalar(v, t):
            if t == 'bool':
                return 0 if v == 0 else 1
            if 'int' in t:                      # Python int, numpy integers of every width, 0-d integer arrays
                return 0 if v == 0 else rng.choice([1, 2, 3, 7])
            if t == 'np.float16':
                return float(np.float16(min(max(v, 1e-3), 1e3))) if v else 0.0
            if t.endswith('float32'):
                return float(np.float32(v))
            return float(v)
        if c['noise'] is not None:
            c['ntype'] = rng.choice(NUMTYPES)
            c['noise'] = scalar(c['noise'], c['ntype'])
        if c['ext'] and c['pe'] is not None:
            c['petype'] = rng.choice(NUMTYPES)
            c['pe'] = scalar(c['pe'], c['petype'])
        if c['P'] is not None:
            pt = rng.choice(['float', 'float', 'int', 'np.int32', 'np.float32', 'list', 'scalar:int', 'scalar:float',
                             'scalar:np.float32', 'scalar:np.int64', 'np.uint8', 'np.int16', 'tuple', 'strided',
                             'broadcast', 'scalar:np.uint8', 'scalar:0d:float64'])
            K = c['K']
            if pt in ('int', 'np.int32', 'np.uint8', 'np.int16'):
                c['P'] = [rng.choice([1, 2, 4, 9]) for _ in range(K)]
            elif pt in ('broadcast', 'scalar:0d:float64'):
                c['P'] = [float(c['P'][0])] * K
            elif pt == 'scalar:np.uint8':
                c['P'] = [rng.choice([1, 2, 4])] * K
            elif pt == 'np.float32':
                c['P'] = [rng.choice([0.25, 1.0, 4.0, 2.25, 9.0]) for _ in range(K)]
            elif pt in ('scalar:int', 'scalar:np.int64'):
                c['P'] = [rng.choice([1, 2, 4])] * K
            elif pt == 'scalar:np.float32':
                c['P'] = [rng.choice([0.25, 2.25, 4.0])] * K
            elif pt == 'scalar:float':
                c['P'] = [float(c['P'][0])] * K
            c['ptype'] = pt
        return c

    # ---------------------------------------------------------------- robustness classes
    def present(self, c, arr=None, layout=None):
        """draw HOW the scenario is handed over (R1 element types, R2 memory layout / containers)"""
        rng = self.rng
        c['present'] = {'arr': arr, 'layout': layout,
                        'container': rng.choice(['objarray', 'list', 'tuple']),
                        'dims': rng.choice(['array', 'list', 'tuple', 'scalar', 'np.scalar', 'int8', 'uint8', 'int16',
                                            'uint16', 'int32']),
                        'K': rng.choice(['int', 'np.int8', 'np.uint16', 'np.int64', '0d:int32']),
                        'pl': rng.choice(['float64', 'list', 'float32' if c['kind'] in ('gint', 'rint') else 'float64']
                                         + LAYOUTS[:3])}
        c.pop('as_list', None)
        return c

    def r1_case(self):
        """R1: the same VALUES in narrow element types (arrays of int8 … int64, uint8/16, float32,
        complex64; scalars of every numeric type; lists / tuples)"""
        rng = self.rng
        self.n1 = getattr(self, 'n1', -1) + 1
        arr = ['int8', 'uint8', 'int16', 'uint16', 'int32', 'int64', 'float32', 'complex64'][self.n1 % 8]
        fam = 'gint' if arr == 'complex64' else 'uint' if arr.startswith('uint') else 'rint'
        c = self.case(kind='gint' if fam == 'gint' else 'rint', solver_ok=True)
        if fam == 'uint':
            for f in ('big',):
                c[f] = enc(np.abs(np.real(dec(c[f]))).astype(complex))
            for f in ('F', 'FJ', 'U'):
                c[f] = [enc(np.abs(np.real(dec(x))).astype(complex)) for x in c[f]]
        self.present(c, arr=arr, layout=None)
        c['rclass'] = 'R1'
        return c

    def r2_case(self):
        """R2: non-C-contiguous inputs (Fortran order, transposed / strided / reversed / offset views),
        0-d arrays for the scalars, a user with ZERO streams (zero-length axes)"""
        rng = self.rng
        c = self.case(solver_ok=True)
        c['dtype'] = 'complex'
        self.n2 = getattr(self, 'n2', -1) + 1
        self.present(c, arr=None, layout=LAYOUTS[self.n2 % len(LAYOUTS)])
        if c['noise'] is not None and rng.chance(0.5):
            c['ntype'] = rng.choice(['0d:float64', '0d:int32', '0d:float32'])
            c['noise'] = 0 if c['noise'] == 0 else (rng.choice([1, 2, 3]) if 'int' in c['ntype'] else float(np.float32(c['noise'])))
        if c['ext'] and c['pe'] is not None and rng.chance(0.5):
            c['petype'] = '0d:float64'
        if c['K'] >= 2 and rng.chance(0.3):
            k = rng.below(c['K'])
            c['Ns'][k] = 0
            for f in ('F', 'FJ', 'U'):
                m = dec(c[f][k])
                c[f][k] = enc(m[:, :0])
            c['scale'][k] = []
            c['zero_streams'] = True
        c['rclass'] = 'R2'
        return c

    def r5_case(self):
        """R5: boundary values — path losses exactly 0 and exactly 1, noise variance exactly 0 / 0.0 /
        None / 1, external power 0 / 1, unit powers, a single user / stream / antenna, sizes at
        prime / power-of-two boundaries"""
        rng = self.rng
        K = rng.choice([1, 2, 3])
        sizes = [1, 2, 3, 4, 5, 7, 8, 9]
        Nr = [rng.choice(sizes) for _ in range(K)]
        Nt = [rng.choice(sizes) for _ in range(K)]
        Ns = [rng.randint(1, min(Nr[k], Nt[k], 3)) for k in range(K)]
        c = self.case(kind=rng.choice(['gint', 'gauss']), K=K, dims=(Nr, Nt, Ns), solver_ok=True, retype=False)
        c['pl'] = [[rng.choice([0.0, 1.0, 1.0, 0.25]) for _ in range(K)] for _ in range(K)]
        c['ple'] = [[rng.choice([0.0, 1.0, 4.0]) for _ in c['NtE']] for _ in range(K)]
        c['noise'] = rng.choice([None, 0, 0.0, 1, 1.0])
        c['ntype'] = 'int' if isinstance(c['noise'], int) else 'float'
        if c['ext']:
            c['pe'] = rng.choice([0, 0.0, 1, 1.0, None])
            c['petype'] = 'int' if isinstance(c['pe'], int) else 'float'
        if c['P'] is not None:
            c['P'] = [1.0] * K
        c['rclass'] = 'R5'
        return c

    def r6_case(self):
        """R6: scale — (a) path loss -100 … -130 dB, noise 1e-15 … 1e-20, filters rescaled by 1e-7 … 1e-9;
        (b) channel, precoders and filters each multiplied by 1e-12 … 1e12 (noise following the received
        power).  The SINR is a ratio: any absolute threshold hidden in the code shows."""
        rng = self.rng
        c = self.case(kind='gauss', solver_ok=True, retype=False)
        K = c['K']
        if rng.chance(0.5):
            c['pl'] = [[10.0 ** rng.uniform(-13, -10) for _ in range(K)] for _ in range(K)]
            c['ple'] = [[10.0 ** rng.uniform(-13, -10) for _ in c['NtE']] for _ in range(K)]
            c['noise'] = rng.choice([None, 10.0 ** rng.uniform(-20, -15), 10.0 ** rng.uniform(-20, -15)])
            if K == 1 and c['Ns'][0] == 1 and not c['ext'] and c['noise'] is None:
                c['noise'] = 10.0 ** rng.uniform(-20, -15)
            a = [10.0 ** rng.uniform(-9, -7) for _ in range(K)]
            c['U'] = [enc(dec(u) * a[k]) for k, u in enumerate(c['U'])]
            c['r6'] = 'low-power'
        else:
            ea, eb, ec = rng.uniform(-12, 12), rng.uniform(-6, 6), rng.uniform(-9, 9)
            c['big'] = enc(dec(c['big']) * 10.0 ** ea)
            c['F'] = [enc(dec(x) * 10.0 ** eb) for x in c['F']]
            c['FJ'] = [enc(dec(x) * 10.0 ** eb) for x in c['FJ']]
            c['U'] = [enc(dec(x) * 10.0 ** ec) for x in c['U']]
            if c['noise']:
                c['noise'] = c['noise'] * 10.0 ** (2 * ea + 2 * eb)
            if c['ext'] and c['pe']:
                c['pe'] = c['pe'] * 10.0 ** (2 * eb)
            c['r6'] = 'global'
        c['rclass'] = 'R6'
        return c

    def r10_case(self):
        """R10: the per-user matrices differ in ELEMENT TYPE inside one list (first integer, later complex,
        float32 next to complex128, …); nothing may be truncated to the type of the first element"""
        rng = self.rng
        c = self.case(kind='gint', solver_ok=True, K=rng.choice([2, 3, 4]))
        K = c['K']
        real_types = ['int8', 'int16', 'int64', 'float32', 'float64', 'uint8']
        per = []
        for k in range(K):
            if k == 0 or rng.chance(0.4):       # this user's matrices are real (integer valued)
                t = rng.choice(real_types)
                for f in ('F', 'FJ'):
                    m = np.real(dec(c[f][k]))
                    c[f][k] = enc((np.abs(m) if t == 'uint8' else m).astype(complex))
                per.append(t)
            else:
                per.append(rng.choice(['complex128', 'complex64']))
        if all(not p.startswith('complex') for p in per):
            per[-1] = 'complex128'
        u_real = [not np.any(np.imag(dec(x))) for x in c['U']]
        self.present(c, arr=None, layout=None)
        c['present']['arr_per_user'] = per
        c['dtype'] = 'complex'
        if c['P'] is not None and rng.chance(0.5):
            c['ptype'] = 'list'
        c['rclass'] = 'R10'
        del u_real
        return c

    def r14_case(self, which):
        """R14: counts above 256 — streams of one user, external interference sources (many users: bigk_case)"""
        rng = self.rng
        n = rng.choice([257, 258, 300])
        if which == 'many-streams':
            # (quick tier: one receive antenna at the many-stream user — the compiled model re-evaluates V V^H
            # for every entry of every stream's covariance matrix, which costs ~40 s for the larger layout)
            dims = ([1, 2], [2, 1], [n, 1]) if self.tier == 'quick' else ([2, 3], [3, 2], [n, 2])
            c = self.case(kind='gauss', K=2, dims=dims, retype=False)
        else:
            c = self.case(kind='gauss', ext=True, K=2, dims=([2, 1], [1, 2], [1, 2]), NtE=[1] * n, retype=False)
            if c['pl'] is not None:
                c['ple'] = [[10.0 ** rng.uniform(-1, 0.3) for _ in range(n)] for _ in range(2)]
        c['r14'] = which
        c['rclass'] = 'R14'
        c['solver'] = False
        return c

    def bigk_case(self, ext=None):
        """more than 256 single-antenna users: receiver indices above 256 (Python ints that are not the
        interpreter's cached small-int objects, numpy integers that need 16 bits)"""
        rng = self.rng
        K = rng.choice([258, 259, 300])
        c = self.case(kind='gauss', ext=rng.chance(0.5) if ext is None else ext, K=K,
                      dims=([1] * K, [1] * K, [1] * K), NtE=[1], retype=False)
        c['pl'] = c['ple'] = None
        c['noise'] = 0.5
        c['P'] = None
        c['ks'] = sorted(set([0, 255, 256, K - 1] + ([257] if K > 257 else [])))
        c['r14'] = 'many-users'
        c['idx'] = 'bigint'
        c['solver'] = False
        c['rclass'] = 'R1'
        # the COUNT of users above 256 as well, in every type that holds it, with the antenna numbers given
        # as one integer for all users
        self.present(c)
        c['present']['dims'] = rng.choice(['scalar', 'np.scalar'])
        c['present']['K'] = rng.choice(['int', 'np.uint16', 'np.int64', '0d:int32', 'np.int16'])
        c['present']['idx'] = 'bigint'
        return c

    # ---------------------------------------------------------------- R15: distinct values that are merely close
    def close_real(self, v, closeness):
        """another legitimate value of a real parameter that a tolerant comparison would take for `v`"""
        rng = self.rng
        v = float(v)
        if closeness == 'tiny':         # both far below atol = 1e-8: "equal" to each other and to 0
            return v * rng.choice([0.1, 0.2, 0.3, 3.0, 5.0, 10.0])
        if closeness == 'rel1e-6':      # inside rtol = 1e-5
            return v * (1.0 + rng.choice([-1.0, 1.0]) * rng.uniform(1.2e-6, 5e-6))
        if closeness == 'ulp':          # the adjacent double
            return float(np.nextafter(v, math.inf if rng.chance(0.5) else -math.inf))
        if closeness == 'dec12':        # the same up to the 12th decimal (and beyond the 12th significant digit)
            w = v * (1.0 + rng.choice([-1.0, 1.0]) * rng.uniform(2e-14, 4e-14))
            return w if w != v else float(np.nextafter(v, math.inf))
        raise KeyError(closeness)

    def close_complex(self, a, closeness):
        a = np.asarray(a, dtype=complex)
        if closeness == 'tiny':         # an unrelated matrix of the same (tiny) magnitude
            sc = float(np.sqrt(np.mean(np.abs(a) ** 2))) if a.size else 0.0
            return self.cmat(a.shape[0], a.shape[1], 'gauss') * sc
        d = self.np.uniform(1.2e-6, 5e-6, size=a.shape) * self.np.choice([-1.0, 1.0], size=a.shape)
        return a * (1.0 + d)

    def r15_session(self, param, closeness, n_steps=3, scalar_P=False, deep=True):
        """ONE channel object + solver; the steps differ from one another in ONE parameter only, by a value that
        is distinct but merely close (`closeness`: tiny / rel1e-6 / ulp / dec12).  The scenario is scaled so that
        the parameter matters (noise comparable with the received powers, SINRs of order one): for `tiny` and
        `rel1e-6` the first-principles reports of consecutive steps differ by >= 30 comparison tolerances (the
        margin is computed from first principles and recorded), otherwise the scenario is drawn again.
        `scalar_P`: one power for all users, given through the P setter (then `set_precoders(F=…)` is called
        without a power vector).  `deep` (closeness tiny): magnitudes 1e-12 … 1e-15 instead of 1e-9 … 1e-12."""
        rng = self.rng
        ext = param in ('ple', 'pe') or rng.chance(0.4)
        for _attempt in range(40):
            c = self.case(kind='gauss', ext=ext, solver_ok=True, K=rng.choice([2, 2, 3]), retype=False)
            K = c['K']
            c['dtype'] = 'complex'
            c['P'] = [10.0 ** rng.uniform(-0.5, 0.5) for _ in range(K)]
            c['ptype'] = 'float'
            c['noise'] = 10.0 ** rng.uniform(-0.5, 0.5)
            if ext and param == 'pe':
                c['pe'] = 10.0 ** rng.uniform(-0.5, 0.5)
            if param in ('pl', 'ple') and c['pl'] is None:
                c['pl'] = [[10.0 ** rng.uniform(-1, 0.3) for _ in range(K)] for _ in range(K)]
                c['ple'] = [[10.0 ** rng.uniform(-1, 0.3) for _ in c['NtE']] for _ in range(K)]

            def mul(f, a):
                c[f] = [enc(dec(x) * a) for x in c[f]]
            if closeness == 'tiny':
                # `deep`: two to three decades further down (also below what a key rounded to 9 decimals resolves)
                dd = -2.5 if deep else 0.0
                if param in ('noise', 'pl', 'ple'):     # -115 … -155 dB links, thermal-noise-sized noise
                    c['pl'] = [[10.0 ** rng.uniform(-13 + dd, -11.5 + dd) for _ in range(K)] for _ in range(K)]
                    c['ple'] = [[10.0 ** rng.uniform(-13 + dd, -11.5 + dd) for _ in c['NtE']] for _ in range(K)]
                    c['noise'] = 10.0 ** rng.uniform(-12.5 + dd, -11.5 + dd)
                elif param == 'big':                    # the path loss folded into the channel matrix
                    e = rng.uniform(-10, -9) + dd
                    c['pl'] = c['ple'] = None
                    c['big'] = enc(dec(c['big']) * 10.0 ** e)
                    c['noise'] = 10.0 ** (2 * e + rng.uniform(-0.5, 0.5))
                elif param == 'pe':
                    mul('F', 10.0 ** (-5 + dd / 2))
                    mul('FJ', 10.0 ** (-5 + dd / 2))
                    c['pe'] = 10.0 ** rng.uniform(-10.5 + dd, -9.5 + dd)
                    c['noise'] = 10.0 ** rng.uniform(-10.5 + dd, -9.5 + dd)
                elif param == 'P':
                    c['P'] = [10.0 ** rng.uniform(-10.5 + dd, -9.5 + dd) for _ in range(K)]
                    c['noise'] = 10.0 ** rng.uniform(-10.5 + dd, -9.5 + dd)
                elif param == 'F':
                    e = rng.uniform(-10, -9) + dd
                    mul('F', 10.0 ** e)
                    mul('FJ', 10.0 ** e)
                    c['noise'] = 10.0 ** (2 * e + rng.uniform(-0.5, 0.5))
                elif param == 'U':
                    mul('U', 10.0 ** (rng.uniform(-10, -9) + dd))
            elif closeness == 'rel1e-6':
                if param == 'noise':                    # 2.4e9 against 2.4e9 + 2e4
                    a = 10.0 ** rng.uniform(4.5, 4.8)
                    c['big'] = enc(dec(c['big']) * a)
                    c['noise'] = c['noise'] * a * a
                elif param == 'P':
                    c['P'] = [10.0 ** rng.uniform(3, 4) for _ in range(K)]
                    c['noise'] = c['noise'] * 3e3
            else:
                if param == 'noise':
                    c['noise'] = rng.choice([0.3, 0.1, 0.7, 1.0 / 3.0, 2.4e9, 4e-12])
            if scalar_P:
                c['P'] = [c['P'][0]] * K
                c['ptype'] = 'scalar:float'
            steps = [{'case': c, 'ops': {'real': 'init', 'seed': 0, 'pl': 'set' if c['pl'] is not None else 'keep',
                                         'noise': 'set', 'post': False, 'sol': 'sync', 'order': ['ic', 'jp', 'sol']}}]
            margins = []
            for i in range(1, n_steps):
                prev = steps[-1]['case']
                n = dict(prev)
                back = (i == n_steps - 1 and n_steps > 2 and rng.chance(0.4))
                src = steps[0]['case'] if back else None       # A -> B -> A: back to exactly the first value
                if param in ('noise', 'pe'):
                    n[param] = src[param] if back else self.close_real(prev[param], closeness)
                elif param in ('pl', 'ple'):
                    n[param] = src[param] if back else [[self.close_real(x, closeness) for x in r] for r in prev[param]]
                elif param == 'P':
                    n['P'] = src['P'] if back else [self.close_real(x, closeness) for x in prev['P']]
                    if scalar_P:
                        n['P'] = [n['P'][0]] * K
                elif param == 'big':
                    n['big'] = src['big'] if back else enc(self.close_complex(dec(prev['big']), closeness))
                elif param == 'F':
                    for f in ('F', 'FJ'):
                        n[f] = src[f] if back else [enc(self.close_complex(dec(x), closeness)) for x in prev[f]]
                else:
                    n['U'] = src['U'] if back else [enc(self.close_complex(dec(x), closeness)) for x in prev['U']]
                sol = {'P': rng.choice(['P', 'precoders']), 'F': 'precoders', 'U': 'filters',
                       'noise': 'untouched', 'pe': 'untouched'}.get(param) or rng.choice(['sync', 'untouched'])
                order = ['ic', 'jp', 'sol']
                rng.shuffle(order)
                steps.append({'case': n, 'ops': {'real': 'init' if param == 'big' else 'keep', 'seed': 0,
                                                 'pl': 'set' if param in ('pl', 'ple') else 'keep',
                                                 'noise': 'set' if param == 'noise' else 'keep', 'post': False,
                                                 'sol': sol, 'order': order, 'layout': 'same'}})
                solver_side = param == 'P'
                margins.append(fp_margin(sinr_fp(prev, 'ic', solver_side), sinr_fp(n, 'ic', solver_side)))
            if closeness in ('ulp', 'dec12') or min(margins) >= 30.0:
                break
        else:
            raise core.Infra('R15 generator: no scenario in which %s (%s) matters' % (param, closeness))
        for st in steps:
            st['ops'].update({'reject': [], 'query': [], 'setter_order': ['pl', 'noise', 'post'], 'derive': None,
                              'repeat': False, 'sol2': False})
            if param == 'pe':
                # the external power is an ARGUMENT of the calc_* calls: nothing may come between the call with one
                # value and the call with the close one (the solver asks the channel object for its covariance at
                # the default power, which would flush a "last value" memo)
                st['ops']['no_sol2'] = True
                st['ops']['order'] = ['sol', 'ic', 'jp'] if st is steps[0] else [w for w in st['ops']['order'] if w != 'sol']
        return {'ext': bool(ext), 'kind': 'gauss', 'steps': steps, 'r15': [param, closeness],
                'margin': min(margins) if margins else 0.0, 'scalar_P': bool(scalar_P)}

    # ---------------------------------------------------------------- R16: the caller's buffers, one object in two roles
    def buffer_session(self, ext=None, flavour=0):
        """a session whose steps all have the SAME layout, so that every buffer of the caller (channel matrix, path
        loss, precoders, filters, powers, …) is refilled in place with other contents for every call.  `flavour`
        1 / 2: integer / real element type (what the code converts — and could remember converted — before use).
        Every session contains a step in which the object is left exactly as it is and ONLY the arguments of the
        calc_* calls get new contents, with nothing else called in between (a memo of the last call keyed on the
        identity of its arguments would be flushed by any other call)."""
        rng = self.rng
        sess = self.session(n_steps=1, ext=ext, kind='rint' if flavour else None)
        first = sess['steps'][0]
        first['ops']['real'] = 'init'
        first['ops']['order'] = ['sol', 'ic', 'jp']
        first['ops']['no_sol2'] = True
        if flavour:
            first['case']['dtype'] = 'int' if flavour == 1 else 'float'
        if first['case']['big'] is None:
            first['case']['big'] = self.case(kind=sess['kind'], ext=sess['ext'], K=first['case']['K'],
                                             dims=(first['case']['Nr'], first['case']['Nt'], first['case']['Ns']),
                                             NtE=first['case']['NtE'])['big']
        prev = first['case']
        first_mode = rng.below(3)
        for i in range(3):
            c = self.case(kind=sess['kind'], ext=sess['ext'], solver_ok=True, K=prev['K'],
                          dims=(prev['Nr'], prev['Nt'], prev['Ns']), NtE=prev['NtE'])
            c['dtype'] = prev['dtype']
            c['as_list'] = prev.get('as_list')
            if i % 2 == 0:      # the power vector as an array (a list or a scalar is not a buffer)
                c['P'] = [float(rng.choice([0.25, 1.0, 4.0, 2.25, 9.0])) for _ in range(c['K'])]
                c['ptype'] = rng.choice(['float', 'np.float32'])
            if c['pl'] is None:
                c['pl'] = [[rng.choice(SQUARES) for _ in range(c['K'])] for _ in range(c['K'])]
                c['ple'] = [[rng.choice(SQUARES) for _ in c['NtE']] for _ in range(c['K'])]
            # what the caller hands over again in this step: only the arguments of the calc_* calls (the object
            # is left exactly as it is), everything, or some of it
            mode = ['args-only', 'all', 'mixed'][(first_mode + i) % 3]
            real = {'args-only': 'keep', 'all': 'init'}.get(mode) or rng.choice(['keep', 'init'])
            pl = {'args-only': 'keep', 'all': 'set'}.get(mode) or rng.choice(['keep', 'set'])
            noise = {'args-only': 'keep', 'all': 'set'}.get(mode) or rng.choice(['keep', 'set'])
            if real == 'keep':
                c['big'] = prev['big']
            if pl == 'keep':
                c['pl'], c['ple'] = prev['pl'], prev['ple']
            if noise == 'keep':
                c['noise'], c['ntype'] = prev['noise'], prev.get('ntype')
            if mode == 'args-only' or (mode == 'mixed' and rng.chance(0.5)):
                c['pe'], c['petype'] = prev['pe'], prev.get('petype')      # the scalar arguments stay as well
            sol = ['sync', 'precoders', 'filters', 'untouched', 'P'][(i + rng.below(5)) % 5]
            if mode == 'args-only' and sol in ('untouched', 'P'):
                sol = rng.choice(['sync', 'precoders', 'filters'])
            keep = {'sync': (), 'untouched': ('F', 'U', 'P', 'ptype', 'set_W'), 'P': ('F', 'U', 'set_W'),
                    'precoders': ('U', 'set_W'), 'filters': ('F', 'P', 'ptype')}[sol]
            for f in keep:
                c[f] = prev[f]
            if sol == 'P' and (prev['P'] is None or c['P'] is None):
                sol = 'sync'        # everything handed over again (precoders and filters with the contents they had)
            if sol == 'P':
                c['ptype'] = 'float'    # a double precision array: what the P setter could keep as it is
            order = ['ic', 'jp']
            rng.shuffle(order)
            if mode != 'args-only':     # the solver (it asks the channel object) first, then the calc_* calls
                order = ['sol'] + order
            qpool = ['calc_SINR', 'calc_JP_SINR', 'calc_Q', 'calc_JP_Q']
            sess['steps'].append({'case': c, 'ops': {
                'real': real, 'seed': 0, 'pl': pl, 'noise': noise, 'post': mode != 'args-only' and rng.chance(0.5),
                'sol': sol, 'order': order, 'layout': 'same', 'reject': [], 'mode': mode, 'no_sol2': True,
                'query': [] if mode == 'args-only' else [rng.choice(qpool) for _ in range(rng.choice([0, 1, 2]))],
                'setter_order': ['pl', 'noise', 'post'], 'derive': None, 'repeat': rng.chance(0.5), 'sol2': False}})
            prev = c
        sess['buffers'] = True
        return sess

    def roles_case(self):
        """square layouts (Nr = Nt = Ns per user, as many external sources as users): ONE array object can be
        precoders and filters, Nr and Nt (and NtE), path loss and external path loss"""
        rng = self.rng
        self.nroles = getattr(self, 'nroles', -1) + 1
        K = [1, 2, 2, 3][self.nroles % 4]
        shared = K > 1 and self.nroles % 3 == 0
        n = [rng.randint(1, 3)] * K if shared or rng.chance(0.3) else [rng.randint(1, 3) for _ in range(K)]
        ext = bool(self.nroles % 2)
        c = self.case(kind=rng.choice(['gauss', 'gint']), ext=ext, K=K, dims=(n, n, n), NtE=n, retype=False)
        if shared:
            c['F'] = [c['F'][0]] * K
        c['U'] = list(c['F'])
        if K == 1:
            c['FJ'] = list(c['F'])
        if ext and c['pl'] is None and (self.nroles // 2) % 2 == 0:
            # every other external-interference case carries a path loss whatever the draw (the branch
            # 'one object as path loss and external path loss' must not depend on the seed)
            c['pl'] = [[[1.0, 0.25, 0.5][(r_ + t_) % 3] for t_ in range(K)] for r_ in range(K)]
        if c['pl'] is not None and ext:
            c['ple'] = [list(r) for r in c['pl']]
        c['P'] = None
        c['dtype'] = 'complex'
        c['call'] = 'positional'
        c['idx'] = 'int'
        if c['noise'] is None or c['noise'] == 0.0:
            if K == 1 and not ext:
                c['noise'] = 0.5
        c['shared_user_array'] = bool(shared)
        return c

    def session(self, n_steps=None, ext=None, kind=None):
        """the life of one channel object (+ one solver): 2..6 scenarios reached from one another through
        the public API — new realisation (init_from_channel_matrix / randomize, same layout, new antenna
        numbers, new number of users) with the path loss kept / changed / removed, new noise variance (any
        numeric type), post filters, precoders / powers / filters handed over again or left alone"""
        rng = self.rng
        ext = rng.chance(0.5) if ext is None else ext
        n_steps = n_steps or rng.randint(2, 6)
        kind = kind or rng.choice(['gauss', 'gauss', 'gint', 'wide', 'rint'])
        first = self.case(kind=kind, ext=ext, solver_ok=True)
        dtype = first['dtype']

        def order():
            o = ['ic', 'jp', 'sol']
            rng.shuffle(o)
            return o
        steps = [{'case': first,
                  'ops': {'real': 'init' if dtype != 'complex' else rng.choice(['init', 'randomize']),
                          'seed': rng.below(1 << 31), 'pl': 'set' if first['pl'] is not None else 'keep',
                          'noise': 'set', 'post': False, 'sol': 'sync', 'order': order()}}]
        if steps[0]['ops']['real'] == 'randomize':
            first['big'] = None
        for _ in range(1, n_steps):
            prev = steps[-1]['case']
            how = rng.choice(['same', 'same', 'same', 'antennas', 'users'])
            real = rng.choice(['keep', 'keep', 'init', 'init', 'randomize', 'randomize'])
            if how != 'same' and real == 'keep':
                real = 'init'
            if dtype != 'complex' and real == 'randomize':
                real = 'init'
            if how == 'same':
                c = self.case(kind=kind, ext=ext, solver_ok=True, K=prev['K'],
                              dims=(prev['Nr'], prev['Nt'], prev['Ns']), NtE=prev['NtE'])
            elif how == 'antennas':     # same users and external sources, other antenna numbers
                c = self.case(kind=kind, ext=ext, solver_ok=True, K=prev['K'])
                if ext:
                    c = self.case(kind=kind, ext=ext, solver_ok=True, K=prev['K'],
                                  dims=(c['Nr'], c['Nt'], c['Ns']),
                                  NtE=[rng.randint(1, 2) for _ in prev['NtE']])
            else:
                c = self.case(kind=kind, ext=ext, solver_ok=True)
            c['dtype'] = dtype
            same_links = (c['K'] == prev['K'] and len(c['NtE']) == len(prev['NtE']))
            pl = rng.choice(['keep', 'keep', 'set', 'set', 'none'])
            if pl == 'keep':
                # a path loss set for another number of links is discarded by the new realisation
                keepable = same_links or real == 'keep'
                c['pl'], c['ple'] = (prev['pl'], prev['ple']) if keepable else (None, None)
            elif pl == 'none':
                c['pl'], c['ple'] = None, None
            elif c['pl'] is None:
                pl = 'none'
            noise = rng.choice(['keep', 'set'])
            if noise == 'keep':
                c['noise'], c['ntype'] = prev['noise'], prev.get('ntype')
            if real == 'keep':
                c['big'] = prev['big']
            elif real == 'randomize':
                c['big'] = None
            sol = 'sync'
            if how == 'same':
                sol = rng.choice(['sync', 'sync', 'untouched', 'untouched', 'P', 'precoders', 'filters', 'randomizeF'])
                if sol == 'P' and prev['P'] is None:
                    sol = 'precoders'
                if dtype != 'complex' and sol == 'randomizeF':
                    sol = 'precoders'
                keep = {'sync': ('F', 'U', 'P', 'ptype', 'set_W') if rng.chance(0.4) else (),
                        'untouched': ('F', 'U', 'P', 'ptype', 'set_W'),
                        'P': ('F', 'U', 'set_W'), 'precoders': ('U', 'set_W'), 'filters': ('F', 'P', 'ptype'),
                        'randomizeF': ('U', 'set_W')}[sol]
                for f in keep:
                    c[f] = prev[f]
                if sol in ('P', 'randomizeF') and c['P'] is None:
                    c['P'] = [1.0] * c['K']
                    c['ptype'] = 'float'
                if sol == 'randomizeF':
                    c['F'] = None
            steps.append({'case': c, 'ops': {'real': real, 'seed': rng.below(1 << 31), 'pl': pl, 'noise': noise,
                                             'post': rng.chance(0.3), 'sol': sol, 'order': order(),
                                             'layout': how}})
        pool = REJECTS_CHANNEL + REJECTS_SOLVER + (REJECTS_EXT if ext else [])
        for st in steps:
            st['ops']['reject'] = [rng.choice(pool) for _ in range(rng.choice([0, 0, 1, 1, 2, 3]))]
            qpool = QUERIES + (QUERIES_EXT if ext else [])
            st['ops']['query'] = [rng.choice(qpool) for _ in range(rng.choice([0, 1, 2, 3]))]
            so = ['pl', 'noise', 'post']
            rng.shuffle(so)
            st['ops']['setter_order'] = so
            st['ops']['derive'] = rng.choice([None, None, 'deepcopy', 'pickle'])
            st['ops']['derive_change'] = rng.choice(['noise', 'nothing'])
            st['ops']['repeat'] = rng.chance(0.25)
            st['ops']['sol2'] = rng.chance(0.15)
        return {'ext': bool(ext), 'kind': kind, 'steps': steps}

    def zero_case(self):
        """exact scenarios whose denominator vanishes: a lone stream without noise, or a
        zero receive filter"""
        rng = self.rng
        if rng.chance(0.5):
            c = self.case(kind='gint', ext=False, K=1)
            c['Ns'] = [1]
            c['F'] = [enc(dec(c['F'][0])[:, :1])]
            c['FJ'] = [enc(dec(c['FJ'][0])[:, :1])]
            c['U'] = [enc(dec(c['U'][0])[:, :1])]
            c['scale'] = [c['scale'][0][:1]]
            c['noise'] = rng.choice([None, 0.0])
            c['ntype'] = rng.choice(NUMTYPES)
            c['why'] = 'lone-stream-no-noise'
            c['solver_ok'] = True
        else:
            c = self.case(kind='gint')
            k = rng.below(c['K'])
            u = dec(c['U'][k])
            u[:, rng.below(u.shape[1])] = 0
            c['U'][k] = enc(u)
            c['why'] = 'zero-filter'
        return c


def case_key(case, i):
    return (case['K'], tuple(case['Nr']), tuple(case['Nt']), tuple(case['NtE']), tuple(case['Ns']), case['ext'],
            case['kind'], case['noise'] is None, case['noise'] == 0.0, case['pl'] is None, i)


def branches_of(ctx, case):
    ctx.branch('extint' if case['ext'] else 'plain')
    ctx.branch('noise:none' if case['noise'] is None else 'noise:zero' if case['noise'] == 0.0 else 'noise:pos')
    ctx.branch('pathloss' if case['pl'] is not None else 'no-pathloss')
    ctx.branch('K=1' if case['K'] == 1 else 'K=2' if case['K'] == 2 else 'K>=3')
    if max(case['Ns']) > 1:
        ctx.branch('multi-stream')
    if case['ext'] and len(case['NtE']) > 1:
        ctx.branch('multi-ext-source')
    if case['ext']:
        ctx.branch('pe:default' if case['pe'] is None else 'pe:zero' if case['pe'] == 0.0 else 'pe:pos')
    ctx.branch('kind:' + case['kind'])
    ctx.branch('dtype:' + case.get('dtype', 'complex'))
    pr = case.get('present') or {}
    ctx.branch('R1:idx-' + (pr.get('idx') or case.get('idx') or 'int'))
    ctx.branch('R8:call-' + ('keyword' if by_keyword(case) else 'positional'))
    if pr.get('arr_per_user'):
        ctx.branch('R10:mixed-element-types')
    if case.get('r14'):
        ctx.branch('R14:' + case['r14'])
    if pr.get('arr'):
        ctx.branch('R1:arr-' + pr['arr'])
    if pr.get('layout'):
        ctx.branch('R2:layout-' + pr['layout'])
    if pr:
        ctx.branch('R1:container-' + pr['container'])
        ctx.branch('R1:dims-' + pr['dims'])
        ctx.branch('R1:K-' + pr['K'])
    if case.get('zero_streams'):
        ctx.branch('R2:zero-streams')
    for f, t in (('noise', 'ntype'), ('pe', 'petype')):
        if case.get(f) is not None and str(case.get(t, '')).startswith('0d:'):
            ctx.branch('R2:0d-' + f)
    if case.get('rclass') == 'R5':
        if case['pl'] is not None and any(x == 0.0 for r in case['pl'] for x in r):
            ctx.branch('R5:pathloss-zero')
        if max(case['Nr'] + case['Nt']) >= 7:
            ctx.branch('R5:size-boundary')
    if case.get('r6'):
        ctx.branch('R6:' + case['r6'])
    if case['noise'] is not None:
        ctx.branch('noise-type:' + (case.get('ntype') or 'float'))
    if case['ext'] and case['pe'] is not None:
        ctx.branch('pe-type:' + (case.get('petype') or 'float'))
    if case['P'] is not None:
        ctx.branch('P-type:' + (case.get('ptype') or 'float'))


# ------------------------------------------------------------ correspondence
def base_tokens(case):
    big, F, FJ, U = arrays(case)
    toks = ['K=%d' % case['K'], 'Nr=' + ilist(case['Nr']), 'Nt=' + ilist(case['Nt']),
            'NtE=' + ilist(case['NtE'] if case['ext'] else []), 'Ns=' + ilist(case['Ns']),
            'ext=%d' % (1 if case['ext'] else 0), 'big=' + cline(big)]
    if case['pl'] is None:
        toks.append('pl=none')
    else:
        rows = [list(case['pl'][k]) + list(case['ple'][k] if case['ext'] else []) for k in range(case['K'])]
        toks.append('pl=' + fline(rows))
    toks.append('noise=' + ('none' if case['noise'] is None else core.f2s(noise_value(case))))
    return toks


def chan_line(case, jp):
    _, F, FJ, U = arrays(case)
    toks = ['chan'] + base_tokens(case) + ['mode=' + ('jp' if jp else 'ic'),
                                           'pe=' + core.f2s(pe_value(case)),
                                           'F=' + cline_many(FJ if jp else F), 'U=' + cline_many(U)]
    return ' '.join(toks)


def solver_line(case, full_W_H):
    _, F, _, _ = arrays(case)
    toks = ['solver'] + base_tokens(case) + ['mode=ic', 'F=' + cline_many(F),
                                            'P=' + ('none' if case['P'] is None else fline(p_values(case))),
                                            'WH=' + cline_many(full_W_H)]
    return ' '.join(toks)


def parse_Q(s, case):
    parts = s.split(';') if case['K'] else []
    return [parse_c(parts[k], (case['Nr'][k], case['Nr'][k])) for k in range(case['K'])]


def cmp_sinr(impl, model):
    """'agree' | description"""
    if impl[0] == 'error' or isinstance(model, tuple):
        a = 'error:' + impl[1] if impl[0] == 'error' else 'ok'
        b = 'error:' + model[1] if isinstance(model, tuple) else 'ok'
        return 'agree' if a == b else 'impl %s, model %s' % (a, b)
    if [len(r) for r in impl[1]] != [len(r) for r in model]:
        return 'shape'
    for k, r in enumerate(impl[1]):
        for l, v in enumerate(r):
            if not sinr_close(v, model[k][l]):
                return 'stream (%d,%d): impl %.17g, model %.17g' % (k, l, v, model[k][l])
    return 'agree'


def cmp_Q(impl, model):
    for k in range(len(impl)):
        if not mat_close(impl[k], model[k]):
            return 'receiver %d: max deviation %.3e' % (k, float(np.abs(np.asarray(impl[k]) - model[k]).max()))
    return 'agree'


def correspondence(ctx, cases):
    jobs, lines = [], []
    for i, case in enumerate(cases):
        branches_of(ctx, case)
        if case.get('rclass'):
            ctx.branch('corr:' + case['rclass'])
        for jp in (False, True):
            try:
                got, q = run_channel(case, jp)
            except Exception as e:      # the oracles report it with the input; here the tie is broken
                ctx.corr(('calc_JP_SINR' if jp else 'calc_SINR') + ':' + variant_tag(case), case, 'a result',
                         'exception ' + type(e).__name__, key=case_key(case, i) + (jp, 'exc'))
                continue
            jobs.append(('jp' if jp else 'ic', i, case, got, q))
            lines.append(chan_line(case, jp))
            ctx.branch('jp' if jp else 'ic')
            if got[0] == 'error':
                ctx.branch('zero-division')
        if case.get('solver'):
            try:
                out = run_solver(case)
            except Exception as e:
                ctx.corr('IASolver.calc_SINR:' + variant_tag(case), case, 'a result', 'exception ' + type(e).__name__,
                         key=case_key(case, i) + ('sol', 'exc'))
                continue
            if out is None:
                ctx.branch('solver:singular-equivalent-channel(skipped)')
                continue
            if out == 'ill-conditioned':
                ctx.branch('solver:denominator-below-1e-6-of-total(skipped)')
                continue
            if out['contract'] > 1e-7:
                ctx.tie_broken('correspondence', 'contract:np.linalg.solve',
                               'Hieq full_W_H - W_H = %.3e' % out['contract'], case)
            if out['contract'] > 1e-9:
                ctx.branch('solver:kernel-contract-margin(skipped)')
                continue
            jobs.append(('solver', i, case, out, None))
            lines.append(solver_line(case, out['full_W_H']))
            ctx.branch('solver')
            if case['P'] is not None and len(set(case['P'])) > 1:
                ctx.branch('unequal-power')
    settle(ctx, jobs, lines)


def settle(ctx, jobs, lines, prefix=''):
    """send the request lines to the compiled model and compare every reply with what the
    implementation reported (`prefix` distinguishes the long-lived-object runs)"""
    drv = core.Driver(DRIVER)
    out_lines = []
    for s in range(0, len(lines), 2000):
        out_lines += drv.ask(lines[s:s + 2000])
    for job, reply in zip(jobs, out_lines):
        what, i, case, got, q = job[:5]
        pfx = job[5] if len(job) > 5 else prefix
        key = case_key(case, i) + (pfx,)
        tag = pfx + variant_tag(case)
        parts = reply.split('|')
        if reply == 'bad-op':
            ctx.corr(what + ':driver', case, 'request understood', 'bad-op', key=key + (what,))
            continue
        if what in ('ic', 'jp'):
            name = ('calc_SINR' if what == 'ic' else 'calc_JP_SINR') + ':' + tag
            ctx.corr(name, case, 'agree', cmp_sinr(got, parse_ll(parts[0])), key=key + (what, 's'))
            qname = ('calc_Q' if what == 'ic' else 'calc_JP_Q') + ':' + tag
            ctx.corr(qname, case, 'agree', cmp_Q(q, parse_Q(parts[1], case)), key=key + (what, 'q'))
            if len(ctx.samples) < 3 and got[0] == 'ok':
                ctx.sample({'call': name, 'K': case['K'], 'Nr': case['Nr'], 'Nt': case['Nt'], 'Ns': case['Ns'],
                            'noise': case['noise'], 'impl': got[1], 'model': parse_ll(parts[0])})
        else:
            m = parse_ll(parts[0])
            ctx.corr('IASolver.calc_SINR:' + tag, case, 'agree', cmp_sinr(got['sinr'], m), key=key + ('sol', 's'))
            if got['sinr'][0] == 'ok' and not isinstance(m, tuple):
                mdb = parse_ll(parts[1])
                ok = all(core.close(a, b, rtol=1e-9, atol=1e-9 * (1 + abs(a))) or sinr_close(10 ** (a / 10), 10 ** (b / 10))
                         for ra, rb in zip(got['dB'], mdb) for a, b in zip(ra, rb)
                         if math.isfinite(a) or math.isfinite(b))
                ctx.corr('IASolver.calc_SINR_in_dB:' + tag, case, 'agree', 'agree' if ok else 'dB values differ',
                         key=key + ('sol', 'db'))
                mc = core.s2f(parts[2])
                total = sum(sum(r) for r in got['sinr'][1])
                okc = abs(got['cap'] - mc) <= 1e-9 * max(1.0, abs(mc)) * (1.0 + total)
                ctx.corr('IASolver.calc_sum_capacity:' + tag, case, 'agree',
                         'agree' if okc else 'impl %.17g model %.17g' % (got['cap'], mc), key=key + ('sol', 'cap'))
            ctx.corr('IASolver.calc_Q:' + tag, case, 'agree', cmp_Q(got['Q'], parse_Q(parts[3], case)),
                     key=key + ('sol', 'q'))
            if len(ctx.samples) < 5 and got['sinr'][0] == 'ok':
                ctx.sample({'call': 'IASolver.calc_SINR:' + tag, 'K': case['K'], 'P': case['P'],
                            'impl': got['sinr'][1], 'model': m})


def corr_sessions(ctx, sessions):
    """the long-lived objects against the (stateless) model: after every step the model is given the
    CURRENT inputs only"""
    jobs, lines = [], []

    def job(what, where, case, got, q, line):
        jobs.append((what, where, case, got, q, pfx))
        lines.append(line)
    for si, sess in enumerate(sessions):
        try:
            recs = run_session(sess)
        except Exception as e:      # the oracle reports it with the input
            ctx.branch('session:exception:' + type(e).__name__)
            continue
        pfx = 'session:'
        if sess.get('r15'):         # R15: the steps differ by a close-but-distinct value of one parameter
            pfx = 'R15:%s:%s:session:' % tuple(sess['r15'])
            ctx.branch('corr:R15')
            ctx.branch('R15:%s:%s' % tuple(sess['r15']))
            if sess.get('margin', 0.0) >= 30.0:
                ctx.branch('R15:%s:%s:reports-differ-by>=30-tolerances' % tuple(sess['r15']))
            if sess.get('scalar_P'):
                ctx.branch('R15:%s:one-power-for-all-users' % sess['r15'][0])
        elif sess.get('buffers'):   # R16: the caller's own buffers, refilled in place
            pfx = 'R16:session:'
            ctx.branch('corr:R16')
            for role, n in ((recs[-1].get('pool') or {}).get('refilled') or {}).items():
                ctx.branch('R16:buffer-refilled-in-place:' + role, n)
        for i, rec in enumerate(recs):
            c, ops = rec['case'], rec['ops']
            ctx.branch('session:%s/%s' % (ops['real'], ops['pl']))
            ctx.branch('session:%s/%s:%s' % (ops['real'], ops['pl'], 'extint' if sess['ext'] else 'plain'))
            ctx.branch('session:layout-' + ops.get('layout', 'first'))
            ctx.branch('session:solver-' + ops['sol'])
            for rj in rec.get('rejected', []):
                ctx.branch('R4:' + rj['call'])
                ctx.branch('corr:R4')
            ctx.branch('corr:R7')
            ctx.branch('corr:R3')
            for qy in rec.get('queried', []):
                ctx.branch('R11:' + qy['call'])
                ctx.branch('corr:R11')
                if qy['changed']:
                    ctx.corr('session:R11:query-leaves-object-unchanged', c, 'unchanged', '%s changed %s' % (qy['call'], qy['changed']))
            if rec.get('child'):
                cr = rec['child']
                ctx.branch('R13:' + cr['how'])
                ctx.branch('corr:R13')
                for what in ('ic', 'jp'):
                    job(what, (si, i, 'child'), cr['case'], cr[what][0], cr[what][1], chan_line(cr['case'], what == 'jp'))
                if isinstance(cr.get('sol'), dict):
                    job('solver', (si, i, 'child'), cr['case'], cr['sol'], None,
                        solver_line(cr['case'], cr['sol']['full_W_H']))
            if isinstance(rec.get('sol2'), dict):
                ctx.branch('R7:second-solver')
                job('solver', (si, i, 2), rec['case2'], rec['sol2'], None,
                    solver_line(rec['case2'], rec['sol2']['full_W_H']))
            if rec.get('moved'):
                ctx.corr('session:R3:earlier-output-unchanged', c, 'unchanged', 'changed: %s' % rec['moved'][:3])
            for rj in rec.get('rejected', []):
                if rj['changed'] or rj['raised'] is None:
                    ctx.corr('session:R4:refused-call-leaves-object-unchanged', c, 'refused, unchanged',
                             '%s: raised %s, changed %s' % (rj['call'], rj['raised'], rj['changed']))
            if c['noise'] is not None:
                ctx.branch('noise-type:' + (c.get('ntype') or 'float'))
            if rec.get('abort'):
                continue
            if rec.get('stored') is not None:       # R15: the value the object holds is the value it was given
                bad = stored_mismatch(c, rec['stored'], sess['ext'])
                ctx.corr(pfx + 'setter-takes-the-value', c, 'stored = given', 'stored = given' if bad is None else bad[1],
                         key=(pfx, si, i, 'stored'))
            for what in ('ic', 'jp'):
                job(what, (si, i), c, rec[what][0], rec[what][1], chan_line(c, what == 'jp'))
            o = rec.get('sol')
            if isinstance(o, dict):
                job('solver', (si, i), c, o, None, solver_line(c, o['full_W_H']))
    settle(ctx, jobs, lines, prefix='session:')


def corr_index(ctx, cases):
    """index arguments against the model: `calc_Q(k)` / `calc_JP_Q(k)` for single receivers whose index is
    handed over in every type (and one index beyond the last user: IndexError), the model being given the VALUE"""
    drv = core.Driver(DRIVER)
    jobs, lines = [], []
    n = 0
    for case in cases:
        K = case['K']
        try:
            with np.errstate(all='ignore'):
                ch = build_channel(case)
                _, F, FJ, _ = presented(case)
                pe = pe_args(case)
                for k in (case['ks'][-2:] if case.get('ks') else list(range(K))) + [K]:
                    for jp in (False, True):
                        fits = [t for t in IDX_TYPES if idx_fits(k, t)]
                        t = fits[n % len(fits)]
                        n += 1
                        try:
                            fn = ch.calc_JP_Q if jp else ch.calc_Q
                            got = ('ok', np.array(fn(idx_typed(k, t), seq(case, FJ if jp else F), *pe)))
                        except IndexError:
                            got = ('error', 'IndexError')
                        jobs.append((case, k, jp, t, got))
                        lines.append('q' + chan_line(case, jp)[4:] + ' k=%d' % k)
                        ctx.branch('index:' + t)
                        if case.get('r14'):
                            ctx.branch('R14:' + case['r14'])
                            ctx.branch('corr:R14')
                        ctx.branch('index:beyond-last-user' if k == K else 'index:k>256' if k > 256 else 'index:k<=256')
        except Exception as e:      # the oracle reports it with the input; here the tie is broken
            ctx.corr('index-arguments:' + variant_tag(case), {'K': K}, 'a result', 'exception ' + type(e).__name__)
    out = drv.ask(lines)
    for (case, k, jp, t, got), reply in zip(jobs, out):
        name = '%s(index as %s):%s' % ('calc_JP_Q' if jp else 'calc_Q', t, 'extint' if case['ext'] else 'plain')
        if reply.startswith('error:') or got[0] == 'error':
            a = 'error:' + got[1] if got[0] == 'error' else 'ok'
            b = reply if reply.startswith('error:') else 'ok'
            ctx.corr(name, {'K': case['K'], 'k': k}, a, b, key=(name, case['K'], k, jp, len(lines)))
        else:
            m = parse_c(reply, (case['Nr'][k], case['Nr'][k]))
            ctx.corr(name, {'K': case['K'], 'k': k}, 'agree', 'agree' if mat_close(got[1], m) else
                     'max deviation %.3e' % float(np.abs(got[1] - m).max()), key=(name, case['K'], k, jp, repr(m[:1])))


def gen_cap_cases(rng, n):
    out = []
    for i in range(n):
        sh = CAP_SHAPES[i % len(CAP_SHAPES)]
        if sh in ('per-user-arrays', 'list-of-arrays'):
            rows = [[10.0 ** rng.uniform(-4, 4) for _ in range(rng.randint(0 if sh == 'list-of-arrays' else 1, 4))]
                    for _ in range(rng.randint(1, 4))]
            if sh == 'per-user-arrays' and len(set(len(r) for r in rows)) == 1 and len(rows) > 1:
                rows[0] = rows[0] + [1.0]       # keep it ragged (a rectangular one is an ordinary 2-D array)
        else:
            nr, nc = rng.randint(1, 4), rng.randint(1, 4)
            rows = [[10.0 ** rng.uniform(-4, 4) for _ in range(nc)] for _ in range(nr)]
        if sh == 'int':
            rows = [[float(rng.randint(0, 9)) for _ in r] for r in rows]
        if sh == 'float32':
            rows = [[float(np.float32(x)) for x in r] for r in rows]
        if i == 0:
            rows = [[0.0, 1.0, 3.0]]
        out.append({'sinrs': rows, 'shape': sh})
    return out


def corr_capacity(ctx, rng, n):
    _, _, misc = _impl()
    drv = core.Driver(DRIVER)
    cases = gen_cap_cases(rng, n)
    lines = []
    for c in cases:
        rows = [cap_entries(c)] if c['shape'] in ('scalar', 'npscalar', '0d', 'empty', 'empty-2d') else c['sinrs']
        lines.append('cap2 ' + ';'.join(fline(r) for r in rows))
    out = drv.ask(lines)
    for c, o in zip(cases, out):
        ctx.branch('capacity')
        ctx.branch('capacity:' + c['shape'])
        try:
            with np.errstate(all='ignore'):
                got = misc.calc_shannon_sum_capacity(cap_arg(c))
            if np.ndim(got) != 0:
                res = 'result of shape %s' % (np.shape(got),)
            else:
                res = 'agree' if core.close(float(got), core.s2f(o), rtol=1e-12, atol=1e-12) else \
                    'impl %r model %r' % (float(got), core.s2f(o))
        except Exception as e:
            res = 'exception ' + type(e).__name__
        ctx.corr('calc_shannon_sum_capacity:' + c['shape'], c, 'agree', res)


# ------------------------------------------------------------------ corpus
def corpus_cases():
    """boundary scenarios that are always run"""
    g = Gen(core.Rng(20240611, 'c11-corpus'), 'quick')
    out = []
    for ext in (False, True):
        for K in (1, 2, 3):
            c = g.case(kind='gint', ext=ext, solver_ok=True, K=K)
            c['solver'] = True
            out.append(c)
    # integer-valued real scenario handed over in integer dtype, integer external power
    c = g.case(kind='rint', ext=True, K=2)
    c['dtype'] = 'int'
    c['pe'] = 2
    c['noise'] = 0.5
    c['pl'] = None
    c['ple'] = None
    out.append(c)
    c = g.case(kind='rint', ext=False, K=2)
    c['dtype'] = 'float'
    out.append(c)
    # minimised regression inputs (past failures, the recorded 0/0 behaviour)
    import glob
    import json
    import os
    for fn in sorted(glob.glob(os.path.join(core.VERIF, 'corpus', 'c11', '*.json'))):
        with open(fn) as f:
            d = json.load(f)
        if 'case' in d:
            out.append(d['case'])
    return out


def corpus_sessions():
    import glob
    import json
    import os
    out = []
    for fn in sorted(glob.glob(os.path.join(core.VERIF, 'corpus', 'c11', '*.json'))):
        with open(fn) as f:
            d = json.load(f)
        if 'session' in d:
            out.append(d['session'])
    return out


def gen_cases(ctx, n):
    g = Gen(ctx.rng.fork('cases'), ctx.tier)
    cases = []
    for i in range(n):
        solver = (i % 2 == 0)
        c = g.case(solver_ok=solver)
        c['solver'] = solver
        cases.append(c)
    for _ in range(max(4, n // 12)):
        c = g.zero_case()
        c['solver'] = bool(c.get('solver_ok'))
        cases.append(c)
    return cases


def gen_rcases(ctx, n):
    """n scenarios of each of the robustness classes that are properties of ONE call (R1 R2 R5 R6)"""
    g = Gen(ctx.rng.fork('rclasses'), ctx.tier)
    out = []
    for i in range(n):
        for mk in (g.r1_case, g.r2_case, g.r5_case, g.r6_case, g.r10_case):
            c = mk()
            c['solver'] = all(0 < c['Ns'][k] <= min(c['Nr'][k], c['Nt'][k]) for k in range(c['K']))
            out.append(c)
    out.append(g.r14_case('many-streams'))
    out.append(g.r14_case('many-ext-sources'))
    return out


def layout_sweep(ctx):
    """thorough tier: every antenna/stream layout with K <= 3 users, 1..2 antennas per side and
    1..2 streams per user, plain and with external interference (values seeded)"""
    import itertools
    g = Gen(ctx.rng.fork('sweep'), ctx.tier)
    per_user = list(itertools.product((1, 2), (1, 2), (1, 2)))
    cases = []
    for K in (1, 2, 3):
        for combo in itertools.product(per_user, repeat=K):
            Nr = [c[0] for c in combo]
            Nt = [c[1] for c in combo]
            Ns = [c[2] for c in combo]
            for ext in (False, True):
                c = g.case(ext=ext, K=K, dims=(Nr, Nt, Ns))
                c['solver'] = all(Ns[k] <= min(Nr[k], Nt[k]) for k in range(K))
                cases.append(c)
    ctx.branch('layout-sweep', len(cases))
    return cases


def gen_sessions(ctx, n):
    g = Gen(ctx.rng.fork('sessions'), ctx.tier)
    return [g.session() for _ in range(n)]


def oracles(ctx, cases, sessions=(), bigk=(), roles=()):
    for i, sess in enumerate(sessions):
        call = 'close-values' if sess.get('r15') else 'argument-buffers' if sess.get('buffers') else 'session'
        run_oracle(ctx, call, sess, key=(call, i, sess['ext'], sess['kind'], len(sess['steps'])))
        for r in ('R3', 'R4', 'R7', 'R11', 'R13'):
            ctx.branch('oracle:' + r)
        if sess.get('r15'):
            ctx.branch('oracle:R15')
            ctx.branch('oracle:R15:%s:%s' % tuple(sess['r15']))
        elif sess.get('buffers'):
            ctx.branch('oracle:R16')
            ctx.branch('oracle:R16:caller-buffers')
    for i, case in enumerate(roles):
        run_oracle(ctx, 'argument-roles', case, key=case_key(case, i) + ('roles',))
        ctx.branch('oracle:R16')
        ctx.branch('oracle:R16:one-object-two-roles')
        ctx.branch('R16:one-object-as-F-and-U' + (':JP' if case['K'] == 1 else ''))
        if case.get('shared_user_array'):
            ctx.branch('R16:one-array-for-every-user')
        if case['ext']:
            ctx.branch('R16:one-object-as-Nr-Nt-NtE')
            if case['pl'] is not None:
                ctx.branch('R16:one-object-as-pathloss-and-ext-pathloss')
    for i, case in enumerate(cases):
        key = case_key(case, i)
        if case.get('rclass'):
            ctx.branch('oracle:' + case['rclass'])
        run_oracle(ctx, 'calc_SINR', case, key=key)
        run_oracle(ctx, 'calc_JP_SINR', case, key=key)
        if arr_dtype(case) == 'complex128' and not case.get('r14'):
            run_oracle(ctx, 'calc_SINR.rescaled-filter', case, key=key)
        if case.get('solver'):
            run_oracle(ctx, 'IASolver.calc_SINR', case, key=key)
        if i % 4 == 1 and not case.get('r14'):
            run_oracle(ctx, 'argument-forms', case, key=key)
            ctx.branch('oracle:R8')
        if (i % 3 == 0 or case.get('rclass')) and not case.get('r14'):
            run_oracle(ctx, 'immutability', case, key=key)
            ctx.branch('oracle:R3')
    for c in gen_cap_cases(ctx.rng.fork('cap'), 3 * len(CAP_SHAPES)):
        run_oracle(ctx, 'calc_shannon_sum_capacity', c)
    for i, case in enumerate(list(bigk) + [c for j, c in enumerate(cases) if j % 7 == 0]):
        run_oracle(ctx, 'index-arguments', case, key=case_key(case, i) + ('index',))
        ctx.branch('oracle:index-arguments')
        if case.get('ks'):
            ctx.branch('oracle:index>256')
            ctx.branch('oracle:R14')


def check(ctx):
    ctx.rule = ('scenarios: K in 1..4 (thorough: ..6) users, 1..4 (..6) antennas per side, 1..3 streams, plain and '
                'external-interference channel objects (1..3 sources of 1..2 antennas), path loss none / random over '
                '3 decades / exact squares, noise_var None / 0 / 1e-3..10, external power default / 0 / positive, '
                'unequal transmit powers; precoders and filters arbitrary (complex Gaussian, Gaussian integers, '
                'widely unequal norms), never aligned on purpose; plus exact zero-denominator scenarios. Every '
                'scenario is evaluated as interference channel and as joint processing, every second one also '
                'through the IA solver. noise_var / pe / P in every numeric type (Python int, float, bool, numpy '
                'ints and floats of several widths, P as array / list / scalar), channels also integer and real '
                'dtype. Sessions: one channel object + one solver re-used over 2..6 scenarios (new realisation by '
                'init_from_channel_matrix / randomize, same or new layout, path loss kept / set / removed, noise, '
                'post filters, solver re-synchronised or left alone), everything re-checked after every step '
                'against the model, first principles and a fresh object; sessions also contain refused calls (R4), '
                'repeated calls and a second solver on the same channel object (R7), and watch earlier results (R3). '
                'Robustness scenarios R1 (narrow element types), R2 (memory layouts, 0-d, zero streams), R5 '
                '(boundary values), R6 (extreme scales), each also through the immutability oracle (R3). '
                'R15 sessions: one object, one parameter moved between close-but-distinct values (tiny / relative 1e-6 / '
                'adjacent doubles / 12 equal decimals), scenario scaled so that consecutive first-principles reports '
                'differ by >= 30 tolerances. R16: every third session and same-layout sessions with the caller\'s own '
                'buffers refilled in place; one array object in two roles. '
                'non-trivial = distinct (layout, class '
                'of channel object, generator kind, noise kind, path-loss presence, index, code path)')
    quick = ctx.tier == 'quick'
    core.prove(ctx, MODULE, generated=['C11Formulas'], drivers=[DRIVER], scratch=ctx.scratch)
    ctx.required_branches = ['ic', 'jp', 'solver', 'extint', 'plain', 'noise:none', 'noise:zero', 'noise:pos',
                             'pathloss', 'no-pathloss', 'zero-division', 'K=1', 'K>=3', 'multi-stream',
                             'multi-ext-source', 'unequal-power', 'pe:default', 'pe:zero', 'pe:pos', 'capacity',
                             'kind:gauss', 'kind:gint', 'kind:wide', 'kind:rint', 'dtype:int', 'dtype:float',
                             'session:randomize/keep', 'session:init/keep', 'session:keep/set', 'session:keep/none',
                             'session:keep/set:extint', 'session:keep/set:plain', 'session:randomize/keep:extint',
                             'session:randomize/keep:plain', 'session:init/keep:extint', 'session:init/keep:plain',
                             'session:layout-antennas', 'session:layout-users', 'session:solver-untouched',
                             'session:solver-sync', 'session:solver-P', 'session:solver-precoders',
                             'session:solver-filters', 'session:solver-randomizeF', 'R7:second-solver',
                             'R5:pathloss-zero', 'R5:size-boundary', 'R6:low-power', 'R6:global',
                             'R2:zero-streams', 'R2:0d-noise', 'R2:0d-pe', 'R1:container-list',
                             'R1:container-tuple', 'R1:dims-list', 'R1:dims-scalar', 'R1:K-np.int8',
                             'R1:K-0d:int32'] + ['corr:R%d' % i for i in range(1, 8)] + \
                            ['oracle:R%d' % i for i in range(1, 8)] + \
                            ['R1:arr-' + a for a in ('int8', 'uint8', 'int16', 'uint16', 'int32', 'int64', 'float32',
                                                     'complex64')] + ['R2:layout-' + l for l in LAYOUTS] + \
                            ['R4:' + r for r in REJECTS_CHANNEL + REJECTS_EXT + REJECTS_SOLVER] + \
                            ['R1:idx-' + t for t in IDX_TYPES] + ['index:' + t for t in IDX_TYPES] + \
                            ['index:k>256', 'index:k<=256', 'index:beyond-last-user', 'oracle:index-arguments',
                             'oracle:index>256'] + ['capacity:' + sh for sh in CAP_SHAPES] + \
                            ['R8:call-keyword', 'R8:call-positional', 'oracle:R8', 'R10:mixed-element-types',
                             'corr:R10', 'oracle:R10', 'corr:R11', 'oracle:R11', 'corr:R13', 'oracle:R13',
                             'R13:deepcopy', 'R13:pickle', 'R14:many-users', 'R14:many-streams',
                             'R14:many-ext-sources', 'corr:R14', 'oracle:R14'] + \
                            ['R11:' + q for q in QUERIES + QUERIES_EXT] + ['noise-type:' + t for t in NUMTYPES] + \
                            ['pe-type:' + t for t in NUMTYPES] + \
                            ['P-type:' + t for t in ('float', 'int', 'np.int32', 'np.float32', 'list', 'scalar:int',
                                                     'scalar:float', 'scalar:np.float32', 'scalar:np.int64')] + \
                            ['corr:R15', 'oracle:R15', 'corr:R16', 'oracle:R16', 'oracle:R16:caller-buffers',
                             'oracle:R16:one-object-two-roles', 'R16:one-object-as-F-and-U',
                             'R16:one-object-as-F-and-U:JP', 'R16:one-array-for-every-user',
                             'R16:one-object-as-Nr-Nt-NtE', 'R16:one-object-as-pathloss-and-ext-pathloss'] + \
                            ['R15:%s:%s' % k for k in R15_KINDS] + ['oracle:R15:%s:%s' % k for k in R15_KINDS] + \
                            ['R15:%s:%s:reports-differ-by>=30-tolerances' % k for k in R15_KINDS
                             if k[1] in ('tiny', 'rel1e-6')] + \
                            ['R16:buffer-refilled-in-place:' + r for r in R16_ROLES] + \
                            ['R15:F:one-power-for-all-users', 'R15:P:one-power-for-all-users']
    cases = corpus_cases() + gen_cases(ctx, 300 if quick else 3000) + gen_rcases(ctx, 40 if quick else 400)
    gb = Gen(ctx.rng.fork('bigk'), ctx.tier)
    bigk = [gb.bigk_case(ext=bool((i + ctx.seed) % 2)) for i in range(1 if quick else 6)]
    if not quick:
        cases += layout_sweep(ctx)
    sessions = corpus_sessions() + gen_sessions(ctx, 130 if quick else 1000)
    # R16: every third of those lives again … with the caller keeping ONE buffer per argument (same histories,
    # same contents, but always the same array objects); plus sessions whose layout never changes, so that every
    # buffer is refilled for every call
    for i, sess in enumerate(sessions):
        if i % 3 == 2:
            sess['buffers'] = True
    gs = Gen(ctx.rng.fork('r15r16'), ctx.tier)
    sessions += [gs.buffer_session(ext=bool(i % 2), flavour=(i // 2) % 3) for i in range(12 if quick else 60)]
    # R15: one object taken through close-but-distinct values of ONE parameter
    for rep in range(1 if quick else 4):
        for param, closeness in R15_KINDS:
            # (precoders, powers: also with one power for all users — the scalar branch of the P setter, and
            # set_precoders(F=…) without a power vector)
            for scalar_P in ((False, True) if param in ('F', 'P') else (bool(rep % 2),)):
                sessions.append(gs.r15_session(param, closeness, n_steps=3 if quick else gs.rng.randint(3, 4),
                                               scalar_P=scalar_P, deep=(rep % 3 != 1)))
    roles = [gs.roles_case() for _ in range(12 if quick else 120)]
    try:
        correspondence(ctx, cases)
        corr_sessions(ctx, sessions)
        corr_index(ctx, bigk + [c for i, c in enumerate(cases) if i % 9 == 0])
        corr_capacity(ctx, ctx.rng.fork('capc'), 40 if quick else 400)
    except core.Infra as e:
        if not ctx.broken:
            raise
        ctx.notes.append('correspondence skipped: %s' % e)
        ctx.required_branches = []
    oracles(ctx, cases, sessions, bigk, roles)


def search(ctx):
    """deeper failing-input search, used when a proof / correspondence broke"""
    before = len(ctx.failures)
    g = Gen(ctx.rng.fork('search'), ctx.tier)
    for _ in range(4):
        sessions = gen_sessions(ctx, 100) + [g.buffer_session(flavour=i_ % 3) for i_ in range(30)] + \
            [g.r15_session(p_, c_, scalar_P=g.rng.chance(0.5)) for p_, c_ in R15_KINDS]
        oracles(ctx, gen_cases(ctx, 400), sessions, roles=[g.roles_case() for _ in range(40)])
        if len(ctx.failures) > before:
            return
