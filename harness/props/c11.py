"""C11 — reported SINRs equal first-principles signal / (interference + noise)
(DESIGN.md §5 C11).

Tie to source: hand model `lean/PyPhysim/Model/C11.lean` (polymorphic in the complex
scalar `α` and the real scalar `ρ`; theorems at `ℂ`/`ℝ`, driver at binary64).  Each
seeded scenario is run through the REAL `MultiUserChannelMatrix` /
`MultiUserChannelMatrixExtInt` object (interference channel and joint processing) and
through a real `IASolverBaseClass`, and the same scenario (big channel matrix, antenna
layout, path loss, noise, external power, precoders, filters) is sent to the compiled
model, which rebuilds the channel views and evaluates the same code paths.

`np.linalg.solve` inside `IASolverBaseClass.full_W_H` is an external kernel: its
result is read from the solver and handed to the model; its contract
(`Hieq · full_W_H = W_H`) is checked numerically on every case.

Long-lived objects ("sessions"): ONE channel object and ONE solver bound to it live through
2..6 seeded scenarios reached through the public API (init_from_channel_matrix / randomize
with the same layout, other antenna numbers, another number of users; path loss kept,
changed, removed; noise variance; post filters; precoders / powers / filters handed over
again or left alone).  After EVERY step every reported quantity is compared with the
(stateless) model on the CURRENT inputs, with first principles on the current raw channel
and path loss, and with a fresh object given the same current inputs.  A path loss set for
another number of links is discarded by the new realisation (documented behaviour of
_update_pathloss_big_matrix).  The solver's filters are handed over again whenever its
cached full_W_H would be stale w.r.t. new precoders (iabase cache coherence is C10's
property); when the solver is left alone its own full_W_H is the filter first principles use.

noise_var, the external power and the transmit powers are drawn in every numeric type
(Python int / float / bool, np.int32/64, np.float16/32/64, power vectors as int / float32
arrays, lists, scalars through the P setter), channels and precoders also in integer and
real dtype.

The oracles evaluate the property on the real code from first principles with scalar
loops (no matrix products of the form under test): power of the desired stream after
the filter over the summed powers of every other stream of every user + external
interference + filtered noise.
"""
import math

import numpy as np

from harness import core

MODULE = 'PyPhysim.Properties.C11'
DRIVER = 'drv_c11'
CLAIM = {
    'technique': 'Lean 4 theorems (Mathlib matrices over C: Gram quadratic form, positive semidefiniteness) about an '
                 'executable polymorphic model of both SINR implementations; seeded differential correspondence at '
                 'binary64 against the channel object (IC + joint processing, with and without external '
                 'interference) and the IA solver; scalar-loop first-principles oracles on the real code',
    'text': 'Kernel-checked for every number of users, antenna/stream layout, channel, precoders, filters, noise '
            'variance >= 0 (or none) and external power >= 0: the quotient the channel object and the IA solver '
            'compute equals |u^H H_kk f_l|^2 / (sum over all other streams of all users |u^H H_kj f_jd|^2 + pe sum '
            '|u^H h_e|^2 + sigma^2 |u|^2) (joint processing: the same with H_k for every link); a vanishing '
            'denominator is exactly the ZeroDivisionError case; the two implementations agree for every filter '
            'matrix; the value is invariant under rescaling a filter by any c != 0 and non-negative; transmit powers '
            'and path losses enter as per-link power factors and the channel views scale block (k,j) by '
            'sqrt(pathloss[k,j]) for every layout; the reported Q matrices are the sum of the interfering links\' '
            'covariances (+ external + noise), Hermitian and positive semidefinite; SINR in dB and the sum capacity '
            'are 10 log10 and sum log2(1+SINR) of those values, and calc_SINR raises as soon as one stream does. The '
            'model is tied to multiuser.py / iabase.py / misc.py by correspondence within 1e-9 (1+SINR) on both '
            'implementations and every code path, on fresh objects and after every step of seeded lives of one '
            're-used channel object + solver (the model has no state: reports depend on the current inputs only), '
            'with noise variance / external power / transmit powers given in every numeric type.',
    'note': 'trusted: binary64 rounding (compared within 1e-9 relative to the forward-error scale (1+SINR), the '
            'denominator being computed as total power minus own stream), np.linalg.solve in full_W_H (its result is '
            'an input of the model, contract checked per case; the theorems hold for every filter matrix), the '
            'harness. noise_var None/0 with no interference and no other stream is 0/0: a tagged "zero denominator" '
            'outcome in the model (excluded from the value theorems by the denominator hypothesis); the channel '
            'object raises ZeroDivisionError there, the IA solver reports a non-finite entry (inf/nan, also in dB '
            'and sum capacity) and the harness maps both to that tag. Sessions read the raw realisation that '
            'randomize stored from _big_H_no_pathloss; a path loss set for another number of links is discarded by '
            'a new realisation (documented behaviour). The IA solver has no external-power '
            'parameter: it is compared at the channel object\'s default pe = 1. Fixed in the worktree: the solver '
            'ignored external interference; integer channel + integer pe + noise raised a casting error. A '
            'MultiUserChannelMatrixExtInt with zero external sources is outside the generators (its Nr/Nt slices '
            'are empty).',
}


def _impl():
    from pyphysim.channels import multiuser
    from pyphysim.ia import iabase
    from pyphysim.util import misc
    return multiuser, iabase, misc


# ------------------------------------------------------------------ helpers
def enc(a):
    a = np.asarray(a)
    flat = a.reshape(-1)
    if np.iscomplexobj(a):
        return {'shape': list(a.shape), 'kind': 'c', 'data': [[float(z.real), float(z.imag)] for z in flat]}
    if a.dtype.kind in 'iu':
        return {'shape': list(a.shape), 'kind': 'i', 'data': [int(z) for z in flat]}
    return {'shape': list(a.shape), 'kind': 'f', 'data': [float(z) for z in flat]}


def dec(d):
    if d['kind'] == 'c':
        a = np.array([complex(re, im) for re, im in d['data']], dtype=complex)
    elif d['kind'] == 'i':
        a = np.array(d['data'], dtype=np.int64)
    else:
        a = np.array(d['data'], dtype=float)
    return a.reshape(d['shape'])


def cline(a):
    flat = np.asarray(a, dtype=complex).reshape(-1)
    if flat.size == 0:
        return '-'
    return ','.join(core.f2s(z.real) + ',' + core.f2s(z.imag) for z in flat)


def cline_many(mats):
    parts = [cline(m) for m in mats if np.asarray(m).size]
    return ','.join(parts) if parts else '-'


def fline(a):
    flat = np.asarray(a, dtype=float).reshape(-1)
    if flat.size == 0:
        return '-'
    return ','.join(core.f2s(x) for x in flat)


def ilist(v):
    v = list(v)
    return ','.join(str(int(x)) for x in v) if v else '-'


def parse_c(s, shape):
    if s == '':
        return np.zeros(shape, dtype=complex)
    v = [core.s2f(t) for t in s.split(',')]
    return (np.array(v[0::2]) + 1j * np.array(v[1::2])).reshape(shape)


def parse_ll(s):
    """`a,b;c` -> [[a, b], [c]]  or  ('error', kind)"""
    if s.startswith('error:'):
        return ('error', s[6:])
    return [[core.s2f(t) for t in r.split(',') if t] for r in s.split(';')]


def obj(mats):
    a = np.empty(len(mats), dtype=object)
    for i, m in enumerate(mats):
        a[i] = m
    return a


def sinr_close(a, b, rtol=1e-9):
    """the code computes the denominator as (total received power) - (own stream), so
    the forward error of the quotient scales with (1 + SINR)"""
    if not (math.isfinite(a) and math.isfinite(b)):
        return False
    m = max(abs(a), abs(b))
    # + absolute floor: a signal amplitude u^H H f that vanishes by cancellation is rounding noise of relative
    # size 1e-16, i.e. a "zero" SINR is only known to about 1e-32 of the uncancelled SINR
    return abs(a - b) <= rtol * max(m, 1e-300) * (1.0 + m) + 1e-18


def mat_close(a, b, rtol=1e-9):
    a = np.asarray(a)
    b = np.asarray(b)
    if a.shape != b.shape or not (np.all(np.isfinite(a)) and np.all(np.isfinite(b))):
        return False
    if a.size == 0:
        return True
    sc = max(1.0, float(np.abs(a).max()), float(np.abs(b).max()))
    return float(np.abs(a - b).max()) <= rtol * sc


# ------------------------------------------------------------------ scenario
def layout(case):
    Nr = list(case['Nr'])
    Nt = list(case['Nt'])
    NtE = list(case['NtE']) if case['ext'] else []
    cr = [0]
    for x in Nr:
        cr.append(cr[-1] + x)
    ct = [0]
    for x in Nt + NtE:
        ct.append(ct[-1] + x)
    return Nr, Nt, NtE, cr, ct


def arrays(case):
    """numpy arrays of the case in the dtype the case asks for"""
    kind = case.get('dtype', 'complex')
    conv = {'complex': lambda a: np.asarray(a, dtype=complex),
            'float': lambda a: np.asarray(np.real(a), dtype=float),
            'int': lambda a: np.asarray(np.real(a)).round().astype(np.int64)}[kind]
    big = conv(dec(case['big']))
    F = [conv(dec(x)) for x in case['F']]
    FJ = [conv(dec(x)) for x in case['FJ']]
    U = [conv(dec(x)) for x in case['U']]
    return big, F, FJ, U


NUMTYPES = ['float', 'int', 'bool', 'np.int32', 'np.int64', 'np.float16', 'np.float32', 'np.float64']


def typed(v, tag):
    """the value handed to the implementation: `v` in the numeric type named by `tag`"""
    if v is None:
        return None
    t = {'float': float, 'int': int, 'bool': bool, 'np.int32': np.int32, 'np.int64': np.int64,
         'np.float16': np.float16, 'np.float32': np.float32, 'np.float64': np.float64}[tag or 'float']
    return t(v)


def noise_arg(case):
    return typed(case['noise'], case.get('ntype'))


def noise_value(case):
    """the noise variance as a real number (None = no noise)"""
    v = noise_arg(case)
    return None if v is None else float(v)


def p_arg(case):
    """the power vector as handed to set_precoders (None: full_F is given instead)"""
    if case['P'] is None:
        return None
    pt = case.get('ptype') or 'float'
    if pt == 'list':
        return [float(x) for x in case['P']]
    if pt.startswith('scalar:'):
        return typed(case['P'][0], pt[7:])
    return np.array(case['P'], dtype={'float': float, 'int': int, 'np.int32': np.int32, 'np.float32': np.float32}[pt])


def p_values(case):
    if case['P'] is None:
        return None
    a = p_arg(case)
    if np.ndim(a) == 0:
        return [float(a)] * case['K']
    return [float(x) for x in a]


def build_channel(case):
    mu, _, _ = _impl()
    K = case['K']
    big, _, _, _ = arrays(case)
    Nr = np.array(case['Nr'], dtype=int)
    Nt = np.array(case['Nt'], dtype=int)
    if case['ext']:
        ch = mu.MultiUserChannelMatrixExtInt()
        ch.init_from_channel_matrix(big.copy(), Nr, Nt, K, np.array(case['NtE'], dtype=int))
        if case['pl'] is not None:
            ch.set_pathloss(np.array(case['pl'], dtype=float), np.array(case['ple'], dtype=float))
    else:
        ch = mu.MultiUserChannelMatrix()
        ch.init_from_channel_matrix(big.copy(), Nr, Nt, K)
        if case['pl'] is not None:
            ch.set_pathloss(np.array(case['pl'], dtype=float))
    ch.noise_var = noise_arg(case)
    return ch


def pe_args(case):
    """positional `pe` argument of the ExtInt methods (omitted => the default 1.0)"""
    if case['ext'] and case['pe'] is not None:
        return (typed(case['pe'], case.get('petype')),)
    return ()


def pe_value(case):
    if not case['ext']:
        return 0.0
    return 1.0 if case['pe'] is None else float(typed(case['pe'], case.get('petype')))


def call_guard(fn):
    """('ok', value) | ('error', ExceptionTypeName)"""
    try:
        return ('ok', fn())
    except ZeroDivisionError:
        return ('error', 'ZeroDivisionError')


def run_channel(case, jp):
    with np.errstate(all='ignore'):
        return _run_channel(case, jp)


def _run_channel(case, jp):
    return eval_channel(build_channel(case), case, jp)


def eval_channel(ch, case, jp):
    """every quantity the channel object `ch` reports for the scenario `case`"""
    _, F, FJ, U = arrays(case)
    Fs = obj(FJ if jp else F)
    Us = obj(U)
    if case.get('as_list'):
        Fs, Us = list(Fs), list(Us)
    pe = pe_args(case)
    if jp:
        s = call_guard(lambda: ch.calc_JP_SINR(Fs, Us, *pe))
        q = [ch.calc_JP_Q(k, Fs, *pe) for k in range(case['K'])]
    else:
        s = call_guard(lambda: ch.calc_SINR(Fs, Us, *pe))
        q = [ch.calc_Q(k, Fs, *pe) for k in range(case['K'])]
    if s[0] == 'ok':
        s = ('ok', [[float(x) for x in r] for r in s[1]])
    return s, q


def run_solver(case):
    """the IA solver on a fresh channel object; returns None when the equivalent channel
    handed to np.linalg.solve is (numerically) singular — precondition of full_W_H"""
    with np.errstate(all='ignore'):
        return _run_solver(case)


def _run_solver(case):
    _, ia, _ = _impl()
    ch = build_channel(case)
    sol = ia.IASolverBaseClass(ch)
    sync_solver(sol, case)
    return eval_solver(sol, build_channel(case), case)


def sync_solver(sol, case, precoders=True, filters=True):
    """hand the precoders + powers and / or the receive filters of `case` to the solver through its
    public setters"""
    _, F, _, U = arrays(case)
    if precoders:
        pa = p_arg(case)
        if pa is None:
            sol.set_precoders(full_F=obj(F))
        elif np.ndim(pa) == 0 and not isinstance(pa, list):
            sol.P = pa
            sol.set_precoders(F=obj(F))
        else:
            sol.set_precoders(F=obj(F), P=pa)
    if filters:
        if case.get('set_W'):
            sol.set_receive_filters(W=obj(U))
        else:
            sol.set_receive_filters(W_H=obj([u.conj().T for u in U]))


def eval_solver(sol, ch2, case, synced=True):
    """every quantity the solver reports; `ch2` is the channel object evaluated with the solver's
    precoders and filters.  None / 'ill-conditioned' when outside the preconditions.
    `synced=False`: the filters were not handed over again after the last change (the cached full_W_H
    is whatever the solver holds), so the np.linalg.solve contract is not checked."""
    _, F, _, U = arrays(case)
    K = case['K']
    pv = p_values(case)
    full_F = [np.array(sol.full_F[k], dtype=complex) for k in range(K)]
    blocks = ref_blocks(case)
    if synced:
        for k in range(K):
            heq = U[k].conj().T @ blocks['H'][k][k] @ full_F[k]
            if heq.shape[0] != heq.shape[1] or heq.size == 0:
                return None
            sv = np.linalg.svd(heq, compute_uv=False)
            # singular or nearly so — relative to its own largest singular value and to the scale of the
            # factors it is the product of (a 1x1 equivalent channel that vanishes is rounding noise)
            scale = np.linalg.norm(U[k]) * np.linalg.norm(blocks['H'][k][k]) * np.linalg.norm(full_F[k])
            if sv[-1] <= 1e-6 * sv[0] or sv[-1] <= 1e-8 * scale or sv[0] == 0:
                return None
    try:
        wh = [np.array(sol.full_W_H[k], dtype=complex) for k in range(K)]
        w = [np.array(sol.full_W[k], dtype=complex) for k in range(K)]
    except np.linalg.LinAlgError:
        return None
    if not all(np.all(np.isfinite(x)) for x in wh):
        return None
    # full_W_H inverts the equivalent channel, i.e. it zero-forces the other streams of the own user: with
    # nothing else in the denominator (single user, no noise, no external interference) the denominator is
    # 0 up to the rounding of np.linalg.solve — x/0 or x/rounding-noise.  That is the case the property
    # excludes; the margin keeps the comparison away from it (never compare near-ties).
    fullF_h = [np.asarray(F[k], dtype=complex) * (1.0 if pv is None else math.sqrt(pv[k])) for k in range(K)]
    fp = fp_streams(case, 'ic', fullF_h, [x.conj().T for x in wh], pe_value(dict(case, pe=None)), noise_value(case))
    # … except the structural 0/0: ONE user with ONE stream, no noise, no external interference.  There the
    # code subtracts two identically computed matrices, the denominator is exactly 0 whatever the filter, and
    # the outcome ("zero denominator": non-finite entry on the solver side) is compared as a status.
    lonely = (K == 1 and F[0].shape[1] == 1 and not noise_value(case) and not case['ext'])
    if not lonely and any(not (d > 1e-6 * (sg + d)) for sg, d in fp.values()):
        return 'ill-conditioned'
    contract = 0.0
    if synced:
        for k in range(K):
            heq = U[k].conj().T @ blocks['H'][k][k] @ full_F[k]
            contract = max(contract, float(np.abs(heq @ wh[k] - U[k].conj().T).max()) /
                           max(1.0, float(np.abs(U[k]).max())))
    s = call_guard(lambda: sol.calc_SINR())
    # zero denominator: the channel object divides Python scalars (ZeroDivisionError), the solver divides
    # with numpy and reports a non-finite entry (inf for x/0, nan for 0/0; dB values and sum capacity are
    # then non-finite too).  Both are the model's tagged outcome "zero denominator".
    if s[0] == 'ok' and not all(math.isfinite(float(x)) for r in s[1] for x in r):
        s = ('error', 'ZeroDivisionError')
    out = {'full_F': full_F, 'full_W_H': wh, 'full_W': w, 'contract': contract, 'sinr': s}
    if s[0] == 'ok':
        out['sinr'] = ('ok', [[float(x) for x in r] for r in s[1]])
        out['dB'] = [[float(x) for x in r] for r in sol.calc_SINR_in_dB()]
        out['cap'] = float(sol.calc_sum_capacity())
    out['Q'] = [sol.calc_Q(k) for k in range(K)]
    # the channel object evaluated with the solver's precoders and filters (default pe)
    out['chan'] = call_guard(lambda: ch2.calc_SINR(obj(full_F), obj(w)))
    if out['chan'][0] == 'ok':
        out['chan'] = ('ok', [[float(x) for x in r] for r in out['chan'][1]])
    return out


# ------------------------------------------------- first-principles reference
def ref_blocks(case):
    """channel blocks cut out of the big matrix by the harness' own index arithmetic,
    with the path loss applied entry by entry"""
    Nr, Nt, NtE, cr, ct = layout(case)
    K = case['K']
    big = np.asarray(dec(case['big']), dtype=complex)
    if case.get('dtype', 'complex') != 'complex':
        big = np.real(big).astype(complex)
    pl = case['pl']
    ple = case.get('ple')
    H = [[None] * K for _ in range(K)]
    for k in range(K):
        for j in range(K):
            g = 1.0 if pl is None else math.sqrt(pl[k][j])
            H[k][j] = big[cr[k]:cr[k + 1], ct[j]:ct[j + 1]] * g
    He = []
    for k in range(K):
        cols = []
        for e in range(len(NtE)):
            g = 1.0 if pl is None else math.sqrt(ple[k][e])
            cols.append(big[cr[k]:cr[k + 1], ct[K + e]:ct[K + e + 1]] * g)
        He.append(np.hstack(cols) if cols else np.zeros((Nr[k], 0), dtype=complex))
    Hk = [np.hstack([H[k][j] for j in range(K)]) for k in range(K)]
    return {'H': H, 'He': He, 'Hk': Hk}


def uh_h_f(u, Hm, f):
    """u^H H f with scalar loops"""
    acc = 0j
    for a in range(Hm.shape[0]):
        ua = complex(u[a]).conjugate()
        row = 0j
        for b in range(Hm.shape[1]):
            row += complex(Hm[a, b]) * complex(f[b])
        acc += ua * row
    return acc


def fp_streams(case, variant, F, U, pe, noise):
    """{(k,l): (signal power, interference + external + noise power)} from first principles.
    `variant`: 'ic' (transmitter j reaches receiver k through H_kj, precoder F_j on its own
    antennas) or 'jp' (every precoder is applied on all users' antennas, channel H_k)"""
    K = case['K']
    b = ref_blocks(case)
    out = {}
    for k in range(K):
        for l in range(F[k].shape[1]):
            u = U[k][:, l]

            def chan(j):
                return b['H'][k][j] if variant == 'ic' else b['Hk'][k]
            sig = abs(uh_h_f(u, chan(k), F[k][:, l])) ** 2
            intf = 0.0
            for j in range(K):
                for d in range(F[j].shape[1]):
                    if (j, d) != (k, l):
                        intf += abs(uh_h_f(u, chan(j), F[j][:, d])) ** 2
            ext = 0.0
            He = b['He'][k]
            for e in range(He.shape[1]):
                ext += pe * abs(sum(complex(u[a]).conjugate() * complex(He[a, e]) for a in range(He.shape[0]))) ** 2
            nz = (noise or 0.0) * sum(abs(complex(x)) ** 2 for x in u)
            out[(k, l)] = (sig, intf + ext + nz)
    return out


def fp_Q(case, variant, F, pe, noise):
    """sum of the interfering links' covariances (+ external interference + noise),
    built from outer products of the received stream vectors"""
    K = case['K']
    b = ref_blocks(case)
    Nr = case['Nr']
    out = []
    for k in range(K):
        Q = np.zeros((Nr[k], Nr[k]), dtype=complex)
        for j in range(K):
            if j == k:
                continue
            Hm = b['H'][k][j] if variant == 'ic' else b['Hk'][k]
            for d in range(F[j].shape[1]):
                x = Hm @ F[j][:, d]
                Q += np.outer(x, x.conj())
        He = b['He'][k]
        for e in range(He.shape[1]):
            Q += pe * np.outer(He[:, e], He[:, e].conj())
        if noise:
            Q += noise * np.eye(Nr[k])
        out.append(Q)
    return out


def variant_tag(case):
    tag = 'extint' if case['ext'] else 'plain'
    if 'noise' not in case:          # a session: only the class of the channel object is known
        return tag
    if case.get('dtype', 'complex') != 'complex':
        tag += ':' + case['dtype']
    if case.get('ntype') not in (None, 'float') and case['noise'] is not None:
        tag += ':noise-' + case['ntype']
    return tag


def compare_streams(case, got, fp):
    """None | (what, detail) — `got` = ('ok', lists) or ('error', kind)"""
    zero = [kl for kl, (s, d) in fp.items() if d == 0.0]
    if got[0] == 'error':
        if zero:
            return None          # 0/0 or x/0: outside the property (denominator hypothesis)
        return ('exception:' + got[1], 'no stream has a zero denominator')
    if zero:
        return None
    for (k, l), (s, d) in sorted(fp.items()):
        v = got[1][k][l]
        if not (v >= 0.0):
            return ('negative', 'stream (%d,%d): %r' % (k, l, v))
        if not sinr_close(v, s / d):
            return ('not-first-principles', 'stream (%d,%d): reported %.17g, first principles %.17g' % (k, l, v, s / d))
    return None


# ------------------------------------------------------------------ oracles
def o_channel(case, jp):
    got, q = run_channel(case, jp)
    return judge_channel(case, jp, got, q)


def judge_channel(case, jp, got, q):
    """what a channel object reported (`got`, `q`) for the scenario `case` against first principles"""
    _, F, FJ, U = arrays(case)
    Fc = [np.asarray(x, dtype=complex) for x in (FJ if jp else F)]
    Uc = [np.asarray(x, dtype=complex) for x in U]
    fp = fp_streams(case, 'jp' if jp else 'ic', Fc, Uc, pe_value(case), noise_value(case))
    r = compare_streams(case, got, fp)
    if r is not None:
        return (r[0] + ':' + variant_tag(case), r[1])
    qref = fp_Q(case, 'jp' if jp else 'ic', Fc, pe_value(case), noise_value(case))
    for k in range(case['K']):
        Q = np.asarray(q[k])
        sc = max(1.0, float(np.abs(qref[k]).max()) if qref[k].size else 1.0)
        if Q.shape != qref[k].shape:
            return ('Q-shape:' + variant_tag(case), 'receiver %d: %s' % (k, Q.shape))
        if Q.size == 0:
            continue
        if float(np.abs(Q - Q.conj().T).max()) > 1e-12 * sc:
            return ('Q-not-hermitian:' + variant_tag(case), 'receiver %d' % k)
        if float(np.linalg.eigvalsh((Q + Q.conj().T) / 2).min()) < -1e-9 * sc:
            return ('Q-not-psd:' + variant_tag(case), 'receiver %d' % k)
        if not mat_close(Q, qref[k]):
            return ('Q-not-sum-of-links:' + variant_tag(case),
                    'receiver %d: max deviation %.3e' % (k, float(np.abs(Q - qref[k]).max())))
    return None


def o_calc_SINR(case):
    return o_channel(case, False)


def o_calc_JP_SINR(case):
    return o_channel(case, True)


def o_scale(case):
    """rescaling the receive filter of a stream by a non-zero complex number leaves every
    reported SINR where it was (both variants)"""
    for jp in (False, True):
        got, _ = run_channel(case, jp)
        c2 = dict(case)
        U = [np.asarray(dec(x), dtype=complex) for x in case['U']]
        for k in range(case['K']):
            sc = np.array([complex(re, im) for re, im in case['scale'][k]])
            U[k] = U[k] * sc[None, :]
        c2['U'] = [enc(u) for u in U]
        c2['dtype'] = 'complex'
        got2, _ = run_channel(c2, jp)
        if got[0] != got2[0]:
            return ('scale-variant:' + variant_tag(case), '%s -> %s' % (got, got2))
        if got[0] == 'ok':
            for k in range(case['K']):
                for l in range(len(got[1][k])):
                    if not sinr_close(got[1][k][l], got2[1][k][l]):
                        return ('scale-variant:' + variant_tag(case),
                                '%s stream (%d,%d): %.17g -> %.17g' % ('jp' if jp else 'ic', k, l, got[1][k][l], got2[1][k][l]))
    return None


def o_solver(case):
    """the IA solver: first principles (its own full_F / full_W_H), agreement with the
    channel object, dB and sum capacity"""
    return judge_solver(case, run_solver(case))


def judge_solver(case, out):
    if out is None or out == 'ill-conditioned':
        return None
    tag = variant_tag(case)
    K = case['K']
    # the precoders with the transmit power applied, formed by the harness: stream powers scale with P_k
    _, F, _, _ = arrays(case)
    pv = p_values(case)
    fullF = [np.asarray(F[k], dtype=complex) * (1.0 if pv is None else math.sqrt(pv[k])) for k in range(K)]
    for k in range(K):
        if not mat_close(out['full_F'][k], fullF[k], rtol=1e-12):
            return ('full_F-not-sqrtP-scaled:' + tag, 'user %d' % k)
    Uc = [out['full_W_H'][k].conj().T for k in range(K)]
    fp = fp_streams(case, 'ic', fullF, Uc, pe_value(dict(case, pe=None)), noise_value(case))
    r = compare_streams(case, out['sinr'], fp)
    if r is not None:
        return (r[0] + ':' + tag, r[1])
    if out['sinr'][0] != out['chan'][0]:
        return ('paths-disagree:' + tag, 'solver %s, channel object %s' % (out['sinr'][0], out['chan'][0]))
    if out['sinr'][0] == 'ok':
        flat = []
        for k in range(K):
            for l in range(len(out['sinr'][1][k])):
                a, b = out['sinr'][1][k][l], out['chan'][1][k][l]
                flat.append(a)
                if not sinr_close(a, b):
                    return ('paths-disagree:' + tag, 'stream (%d,%d): solver %.17g, channel object %.17g' % (k, l, a, b))
                if a > 0:
                    if not core.close(out['dB'][k][l], 10.0 * math.log10(a), rtol=1e-12, atol=1e-12):
                        return ('dB:' + tag, 'stream (%d,%d)' % (k, l))
        cap = math.fsum(math.log2(1.0 + x) for x in flat)
        if not core.close(out['cap'], cap, rtol=1e-12):
            return ('capacity:' + tag, 'reported %.17g, sum log2(1+SINR) %.17g' % (out['cap'], cap))
    qref = fp_Q(case, 'ic', fullF, pe_value(dict(case, pe=None)), noise_value(case))
    for k in range(K):
        if not mat_close(out['Q'][k], qref[k]):
            return ('Q-not-sum-of-links:' + tag, 'solver.calc_Q(%d)' % k)
    return None


def o_capacity(case):
    _, _, misc = _impl()
    xs = [float(x) for x in case['sinrs']]
    got = float(misc.calc_shannon_sum_capacity(np.array(xs)))
    ref = math.fsum(math.log2(1.0 + x) for x in xs)
    if not core.close(got, ref, rtol=1e-12, atol=1e-12):
        return ('capacity', 'reported %.17g, sum log2(1+x) %.17g' % (got, ref))
    return None


# ------------------------------------------------------------- long-lived objects
def run_session(sess):
    """ONE channel object and ONE IA solver bound to it live through the steps of `sess`; after every
    step every reported quantity is collected.  Returns one record per step with the scenario the object
    is in at that point (`case`: current raw channel, current path loss, current noise variance, …)."""
    with np.errstate(all='ignore'):
        return _run_session(sess)


def _run_session(sess):
    mu, ia, _ = _impl()
    ext = sess['ext']
    ch = mu.MultiUserChannelMatrixExtInt() if ext else mu.MultiUserChannelMatrix()
    sol = None
    sol_ok = False
    cur_big = None
    out = []
    cur_F = None
    for st in sess['steps']:
        c = dict(st['case'])
        ops = st['ops']
        K = c['K']
        if c['F'] is None:      # inherited from the previous step (or about to be drawn by randomizeF)
            c['F'] = cur_F
        Nr = np.array(c['Nr'], dtype=int)
        Nt = np.array(c['Nt'], dtype=int)
        extra = (np.array(c['NtE'], dtype=int),) if ext else ()
        if ops['real'] == 'init':
            ch.init_from_channel_matrix(arrays(c)[0].copy(), Nr, Nt, K, *extra)
        elif ops['real'] == 'randomize':
            ch.set_channel_seed(ops['seed'])
            ch.randomize(Nr, Nt, K, *extra)
            # the raw realisation the object now stores (before any path loss)
            c['big'] = enc(np.array(ch._big_H_no_pathloss, dtype=complex))
        else:
            c['big'] = cur_big
        cur_big = c['big']
        if ops['pl'] == 'set':
            if ext:
                ch.set_pathloss(np.array(c['pl'], dtype=float), np.array(c['ple'], dtype=float))
            else:
                ch.set_pathloss(np.array(c['pl'], dtype=float))
        elif ops['pl'] == 'none':
            ch.set_pathloss(None)
        if ops['noise'] == 'set':
            ch.noise_var = noise_arg(c)
        if ops.get('post'):
            ch.set_post_filter(obj(arrays(c)[3]))
        if sol is None:
            sol = ia.IASolverBaseClass(ch)
        if ops['sol'] != 'sync' and not sol_ok:
            # the solver was outside its preconditions in the previous step (singular equivalent channel):
            # start over with everything handed over again
            ops = dict(ops, sol='sync')
        if ops['sol'] == 'sync':
            sync_solver(sol, c)
        elif ops['sol'] == 'precoders':         # new precoders / powers, the filters stay where they are
            sync_solver(sol, c, filters=False)
        elif ops['sol'] == 'filters':           # new filters only
            sync_solver(sol, c, precoders=False)
        elif ops['sol'] == 'P':                 # only the power, through the property setter
            sol.P = p_arg(c)
        elif ops['sol'] == 'randomizeF':        # random unit-norm precoders drawn by the solver itself
            sol._rs.seed(ops['seed'])
            sol.randomizeF(np.array(c['Ns'], dtype=int), p_arg(c))
            c['F'] = [enc(np.array(sol.F[k], dtype=complex)) for k in range(K)]
        cur_F = c['F']
        rec = {'case': c, 'ops': ops}
        for what in ops['order']:
            if what == 'sol':
                try:
                    rec['sol'] = eval_solver(sol, ch, c, synced=(ops['sol'] != 'untouched'))
                except np.linalg.LinAlgError:
                    rec['sol'] = None
                sol_ok = isinstance(rec['sol'], dict)
            else:
                rec[what] = eval_channel(ch, c, what == 'jp')
        out.append(rec)
    return out


def same_reports(a, b):
    """two (sinr, Q list) reports agree"""
    if a[0][0] != b[0][0]:
        return 'status %s vs %s' % (a[0], b[0])
    if a[0][0] == 'ok':
        for k, r in enumerate(a[0][1]):
            for l, v in enumerate(r):
                if not sinr_close(v, b[0][1][k][l]):
                    return 'stream (%d,%d): %.17g vs %.17g' % (k, l, v, b[0][1][k][l])
    for k in range(len(a[1])):
        if not mat_close(a[1][k], b[1][k]):
            return 'Q of receiver %d' % k
    return None


def o_session(sess):
    """after EVERY step of the life of one channel object + one solver: every reported quantity equals
    first principles on the CURRENT raw channel / path loss / noise / precoders / filters, and equals what
    a fresh object reports for the same current inputs"""
    tag = 'extint' if sess['ext'] else 'plain'
    for i, rec in enumerate(run_session(sess)):
        c, ops = rec['case'], rec['ops']
        where = '@%s/%s:%s' % (ops['real'], ops['pl'], tag)
        for what, name in (('ic', 'calc_SINR'), ('jp', 'calc_JP_SINR')):
            r = judge_channel(c, what == 'jp', *rec[what])
            if r is not None:
                return ('%s:%s%s' % (name, r[0].split(':')[0], where), 'step %d: %s' % (i, r[1]))
            d = same_reports(rec[what], run_channel(c, what == 'jp'))
            if d is not None:
                return ('%s:differs-from-fresh-object%s' % (name, where), 'step %d: %s' % (i, d))
        o = rec.get('sol')
        if isinstance(o, dict) and ops['sol'] != 'untouched':
            # the equivalent channel passed the conditioning pre-check, so np.linalg.solve is accurate: a
            # full_W_H that does not compensate the CURRENT equivalent channel is a stale one
            if o['contract'] > 1e-7:
                return ('IASolver:full_W_H-not-for-current-inputs%s' % where,
                        'step %d (solver op %s): |Hieq full_W_H - W_H| = %.3e' % (i, ops['sol'], o['contract']))
            if o['contract'] > 1e-9:
                o = None
        if isinstance(o, dict):
            r = judge_solver(c, o)
            if r is not None:
                return ('IASolver:%s%s' % (r[0].split(':')[0], where), 'step %d: %s' % (i, r[1]))
            if ops['sol'] != 'untouched':
                f = run_solver(c)
                if isinstance(f, dict):
                    d = same_reports((o['sinr'], o['Q']), (f['sinr'], f['Q']))
                    if d is None and o['sinr'][0] == 'ok' and not core.close(o['cap'], f['cap'], rtol=1e-9 * (1 + sum(sum(r) for r in o['sinr'][1]))):
                        d = 'sum capacity %.17g vs %.17g' % (o['cap'], f['cap'])
                    if d is not None:
                        return ('IASolver:differs-from-fresh-object%s' % where, 'step %d: %s' % (i, d))
    return None


ORACLES = {
    'session': o_session,
    'calc_SINR': o_calc_SINR,
    'calc_JP_SINR': o_calc_JP_SINR,
    'calc_SINR.rescaled-filter': o_scale,
    'IASolver.calc_SINR': o_solver,
    'calc_shannon_sum_capacity': o_capacity,
}


def run_oracle(ctx, call, case, key=None, nontrivial=True):
    ctx.count((call, key if key is not None else core.hashlib.sha1(repr(case).encode()).hexdigest()), nontrivial)
    try:
        r = ORACLES[call](case)
    except Exception as e:  # an exception where the property promises a value
        r = ('exception:%s:%s' % (type(e).__name__, variant_tag(case) if 'ext' in case else '-'), repr(e)[:300])
    if r is not None:
        ctx.fail(call, r[0], case, r[1])
        ctx.branch('oracle-fail:' + call)
    else:
        ctx.branch('oracle-ok:' + call)
    return r


def replay(ctx, rep):
    try:
        r = ORACLES[rep['call']](rep['case'])
    except Exception:
        return True
    return r is not None


# ------------------------------------------------------------ case generator
SQUARES = [0.0625, 0.25, 1.0, 4.0, 0.5625, 2.25]      # path losses with exact square roots


class Gen:
    def __init__(self, rng, tier):
        self.rng = rng
        self.tier = tier
        self.np = np.random.RandomState(rng.u64() % (1 << 32))

    def cmat(self, m, n, kind):
        if kind == 'gint':
            return (self.np.randint(-3, 4, size=(m, n)) + 1j * self.np.randint(-3, 4, size=(m, n))).astype(complex)
        if kind == 'rint':
            return self.np.randint(-3, 4, size=(m, n)).astype(complex)
        return (self.np.randn(m, n) + 1j * self.np.randn(m, n)) / math.sqrt(2.0)

    def case(self, kind=None, ext=None, solver_ok=False, K=None, dims=None, NtE=None, retype=True):
        rng = self.rng
        big_dims = self.tier != 'quick' and rng.chance(0.15)
        kind = kind or rng.choice(['gauss', 'gauss', 'gauss', 'gint', 'gint', 'wide', 'wide', 'rint'])
        exact = kind in ('gint', 'rint')
        if K is None:
            K = rng.choice([1, 2, 2, 3, 3, 4] + ([5, 6] if big_dims else []))
        hi = 6 if big_dims else 4
        Nr = [rng.randint(1, hi) for _ in range(K)]
        Nt = [rng.randint(1, hi) for _ in range(K)]
        if solver_ok:
            Ns = [rng.randint(1, min(Nr[k], Nt[k], 3)) for k in range(K)]
        else:
            Ns = [rng.randint(1, 3) for _ in range(K)]
        if dims is not None:
            Nr, Nt, Ns = [list(x) for x in dims]
        ext = rng.chance(0.5) if ext is None else ext
        if NtE is not None and ext:
            NtE = list(NtE)
        else:
            NtE = [rng.randint(1, 2) for _ in range(rng.choice([1, 1, 2, 3]))] if ext else []
        ntot = sum(Nt)
        big = self.cmat(sum(Nr), ntot + sum(NtE), 'gint' if exact else 'gauss')
        if kind == 'rint':
            big = self.cmat(sum(Nr), ntot + sum(NtE), 'rint')
        mk = (lambda m, n: self.cmat(m, n, kind)) if exact else (lambda m, n: self.cmat(m, n, 'gauss'))
        F = [mk(Nt[k], Ns[k]) for k in range(K)]
        FJ = [mk(ntot, Ns[k]) for k in range(K)]
        U = [mk(Nr[k], Ns[k]) for k in range(K)]
        if kind == 'wide':      # very unequal powers / filter norms
            F = [f * 10.0 ** rng.uniform(-1.5, 1.5) for f in F]
            FJ = [f * 10.0 ** rng.uniform(-1.5, 1.5) for f in FJ]
            U = [u * 10.0 ** rng.uniform(-2, 2) for u in U]
        pl = ple = None
        if rng.chance(0.6):
            if exact:
                pl = [[rng.choice(SQUARES) for _ in range(K)] for _ in range(K)]
                ple = [[rng.choice(SQUARES) for _ in NtE] for _ in range(K)]
            else:
                span = 3.0 if kind == 'wide' else 1.0
                pl = [[10.0 ** rng.uniform(-span, 0.3) for _ in range(K)] for _ in range(K)]
                ple = [[10.0 ** rng.uniform(-span, 0.3) for _ in NtE] for _ in range(K)]
        r = rng.uniform()
        lonely = (K == 1 and Ns[0] == 1 and not ext)      # nothing but noise in the denominator
        if exact:
            noise = None if r < 0.3 else 0.0 if r < 0.5 else rng.choice([0.25, 0.5, 1.0, 3.0])
        else:
            noise = None if r < 0.2 else 0.0 if r < 0.35 else 10.0 ** rng.uniform(-3, 1)
            if lonely and not noise:
                noise = 10.0 ** rng.uniform(-3, 1)
        if ext:
            pe = rng.choice([None, 0.0, 0.5, 2.0]) if exact else rng.choice([None, 0.0, 10.0 ** rng.uniform(-2, 1.5)])
        else:
            pe = None
        P = None
        if rng.chance(0.75):
            P = [rng.choice([0.25, 1.0, 4.0, 2.25]) for _ in range(K)] if exact else \
                [10.0 ** rng.uniform(-1.5, 1.5) for _ in range(K)]
        scale = [[[0.0, 0.0]] * 0 for _ in range(K)]
        for k in range(K):
            row = []
            for _ in range(Ns[k]):
                if exact:
                    c = complex(rng.choice([-2, -1, 1, 2, 0]), rng.choice([-2, -1, 1, 2]))
                else:
                    mag = 10.0 ** rng.uniform(-3, 3)
                    ph = rng.uniform(0, 2 * math.pi)
                    c = complex(mag * math.cos(ph), mag * math.sin(ph))
                row.append([c.real, c.imag])
            scale[k] = row
        case = {'K': K, 'Nr': Nr, 'Nt': Nt, 'NtE': NtE, 'Ns': Ns, 'ext': bool(ext), 'kind': kind,
                'big': enc(big), 'pl': pl, 'ple': ple, 'noise': noise, 'pe': pe,
                'F': [enc(f) for f in F], 'FJ': [enc(f) for f in FJ], 'U': [enc(u) for u in U],
                'P': P, 'scale': scale, 'dtype': rng.choice(['int', 'float', 'complex']) if kind == 'rint' else 'complex',
                'as_list': rng.chance(0.2), 'set_W': rng.chance(0.3),
                'ntype': 'float', 'petype': 'float', 'ptype': 'float'}
        if retype:
            self.retype(case)
        return case

    def retype(self, c):
        """draw the numeric TYPE of the noise variance, the external power and the transmit powers (Python
        int/float/bool, numpy integers and floats of several widths); values are moved to ones the type
        represents exactly, so that first principles are evaluated on exactly what the code is given"""
        rng = self.rng

        def scalar(v, t):
            if t in ('int', 'np.int32', 'np.int64'):
                return 0 if v == 0 else rng.choice([1, 2, 3, 7])
            if t == 'bool':
                return 0 if v == 0 else 1
            if t == 'np.float16':
                return float(np.float16(min(max(v, 1e-3), 1e3))) if v else 0.0
            if t == 'np.float32':
                return float(np.float32(v))
            return float(v)
        if c['noise'] is not None:
            c['ntype'] = rng.choice(NUMTYPES)
            c['noise'] = scalar(c['noise'], c['ntype'])
        if c['ext'] and c['pe'] is not None:
            c['petype'] = rng.choice(NUMTYPES)
            c['pe'] = scalar(c['pe'], c['petype'])
        if c['P'] is not None:
            pt = rng.choice(['float', 'float', 'int', 'np.int32', 'np.float32', 'list', 'scalar:int', 'scalar:float',
                             'scalar:np.float32', 'scalar:np.int64'])
            K = c['K']
            if pt in ('int', 'np.int32'):
                c['P'] = [rng.choice([1, 2, 4, 9]) for _ in range(K)]
            elif pt == 'np.float32':
                c['P'] = [rng.choice([0.25, 1.0, 4.0, 2.25, 9.0]) for _ in range(K)]
            elif pt in ('scalar:int', 'scalar:np.int64'):
                c['P'] = [rng.choice([1, 2, 4])] * K
            elif pt == 'scalar:np.float32':
                c['P'] = [rng.choice([0.25, 2.25, 4.0])] * K
            elif pt == 'scalar:float':
                c['P'] = [float(c['P'][0])] * K
            c['ptype'] = pt
        return c

    def session(self, n_steps=None, ext=None):
        """the life of one channel object (+ one solver): 2..6 scenarios reached from one another through
        the public API — new realisation (init_from_channel_matrix / randomize, same layout, new antenna
        numbers, new number of users) with the path loss kept / changed / removed, new noise variance (any
        numeric type), post filters, precoders / powers / filters handed over again or left alone"""
        rng = self.rng
        ext = rng.chance(0.5) if ext is None else ext
        n_steps = n_steps or rng.randint(2, 6)
        kind = rng.choice(['gauss', 'gauss', 'gint', 'wide', 'rint'])
        first = self.case(kind=kind, ext=ext, solver_ok=True)
        dtype = first['dtype']

        def order():
            o = ['ic', 'jp', 'sol']
            rng.shuffle(o)
            return o
        steps = [{'case': first,
                  'ops': {'real': 'init' if dtype != 'complex' else rng.choice(['init', 'randomize']),
                          'seed': rng.below(1 << 31), 'pl': 'set' if first['pl'] is not None else 'keep',
                          'noise': 'set', 'post': False, 'sol': 'sync', 'order': order()}}]
        if steps[0]['ops']['real'] == 'randomize':
            first['big'] = None
        for _ in range(1, n_steps):
            prev = steps[-1]['case']
            how = rng.choice(['same', 'same', 'same', 'antennas', 'users'])
            real = rng.choice(['keep', 'keep', 'init', 'init', 'randomize', 'randomize'])
            if how != 'same' and real == 'keep':
                real = 'init'
            if dtype != 'complex' and real == 'randomize':
                real = 'init'
            if how == 'same':
                c = self.case(kind=kind, ext=ext, solver_ok=True, K=prev['K'],
                              dims=(prev['Nr'], prev['Nt'], prev['Ns']), NtE=prev['NtE'])
            elif how == 'antennas':     # same users and external sources, other antenna numbers
                c = self.case(kind=kind, ext=ext, solver_ok=True, K=prev['K'])
                if ext:
                    c = self.case(kind=kind, ext=ext, solver_ok=True, K=prev['K'],
                                  dims=(c['Nr'], c['Nt'], c['Ns']),
                                  NtE=[rng.randint(1, 2) for _ in prev['NtE']])
            else:
                c = self.case(kind=kind, ext=ext, solver_ok=True)
            c['dtype'] = dtype
            same_links = (c['K'] == prev['K'] and len(c['NtE']) == len(prev['NtE']))
            pl = rng.choice(['keep', 'keep', 'set', 'set', 'none'])
            if pl == 'keep':
                # a path loss set for another number of links is discarded by the new realisation
                keepable = same_links or real == 'keep'
                c['pl'], c['ple'] = (prev['pl'], prev['ple']) if keepable else (None, None)
            elif pl == 'none':
                c['pl'], c['ple'] = None, None
            elif c['pl'] is None:
                pl = 'none'
            noise = rng.choice(['keep', 'set'])
            if noise == 'keep':
                c['noise'], c['ntype'] = prev['noise'], prev.get('ntype')
            if real == 'keep':
                c['big'] = prev['big']
            elif real == 'randomize':
                c['big'] = None
            sol = 'sync'
            if how == 'same':
                sol = rng.choice(['sync', 'sync', 'untouched', 'untouched', 'P', 'precoders', 'filters', 'randomizeF'])
                if sol == 'P' and prev['P'] is None:
                    sol = 'precoders'
                if dtype != 'complex' and sol == 'randomizeF':
                    sol = 'precoders'
                keep = {'sync': ('F', 'U', 'P', 'ptype', 'set_W') if rng.chance(0.4) else (),
                        'untouched': ('F', 'U', 'P', 'ptype', 'set_W'),
                        'P': ('F', 'U', 'set_W'), 'precoders': ('U', 'set_W'), 'filters': ('F', 'P', 'ptype'),
                        'randomizeF': ('U', 'set_W')}[sol]
                for f in keep:
                    c[f] = prev[f]
                if sol in ('P', 'randomizeF') and c['P'] is None:
                    c['P'] = [1.0] * c['K']
                    c['ptype'] = 'float'
                if sol == 'randomizeF':
                    c['F'] = None
            steps.append({'case': c, 'ops': {'real': real, 'seed': rng.below(1 << 31), 'pl': pl, 'noise': noise,
                                             'post': rng.chance(0.3), 'sol': sol, 'order': order(),
                                             'layout': how}})
        return {'ext': bool(ext), 'kind': kind, 'steps': steps}

    def zero_case(self):
        """exact scenarios whose denominator vanishes: a lone stream without noise, or a
        zero receive filter"""
        rng = self.rng
        if rng.chance(0.5):
            c = self.case(kind='gint', ext=False, K=1)
            c['Ns'] = [1]
            c['F'] = [enc(dec(c['F'][0])[:, :1])]
            c['FJ'] = [enc(dec(c['FJ'][0])[:, :1])]
            c['U'] = [enc(dec(c['U'][0])[:, :1])]
            c['scale'] = [c['scale'][0][:1]]
            c['noise'] = rng.choice([None, 0.0])
            c['ntype'] = rng.choice(NUMTYPES)
            c['why'] = 'lone-stream-no-noise'
            c['solver_ok'] = True
        else:
            c = self.case(kind='gint')
            k = rng.below(c['K'])
            u = dec(c['U'][k])
            u[:, rng.below(u.shape[1])] = 0
            c['U'][k] = enc(u)
            c['why'] = 'zero-filter'
        return c


def case_key(case, i):
    return (case['K'], tuple(case['Nr']), tuple(case['Nt']), tuple(case['NtE']), tuple(case['Ns']), case['ext'],
            case['kind'], case['noise'] is None, case['noise'] == 0.0, case['pl'] is None, i)


def branches_of(ctx, case):
    ctx.branch('extint' if case['ext'] else 'plain')
    ctx.branch('noise:none' if case['noise'] is None else 'noise:zero' if case['noise'] == 0.0 else 'noise:pos')
    ctx.branch('pathloss' if case['pl'] is not None else 'no-pathloss')
    ctx.branch('K=1' if case['K'] == 1 else 'K=2' if case['K'] == 2 else 'K>=3')
    if max(case['Ns']) > 1:
        ctx.branch('multi-stream')
    if case['ext'] and len(case['NtE']) > 1:
        ctx.branch('multi-ext-source')
    if case['ext']:
        ctx.branch('pe:default' if case['pe'] is None else 'pe:zero' if case['pe'] == 0.0 else 'pe:pos')
    ctx.branch('kind:' + case['kind'])
    ctx.branch('dtype:' + case.get('dtype', 'complex'))
    if case['noise'] is not None:
        ctx.branch('noise-type:' + (case.get('ntype') or 'float'))
    if case['ext'] and case['pe'] is not None:
        ctx.branch('pe-type:' + (case.get('petype') or 'float'))
    if case['P'] is not None:
        ctx.branch('P-type:' + (case.get('ptype') or 'float'))


# ------------------------------------------------------------ correspondence
def base_tokens(case):
    big, F, FJ, U = arrays(case)
    toks = ['K=%d' % case['K'], 'Nr=' + ilist(case['Nr']), 'Nt=' + ilist(case['Nt']),
            'NtE=' + ilist(case['NtE'] if case['ext'] else []), 'Ns=' + ilist(case['Ns']),
            'ext=%d' % (1 if case['ext'] else 0), 'big=' + cline(big)]
    if case['pl'] is None:
        toks.append('pl=none')
    else:
        rows = [list(case['pl'][k]) + list(case['ple'][k] if case['ext'] else []) for k in range(case['K'])]
        toks.append('pl=' + fline(rows))
    toks.append('noise=' + ('none' if case['noise'] is None else core.f2s(noise_value(case))))
    return toks


def chan_line(case, jp):
    _, F, FJ, U = arrays(case)
    toks = ['chan'] + base_tokens(case) + ['mode=' + ('jp' if jp else 'ic'),
                                           'pe=' + core.f2s(pe_value(case)),
                                           'F=' + cline_many(FJ if jp else F), 'U=' + cline_many(U)]
    return ' '.join(toks)


def solver_line(case, full_W_H):
    _, F, _, _ = arrays(case)
    toks = ['solver'] + base_tokens(case) + ['mode=ic', 'F=' + cline_many(F),
                                            'P=' + ('none' if case['P'] is None else fline(p_values(case))),
                                            'WH=' + cline_many(full_W_H)]
    return ' '.join(toks)


def parse_Q(s, case):
    parts = s.split(';') if case['K'] else []
    return [parse_c(parts[k], (case['Nr'][k], case['Nr'][k])) for k in range(case['K'])]


def cmp_sinr(impl, model):
    """'agree' | description"""
    if impl[0] == 'error' or isinstance(model, tuple):
        a = 'error:' + impl[1] if impl[0] == 'error' else 'ok'
        b = 'error:' + model[1] if isinstance(model, tuple) else 'ok'
        return 'agree' if a == b else 'impl %s, model %s' % (a, b)
    if [len(r) for r in impl[1]] != [len(r) for r in model]:
        return 'shape'
    for k, r in enumerate(impl[1]):
        for l, v in enumerate(r):
            if not sinr_close(v, model[k][l]):
                return 'stream (%d,%d): impl %.17g, model %.17g' % (k, l, v, model[k][l])
    return 'agree'


def cmp_Q(impl, model):
    for k in range(len(impl)):
        if not mat_close(impl[k], model[k]):
            return 'receiver %d: max deviation %.3e' % (k, float(np.abs(np.asarray(impl[k]) - model[k]).max()))
    return 'agree'


def correspondence(ctx, cases):
    jobs, lines = [], []
    for i, case in enumerate(cases):
        branches_of(ctx, case)
        for jp in (False, True):
            got, q = run_channel(case, jp)
            jobs.append(('jp' if jp else 'ic', i, case, got, q))
            lines.append(chan_line(case, jp))
            ctx.branch('jp' if jp else 'ic')
            if got[0] == 'error':
                ctx.branch('zero-division')
        if case.get('solver'):
            out = run_solver(case)
            if out is None:
                ctx.branch('solver:singular-equivalent-channel(skipped)')
                continue
            if out == 'ill-conditioned':
                ctx.branch('solver:denominator-below-1e-6-of-total(skipped)')
                continue
            if out['contract'] > 1e-7:
                ctx.tie_broken('correspondence', 'contract:np.linalg.solve',
                               'Hieq full_W_H - W_H = %.3e' % out['contract'], case)
            if out['contract'] > 1e-9:
                ctx.branch('solver:kernel-contract-margin(skipped)')
                continue
            jobs.append(('solver', i, case, out, None))
            lines.append(solver_line(case, out['full_W_H']))
            ctx.branch('solver')
            if case['P'] is not None and len(set(case['P'])) > 1:
                ctx.branch('unequal-power')
    settle(ctx, jobs, lines)


def settle(ctx, jobs, lines, prefix=''):
    """send the request lines to the compiled model and compare every reply with what the
    implementation reported (`prefix` distinguishes the long-lived-object runs)"""
    drv = core.Driver(DRIVER)
    out_lines = []
    for s in range(0, len(lines), 2000):
        out_lines += drv.ask(lines[s:s + 2000])
    for (what, i, case, got, q), reply in zip(jobs, out_lines):
        key = case_key(case, i) + (prefix,)
        tag = prefix + variant_tag(case)
        parts = reply.split('|')
        if reply == 'bad-op':
            ctx.corr(what + ':driver', case, 'request understood', 'bad-op', key=key + (what,))
            continue
        if what in ('ic', 'jp'):
            name = ('calc_SINR' if what == 'ic' else 'calc_JP_SINR') + ':' + tag
            ctx.corr(name, case, 'agree', cmp_sinr(got, parse_ll(parts[0])), key=key + (what, 's'))
            qname = ('calc_Q' if what == 'ic' else 'calc_JP_Q') + ':' + tag
            ctx.corr(qname, case, 'agree', cmp_Q(q, parse_Q(parts[1], case)), key=key + (what, 'q'))
            if len(ctx.samples) < 3 and got[0] == 'ok':
                ctx.sample({'call': name, 'K': case['K'], 'Nr': case['Nr'], 'Nt': case['Nt'], 'Ns': case['Ns'],
                            'noise': case['noise'], 'impl': got[1], 'model': parse_ll(parts[0])})
        else:
            m = parse_ll(parts[0])
            ctx.corr('IASolver.calc_SINR:' + tag, case, 'agree', cmp_sinr(got['sinr'], m), key=key + ('sol', 's'))
            if got['sinr'][0] == 'ok' and not isinstance(m, tuple):
                mdb = parse_ll(parts[1])
                ok = all(core.close(a, b, rtol=1e-9, atol=1e-9 * (1 + abs(a))) or sinr_close(10 ** (a / 10), 10 ** (b / 10))
                         for ra, rb in zip(got['dB'], mdb) for a, b in zip(ra, rb)
                         if math.isfinite(a) or math.isfinite(b))
                ctx.corr('IASolver.calc_SINR_in_dB:' + tag, case, 'agree', 'agree' if ok else 'dB values differ',
                         key=key + ('sol', 'db'))
                mc = core.s2f(parts[2])
                total = sum(sum(r) for r in got['sinr'][1])
                okc = abs(got['cap'] - mc) <= 1e-9 * max(1.0, abs(mc)) * (1.0 + total)
                ctx.corr('IASolver.calc_sum_capacity:' + tag, case, 'agree',
                         'agree' if okc else 'impl %.17g model %.17g' % (got['cap'], mc), key=key + ('sol', 'cap'))
            ctx.corr('IASolver.calc_Q:' + tag, case, 'agree', cmp_Q(got['Q'], parse_Q(parts[3], case)),
                     key=key + ('sol', 'q'))
            if len(ctx.samples) < 5 and got['sinr'][0] == 'ok':
                ctx.sample({'call': 'IASolver.calc_SINR:' + tag, 'K': case['K'], 'P': case['P'],
                            'impl': got['sinr'][1], 'model': m})


def corr_sessions(ctx, sessions):
    """the long-lived objects against the (stateless) model: after every step the model is given the
    CURRENT inputs only"""
    jobs, lines = [], []
    for si, sess in enumerate(sessions):
        try:
            recs = run_session(sess)
        except Exception as e:      # the oracle reports it with the input
            ctx.branch('session:exception:' + type(e).__name__)
            continue
        for i, rec in enumerate(recs):
            c, ops = rec['case'], rec['ops']
            ctx.branch('session:%s/%s' % (ops['real'], ops['pl']))
            ctx.branch('session:%s/%s:%s' % (ops['real'], ops['pl'], 'extint' if sess['ext'] else 'plain'))
            ctx.branch('session:layout-' + ops.get('layout', 'first'))
            ctx.branch('session:solver-' + ops['sol'])
            if c['noise'] is not None:
                ctx.branch('noise-type:' + (c.get('ntype') or 'float'))
            for what in ('ic', 'jp'):
                jobs.append((what, (si, i), c, rec[what][0], rec[what][1]))
                lines.append(chan_line(c, what == 'jp'))
            o = rec.get('sol')
            if isinstance(o, dict):
                jobs.append(('solver', (si, i), c, o, None))
                lines.append(solver_line(c, o['full_W_H']))
    settle(ctx, jobs, lines, prefix='session:')


def corr_capacity(ctx, rng, n):
    _, _, misc = _impl()
    drv = core.Driver(DRIVER)
    cases = []
    for i in range(n):
        xs = [10.0 ** rng.uniform(-4, 4) for _ in range(rng.randint(0, 12))]
        if i == 0:
            xs = [0.0, 1.0, 3.0]
        cases.append(xs)
    out = drv.ask(['cap ' + fline(xs) for xs in cases])
    for xs, o in zip(cases, out):
        got = float(misc.calc_shannon_sum_capacity(np.array(xs)))
        ctx.corr('calc_shannon_sum_capacity', {'sinrs': xs}, 'agree',
                 'agree' if core.close(got, core.s2f(o), rtol=1e-12, atol=1e-12) else 'impl %r model %r' % (got, core.s2f(o)))
        ctx.branch('capacity')


# ------------------------------------------------------------------ corpus
def corpus_cases():
    """boundary scenarios that are always run"""
    g = Gen(core.Rng(20240611, 'c11-corpus'), 'quick')
    out = []
    for ext in (False, True):
        for K in (1, 2, 3):
            c = g.case(kind='gint', ext=ext, solver_ok=True, K=K)
            c['solver'] = True
            out.append(c)
    # integer-valued real scenario handed over in integer dtype, integer external power
    c = g.case(kind='rint', ext=True, K=2)
    c['dtype'] = 'int'
    c['pe'] = 2
    c['noise'] = 0.5
    c['pl'] = None
    c['ple'] = None
    out.append(c)
    c = g.case(kind='rint', ext=False, K=2)
    c['dtype'] = 'float'
    out.append(c)
    # minimised regression inputs (past failures, the recorded 0/0 behaviour)
    import glob
    import json
    import os
    for fn in sorted(glob.glob(os.path.join(core.VERIF, 'corpus', 'c11', '*.json'))):
        with open(fn) as f:
            d = json.load(f)
        if 'case' in d:
            out.append(d['case'])
    return out


def corpus_sessions():
    import glob
    import json
    import os
    out = []
    for fn in sorted(glob.glob(os.path.join(core.VERIF, 'corpus', 'c11', '*.json'))):
        with open(fn) as f:
            d = json.load(f)
        if 'session' in d:
            out.append(d['session'])
    return out


def gen_cases(ctx, n):
    g = Gen(ctx.rng.fork('cases'), ctx.tier)
    cases = []
    for i in range(n):
        solver = (i % 2 == 0)
        c = g.case(solver_ok=solver)
        c['solver'] = solver
        cases.append(c)
    for _ in range(max(4, n // 12)):
        c = g.zero_case()
        c['solver'] = bool(c.get('solver_ok'))
        cases.append(c)
    return cases


def layout_sweep(ctx):
    """thorough tier: every antenna/stream layout with K <= 3 users, 1..2 antennas per side and
    1..2 streams per user, plain and with external interference (values seeded)"""
    import itertools
    g = Gen(ctx.rng.fork('sweep'), ctx.tier)
    per_user = list(itertools.product((1, 2), (1, 2), (1, 2)))
    cases = []
    for K in (1, 2, 3):
        for combo in itertools.product(per_user, repeat=K):
            Nr = [c[0] for c in combo]
            Nt = [c[1] for c in combo]
            Ns = [c[2] for c in combo]
            for ext in (False, True):
                c = g.case(ext=ext, K=K, dims=(Nr, Nt, Ns))
                c['solver'] = all(Ns[k] <= min(Nr[k], Nt[k]) for k in range(K))
                cases.append(c)
    ctx.branch('layout-sweep', len(cases))
    return cases


def gen_sessions(ctx, n):
    g = Gen(ctx.rng.fork('sessions'), ctx.tier)
    return [g.session() for _ in range(n)]


def oracles(ctx, cases, sessions=()):
    for i, sess in enumerate(sessions):
        run_oracle(ctx, 'session', sess, key=('session', i, sess['ext'], sess['kind'], len(sess['steps'])))
    for i, case in enumerate(cases):
        key = case_key(case, i)
        run_oracle(ctx, 'calc_SINR', case, key=key)
        run_oracle(ctx, 'calc_JP_SINR', case, key=key)
        if case.get('dtype', 'complex') == 'complex':
            run_oracle(ctx, 'calc_SINR.rescaled-filter', case, key=key)
        if case.get('solver'):
            run_oracle(ctx, 'IASolver.calc_SINR', case, key=key)
    rng = ctx.rng.fork('cap')
    for _ in range(20):
        run_oracle(ctx, 'calc_shannon_sum_capacity',
                   {'sinrs': [10.0 ** rng.uniform(-4, 4) for _ in range(rng.randint(0, 10))]})


def check(ctx):
    ctx.rule = ('scenarios: K in 1..4 (thorough: ..6) users, 1..4 (..6) antennas per side, 1..3 streams, plain and '
                'external-interference channel objects (1..3 sources of 1..2 antennas), path loss none / random over '
                '3 decades / exact squares, noise_var None / 0 / 1e-3..10, external power default / 0 / positive, '
                'unequal transmit powers; precoders and filters arbitrary (complex Gaussian, Gaussian integers, '
                'widely unequal norms), never aligned on purpose; plus exact zero-denominator scenarios. Every '
                'scenario is evaluated as interference channel and as joint processing, every second one also '
                'through the IA solver. noise_var / pe / P in every numeric type (Python int, float, bool, numpy '
                'ints and floats of several widths, P as array / list / scalar), channels also integer and real '
                'dtype. Sessions: one channel object + one solver re-used over 2..6 scenarios (new realisation by '
                'init_from_channel_matrix / randomize, same or new layout, path loss kept / set / removed, noise, '
                'post filters, solver re-synchronised or left alone), everything re-checked after every step '
                'against the model, first principles and a fresh object. non-trivial = distinct (layout, class '
                'of channel object, generator kind, noise kind, path-loss presence, index, code path)')
    quick = ctx.tier == 'quick'
    core.prove(ctx, MODULE, generated=[], drivers=[DRIVER], scratch=ctx.scratch)
    ctx.required_branches = ['ic', 'jp', 'solver', 'extint', 'plain', 'noise:none', 'noise:zero', 'noise:pos',
                             'pathloss', 'no-pathloss', 'zero-division', 'K=1', 'K>=3', 'multi-stream',
                             'multi-ext-source', 'unequal-power', 'pe:default', 'pe:zero', 'pe:pos', 'capacity',
                             'kind:gauss', 'kind:gint', 'kind:wide', 'kind:rint', 'dtype:int', 'dtype:float',
                             'session:randomize/keep', 'session:init/keep', 'session:keep/set', 'session:keep/none',
                             'session:keep/set:extint', 'session:keep/set:plain', 'session:randomize/keep:extint',
                             'session:randomize/keep:plain', 'session:init/keep:extint', 'session:init/keep:plain',
                             'session:layout-antennas', 'session:layout-users', 'session:solver-untouched',
                             'session:solver-sync', 'session:solver-P', 'session:solver-precoders',
                             'session:solver-filters', 'session:solver-randomizeF'] + ['noise-type:' + t for t in NUMTYPES] + \
                            ['pe-type:' + t for t in NUMTYPES] + \
                            ['P-type:' + t for t in ('float', 'int', 'np.int32', 'np.float32', 'list', 'scalar:int',
                                                     'scalar:float', 'scalar:np.float32', 'scalar:np.int64')]
    cases = corpus_cases() + gen_cases(ctx, 500 if quick else 5000)
    if not quick:
        cases += layout_sweep(ctx)
    sessions = corpus_sessions() + gen_sessions(ctx, 160 if quick else 1500)
    try:
        correspondence(ctx, cases)
        corr_sessions(ctx, sessions)
        corr_capacity(ctx, ctx.rng.fork('capc'), 40 if quick else 400)
    except core.Infra as e:
        if not ctx.broken:
            raise
        ctx.notes.append('correspondence skipped: %s' % e)
        ctx.required_branches = []
    oracles(ctx, cases, sessions)


def search(ctx):
    """deeper failing-input search, used when a proof / correspondence broke"""
    before = len(ctx.failures)
    for _ in range(4):
        oracles(ctx, gen_cases(ctx, 400), gen_sessions(ctx, 100))
        if len(ctx.failures) > before:
            return
