"""C16: numerical tie between the code's `qfunc` and the Gaussian tail `Qg` of the Lean development.

`Properties/C16.lean` proves the exactness clauses for `Qg x = P(N > x)`, `N ~ N(0,1)` (Mathlib's
`gaussianReal 0 1`).  The code computes `qfunc(x) = 0.5*erfc(x/sqrt(2))`.  Mathlib has no `erfc`, so the
identity between the two is not a theorem here; this oracle checks it numerically, from the DEFINITION of
`Qg`: the integral of the standard normal density over (x, oo), evaluated by adaptive Gauss-Kronrod quadrature
(no erf/erfc involved), compared relative to the value itself (no absolute floor).
"""
import math


def tail_integral(x):
    """integral of exp(-t^2/2)/sqrt(2 pi) over (x, oo), by quadrature of the density"""
    from scipy import integrate
    f = lambda t: math.exp(-0.5 * t * t) / math.sqrt(2.0 * math.pi)
    if x < 0:
        # P(N > x) = 1 - P(N > -x) (symmetry of the density, gauss_lower_tail in Lean)
        return 1.0 - tail_integral(-x)
    # the density beyond x + 40 is below 1e-340 of its value at x: cut there; split so that the mass near x is resolved
    total, a = 0.0, x
    for width in (0.5, 1.5, 6.0, 32.0):
        v, _ = integrate.quad(f, a, a + width, epsabs=0.0, epsrel=1e-13, limit=200)
        total += v
        a += width
    return total


def o_qfunc_is_gaussian_tail(case):
    """the code's qfunc at x equals the Gaussian tail integral (the Qg of the theorems)"""
    from pyphysim.util.misc import qfunc
    x = float(case['x'])
    a, b = float(qfunc(x)), tail_integral(x)
    # relative to the value for x >= 0 (down to 1e-198); for x < 0 the value is 1 - (small), compared absolutely
    # (below 1e-290 erfc works with subnormal numbers or has underflowed to 0: only the order of magnitude is asked)
    if x >= 0 and b < 1e-290:
        ok = 0.0 <= a <= 1e-289
    else:
        ok = abs(a - b) <= 1e-10 * abs(b) if x >= 0 else abs(a - b) <= 1e-12
    if not ok:
        return 'qfunc-is-not-the-gaussian-tail', 'qfunc(%r)=%r, integral of the normal density over (x,oo)=%r' % (x, a, b)
    return None


GRID = [0.0, 1e-9, 0.1, 0.5, 1.0, 1.5, 2.0, 3.0, 4.0, 5.0, 6.0, 7.5, 9.0, 12.0, 20.0, 30.0, -0.5, -1.0, -3.0, -8.0]
