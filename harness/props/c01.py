"""C01 — modulation invertible, nearest-symbol detection (DESIGN.md §5 C01)."""
from fractions import Fraction

import numpy as np

from harness import core

MODULE = 'PyPhysim.Properties.C01'
DRIVER = 'drv_c01'
CLAIM = {
    'technique': 'Lean 4 theorems (argmin scan invariant over any linear ordered field; PSK/QAM constellations '
                 'over R with Mathlib; Gray relabelling is a permutation) + exact rational correspondence of '
                 'detection, exhaustive constructor-acceptance comparison',
    'text': 'Kernel-checked for ALL inputs: demodulation returns a first index at minimum distance for every '
            'constellation and every sample; demodulating a constellation point returns its index when points are '
            'distinct (arrays of any shape); indexes >= M give ValueError; BPSK sign test = nearest point; every '
            'PSK table (M=2^m, any offset) has M distinct unit-modulus points and every square QAM table (L=2^k) has '
            'M distinct points with unit mean energy; non powers of two make PSK table construction raise '
            'independently of the float assert. The model is a function of the exact values (a strictly nearest '
            'point wins by however little; a new table of any closeness to the old one takes effect; two offsets '
            'less than a turn apart give different PSK tables; no dead zone in the BPSK sign test) and, for objects '
            'whose table they made themselves, of the CONTENTS of the caller\'s arrays at call time only (model of '
            'the object together with the caller\'s refillable arrays; results equal a fresh object\'s, earlier '
            'results never change). The model is tied to fundamental.py by exact comparison of detected '
            'indexes on dyadic-rational samples (incl. boundary samples with margins down to 1e-9, close-but-distinct '
            'pairs down to 1e-11 apart, samples of magnitude 2^-37, relative margin 2^-38 computed by the model), of '
            'emitted tables (1e-12; close offsets 8 ulp of the phase against first principles), of constructor '
            'acceptance for every M <= 5000, and of histories on one object with one refilled array per role.',
    'note': 'Trusted: Lean kernel, std axioms, translator for the Gray maps, correspondence harness. Outside the '
            'theorems: binary64 rounding within 2^-38 (relative, squared distances) of a decision boundary, the 1e-15 '
            'snap in PSK, the float log-based cardinality guards (tied exhaustively for M <= 5000 / 20000, not proved), '
            'numpy negative-index wrap-around. Known finding: Modulator.setConstellation keeps the caller\'s array '
            '(modelled as it is, negative witness setConstellation_keeps_callers_array; BPSK/QPSK/PSK/QAM unaffected).',
}


def _f():
    from pyphysim.modulators import fundamental
    return fundamental


def rat(x):
    n, d = float(x).as_integer_ratio()
    return '%d/%d' % (n, d)


def pts_rat(arr):
    out = []
    for z in np.asarray(arr, dtype=complex).ravel():
        out += [rat(z.real), rat(z.imag)]
    return ','.join(out)


def make_mod(kind, M, phase=0.0):
    f = _f()
    if kind == 'PSK':
        return f.PSK(M, phase)
    if kind == 'QPSK':
        return f.QPSK()
    if kind == 'QAM':
        return f.QAM(M)
    if kind == 'BPSK':
        return f.BPSK()
    raise ValueError(kind)


def gen_samples(rng, symbols, n, kind):
    """dyadic samples: near points, uniform, or straddling the bisector of two neighbouring points"""
    s = np.asarray(symbols, dtype=complex)
    out = []
    for _ in range(n):
        if kind == 'near':
            c = s[rng.below(s.size)]
            z = c + complex(rng.gauss(), rng.gauss()) * 0.05
        elif kind == 'uniform':
            z = complex(rng.uniform(-2, 2), rng.uniform(-2, 2))
        else:  # boundary: midpoint of a point and its nearest other point, pushed by +-margin
            i = rng.below(s.size)
            d = np.abs(s - s[i])
            d[i] = np.inf
            j = int(np.argmin(d))
            mid = (s[i] + s[j]) / 2
            u = (s[j] - s[i]) / abs(s[j] - s[i])
            eps = 10.0 ** (-rng.randint(1, 8)) * abs(s[j] - s[i])
            z = mid + (eps if rng.chance(0.5) else -eps) * u + 1j * u * rng.uniform(-0.2, 0.2) * abs(s[j] - s[i])
        # quantise to 2^-40 so the rational transport stays small
        z = complex(round(z.real * 2 ** 40) / 2 ** 40, round(z.imag * 2 ** 40) / 2 ** 40)
        out.append(z)
    return np.array(out)


# ------------------------------------------------------------------ oracles
def brute_nearest(symbols, z):
    """exact (Fraction) squared distances; returns (argmin, gap to the runner-up relative to d_min^2 scale)"""
    zr, zi = Fraction(z.real), Fraction(z.imag)
    ds = []
    for c in symbols:
        dr, di = Fraction(float(c.real)) - zr, Fraction(float(c.imag)) - zi
        ds.append(dr * dr + di * di)
    order = sorted(range(len(ds)), key=lambda k: (ds[k], k))
    gap = float(ds[order[1]] - ds[order[0]]) if len(ds) > 1 else 1.0
    return order[0], gap


def o_nearest(case):
    m = make_mod(case['kind'], case['M'], case.get('phase', 0.0))
    z = np.array([complex(*p) for p in case['samples']])
    got = np.atleast_1d(m.demodulate(z))
    for k, zz in enumerate(z):
        best, gap = brute_nearest(m.symbols, zz)
        if gap < 1e-9:
            continue
        if int(got[k]) != best:
            return 'not-nearest:' + case['kind'], 'sample %r -> %d, nearest is %d (gap %.3g)' % (zz, got[k], best, gap)
    return None


def o_roundtrip(case):
    m = make_mod(case['kind'], case['M'], case.get('phase', 0.0))
    idx = np.array(case['idx'], dtype=int).reshape(case['shape'])
    out = m.demodulate(m.modulate(idx))
    if np.shape(out) != tuple(case['shape']) or not np.array_equal(np.asarray(out), idx):
        return 'roundtrip:' + case['kind'], 'demodulate(modulate(idx)) != idx for shape %s' % (case['shape'],)
    return None


def o_constellation(case):
    m = make_mod(case['kind'], case['M'], case.get('phase', 0.0))
    s = np.asarray(m.symbols, dtype=complex)
    if s.size != case['M']:
        return 'constellation-size:' + case['kind'], 'size %d' % s.size
    e = float(np.mean(np.abs(s) ** 2))
    if abs(e - 1) > 1e-9:
        return 'constellation-energy:' + case['kind'], 'mean energy %.12g' % e
    if s.size > 1:
        d = np.abs(s[:, None] - s[None, :])
        d[np.arange(s.size), np.arange(s.size)] = np.inf
        if d.min() < 1e-9:
            return 'constellation-duplicate:' + case['kind'], 'min distance %.3g' % d.min()
    return None


def is_pow2(M):
    return M >= 1 and (M & (M - 1)) == 0


def o_reject(case):
    f = _f()
    M = case['M']
    if case['kind'] == 'PSK':
        ok_expected = is_pow2(M)
    else:
        ok_expected = is_pow2(M) and (M.bit_length() % 2 == 1)
    try:
        (f.PSK if case['kind'] == 'PSK' else f.QAM)(M)
        accepted = True
    except Exception:
        accepted = False
    if accepted != ok_expected:
        return ('accepts-unsupported:' if accepted else 'rejects-supported:') + case['kind'], 'M=%d' % M
    return None


def o_oob(case):
    m = make_mod(case['kind'], case['M'])
    try:
        m.modulate(np.array(case['idx']))
    except ValueError:
        return None
    except Exception as e:
        return 'oob-wrong-exception:' + case['kind'], type(e).__name__
    return 'oob-accepted:' + case['kind'], 'indexes %s accepted for M=%d' % (case['idx'], case['M'])


def o_history(case):
    """use the modulator, change the phase offset (possibly several times), use it again:
    round trip and nearest-point detection must refer to the CURRENT constellation"""
    f = _f()
    M = case['M']
    m = f.PSK(M, case['phase'])
    idx = np.array(case['idx'], dtype=int)
    for ph in case['offsets']:
        out = m.demodulate(m.modulate(idx))
        if not np.array_equal(out, idx):
            return 'roundtrip-after-setPhaseOffset', 'before offset %r' % ph
        m.setPhaseOffset(ph)
    z = np.array([complex(*p) for p in case['samples']])
    sym = np.asarray(m.symbols)
    got = np.atleast_1d(m.demodulate(sym[idx]))
    # the table after setPhaseOffset is a relabelling (known C15 finding) but still M distinct points:
    if not np.array_equal(got, idx):
        return 'roundtrip-after-setPhaseOffset', 'demodulate(modulate(idx)) != idx after offsets %r' % (case['offsets'],)
    got = np.atleast_1d(m.demodulate(z))
    for k, zz in enumerate(z):
        best, gap = brute_nearest(sym, zz)
        if gap >= 1e-9 and int(got[k]) != best:
            return 'not-nearest-after-setPhaseOffset', 'sample %r -> %d, nearest %d' % (zz, got[k], best)
    return None


INT_DTYPES = ['uint8', 'int8', 'uint16', 'int16', 'uint32', 'int32', 'uint64', 'int64', 'bool']


def layouts(a):
    """the same logical array in several memory layouts (R2)"""
    out = [('C', np.ascontiguousarray(a))]
    if a.ndim >= 2:
        out.append(('F', np.asfortranarray(a)))
        out.append(('T', np.ascontiguousarray(a.T).T))
        big = np.zeros(tuple(2 * n for n in a.shape), dtype=a.dtype)
        big[tuple(slice(None, None, 2) for _ in a.shape)] = a
        out.append(('strided', big[tuple(slice(None, None, 2) for _ in a.shape)]))
        out.append(('reversed', np.ascontiguousarray(a[..., ::-1])[..., ::-1]))
    return out


def o_layout(case):
    """R2/R3: demodulate / modulate on non-C-contiguous and empty arrays; inputs are not modified"""
    m = make_mod(case['kind'], case['M'], case.get('phase', 0.0))
    sym = np.asarray(m.symbols)
    shape = tuple(case['shape'])
    z = np.array([complex(*p) for p in case['samples']]).reshape(shape)
    expect = np.array([brute_nearest(sym, zz)[0] for zz in z.ravel()]).reshape(shape)
    gaps = np.array([brute_nearest(sym, zz)[1] for zz in z.ravel()]).reshape(shape)
    for name, v in layouts(z):
        keep = v.copy()
        got = np.asarray(m.demodulate(v))
        if got.shape != shape:
            return 'layout:shape:' + name, 'demodulate returned shape %s for input %s' % (got.shape, shape)
        bad = (got != expect) & (gaps >= 1e-9)
        if case['kind'] != 'BPSK' and bad.any():
            return 'layout:not-nearest:' + name, 'positions %s' % (np.argwhere(bad)[:3].tolist(),)
        if not np.array_equal(v, keep):
            return 'layout:input-modified:' + name, 'demodulate changed its argument'
    idx = np.array(case['idx'], dtype=int).reshape(shape)
    for name, v in layouts(idx):
        keep = v.copy()
        out = np.asarray(m.modulate(v))
        if out.shape != shape or not np.array_equal(out, sym[idx] if case['kind'] != 'BPSK' else 1 - 2 * idx):
            return 'layout:modulate:' + name, 'modulate misplaces symbols'
        if not np.array_equal(v, keep):
            return 'layout:input-modified:' + name, 'modulate changed its argument'
        back = np.asarray(m.demodulate(out))
        if not np.array_equal(back, idx):
            return 'layout:roundtrip:' + name, 'round trip on layout %s' % name
    return None


def o_empty(case):
    """R2/R5: arrays with a zero-length axis go through with their shape"""
    m = make_mod(case['kind'], case['M'])
    shape = tuple(case['shape'])
    try:
        out = np.asarray(m.modulate(np.zeros(shape, dtype=int)))
        if out.shape != shape:
            return 'empty:modulate-shape:' + case['kind'], str(out.shape)
        back = np.asarray(m.demodulate(np.zeros(shape, dtype=complex if case['kind'] != 'BPSK' else float)))
        if back.shape != shape:
            return 'empty:demodulate-shape:' + case['kind'], str(back.shape)
    except Exception as e:
        return 'empty:raises:' + case['kind'], repr(e)[:200]
    return None


def o_dtype(case):
    """R1: index arrays of every integer dtype (and numpy scalars) round trip"""
    m = make_mod(case['kind'], case['M'])
    dt = np.dtype(case['dtype'])
    idx = np.array(case['idx']).astype(dt)
    keep = idx.copy()
    out = m.demodulate(m.modulate(idx))
    if not np.array_equal(np.asarray(out).astype(int), np.array(case['idx']).astype(int)):
        return 'dtype:roundtrip:%s:%s' % (case['kind'], 'unsigned' if dt.kind == 'u' else dt.kind), \
            'index dtype %s: %s -> %s' % (dt, case['idx'][:6], np.asarray(out).ravel()[:6].tolist())
    if not np.array_equal(idx, keep):
        return 'dtype:input-modified:' + case['kind'], str(dt)
    s0 = m.modulate(idx[0])      # numpy scalar index
    if int(np.asarray(m.demodulate(np.asarray(s0))).ravel()[0]) != int(case['idx'][0]):
        return 'dtype:scalar-roundtrip:%s:%s' % (case['kind'], 'unsigned' if dt.kind == 'u' else dt.kind), str(dt)
    return None


def o_output_independent(case):
    """R3: arrays returned by earlier calls do not change when later calls are made"""
    m = make_mod(case['kind'], case['M'], case.get('phase', 0.0))
    idx = np.array(case['idx'], dtype=int)
    a = m.modulate(idx)
    a0 = np.array(a, copy=True)
    d = m.demodulate(a)
    d0 = np.array(d, copy=True)
    b = m.modulate(idx[::-1].copy())
    m.demodulate(np.asarray(b) * 0.9)
    if case['kind'] == 'PSK':
        m.setPhaseOffset(1.0)
        m.demodulate(np.asarray(m.modulate(idx)))
    if not np.array_equal(a, a0) or not np.array_equal(d, d0):
        return 'output-changed-by-later-call:' + case['kind'], 'earlier result mutated'
    sym0 = np.array(m.symbols, copy=True)
    a = m.modulate(idx)
    try:
        a[...] = 0        # writing into a returned array must not reach the constellation
    except (ValueError, TypeError):
        pass
    if not np.array_equal(m.symbols, sym0):
        return 'output-aliases-constellation:' + case['kind'], 'modulate returned a view of symbols'
    return None


def o_long(case):
    """R5 (size boundaries): one demodulate call on MANY samples (counts around and beyond 2^k / M block
    sizes, never a multiple) must still give the nearest symbol for every sample, incl. the last ones"""
    m = make_mod(case['kind'], case['M'], case.get('phase', 0.0))
    sym = np.asarray(m.symbols, dtype=complex)
    rs = np.random.RandomState(case['seed'])
    n = case['n']
    idx = rs.randint(0, sym.size, n)
    # samples well inside the decision regions: the sent point plus a small perturbation
    dmin = case['dmin']
    z = sym[idx] + (rs.uniform(-1, 1, n) + 1j * rs.uniform(-1, 1, n)) * 0.2 * dmin
    got = np.asarray(m.demodulate(z))
    if got.shape != (n,):
        return 'long:shape:' + case['kind'], str(got.shape)
    bad = np.nonzero(got != idx)[0]
    if bad.size:
        return 'long:not-nearest:' + case['kind'], '%d of %d decisions wrong, first at flat position %d' % (bad.size, n, bad[0])
    back = np.asarray(m.demodulate(m.modulate(idx)))
    if not np.array_equal(back, idx):
        return 'long:roundtrip:' + case['kind'], 'round trip of %d indexes' % n
    return None


def _same_behaviour(a, b, z, idx):
    """two modulator objects that must be indistinguishable: same table, same decisions, same round trip"""
    if not np.array_equal(np.asarray(a.symbols), np.asarray(b.symbols)):
        return 'symbols differ'
    if int(a.M) != int(b.M) or float(a.K) != float(b.K):
        return 'M/K differ: %r/%r vs %r/%r' % (a.M, a.K, b.M, b.K)
    if not np.array_equal(np.asarray(a.demodulate(z)), np.asarray(b.demodulate(z))):
        return 'decisions differ'
    if not np.array_equal(np.asarray(a.modulate(idx)), np.asarray(b.modulate(idx))):
        return 'modulate differs'
    return None


def o_forms(case):
    """R8 argument forms (keyword / positional, constructor path vs setter path, numpy-integer M), R9 scalar
    indexes of every integer type incl. > 256, R11 calls that are not setters leave the object unchanged,
    R13 copies and pickles behave like the original and are independent of it"""
    import copy
    import pickle
    f = _f()
    kind, M, ph = case['kind'], case['M'], case.get('phase', 0.0)
    ref = make_mod(kind, M, ph)
    sym = np.asarray(ref.symbols, dtype=complex)
    z = np.array([complex(*p) for p in case['samples']])
    idx = np.array(case['idx'], dtype=int)
    # ---- R8: every way of building the same modulator
    builds = []
    if kind == 'PSK':
        builds = [('PSK(M, phaseOffset=ph)', lambda: f.PSK(M, phaseOffset=ph)),
                  ('PSK(M=M, phaseOffset=ph)', lambda: f.PSK(M=M, phaseOffset=ph)),
                  ('PSK(M); setPhaseOffset(ph)', lambda: _then(f.PSK(M), lambda o: o.setPhaseOffset(ph))),
                  ('PSK(M, other); setPhaseOffset(phaseOffset=ph)',
                   lambda: _then(f.PSK(M, 0.7), lambda o: o.setPhaseOffset(phaseOffset=ph))),
                  ('PSK(np.int64(M), np.float64(ph))', lambda: f.PSK(np.int64(M), np.float64(ph))),
                  ('PSK(np.int16(M), ph)', lambda: f.PSK(np.int16(M), ph))]
        if ph == 0.0:
            builds.append(('PSK(M) default offset', lambda: f.PSK(M)))
    elif kind == 'QAM':
        builds = [('QAM(M=M)', lambda: f.QAM(M=M)), ('QAM(np.int64(M))', lambda: f.QAM(np.int64(M))),
                  ('QAM(np.uint16(M))', lambda: f.QAM(np.uint16(M)))]
    elif kind == 'QPSK':
        builds = [('PSK(4, pi/4)', lambda: f.PSK(4, np.pi / 4.0)), ('PSK(4, phaseOffset=pi/4)', lambda: f.PSK(4, phaseOffset=np.pi / 4.0))]
    for name, b in builds:
        o = b()
        # the setter path re-labels PSK points for a non-zero offset (known C15 finding): compare as point SETS
        # plus the behaviour the property states (nearest point of the object's own table, round trip)
        so = np.asarray(o.symbols, dtype=complex)
        if 'setPhaseOffset' in name:
            if so.shape != sym.shape or not np.allclose(np.sort_complex(np.round(so, 9)), np.sort_complex(np.round(sym, 9)),
                                                        atol=1e-9):
                return 'forms:build:%s' % name, 'constellation differs from %s(%d, %r)' % (kind, M, ph)
        else:
            r = _same_behaviour(ref, o, z, idx)
            if r:
                return 'forms:build:%s' % name, r
        got = np.atleast_1d(o.demodulate(z))
        for k, zz in enumerate(z):
            best, gap = brute_nearest(so, zz)
            if gap >= 1e-9 and int(got[k]) != best and kind != 'BPSK':
                return 'forms:build-not-nearest:%s' % name, 'sample %r -> %d, nearest %d' % (zz, got[k], best)
        if not np.array_equal(np.asarray(o.demodulate(o.modulate(idx))), idx):
            return 'forms:build-roundtrip:%s' % name, 'round trip'
    # ---- R8: keyword arguments of modulate / demodulate, the generic Modulator with setConstellation
    if not np.array_equal(np.asarray(ref.modulate(inputData=idx)), np.asarray(ref.modulate(idx))):
        return 'forms:modulate(inputData=)', 'keyword form differs'
    if not np.array_equal(np.asarray(ref.demodulate(receivedData=z)), np.asarray(ref.demodulate(z))):
        return 'forms:demodulate(receivedData=)', 'keyword form differs'
    if kind != 'BPSK':
        g = f.Modulator()
        g.setConstellation(np.array(sym))
        r = _same_behaviour(ref, g, z, idx)
        if r:
            return 'forms:setConstellation:' + kind, r
        g2 = f.Modulator()
        g2.setConstellation(symbols=np.array(sym))
        r = _same_behaviour(ref, g2, z, idx)
        if r:
            return 'forms:setConstellation(symbols=):' + kind, r
    # ---- R9: scalar indexes of every integer type, first / last / beyond 256
    want = sym if kind != 'BPSK' else np.array([1.0, -1.0])
    picks = sorted({0, 1, M - 1, min(M - 1, 255), min(M - 1, 256), min(M - 1, 257), min(M - 1, 300)})
    for i in picks:
        forms = [('int', i), ('np.int64', np.int64(i)), ('np.intp', np.intp(i)), ('np.uint64', np.uint64(i)),
                 ('0-d', np.array(i))]
        if i < 2 ** 15:
            forms += [('np.int16', np.int16(i)), ('np.uint16', np.uint16(i))]
        if i < 2 ** 7:
            forms += [('np.int8', np.int8(i)), ('np.uint8', np.uint8(i))]
        for name, v in forms:
            out = np.asarray(ref.modulate(v))
            if out.shape != () or complex(out) != complex(want[i]):
                return 'forms:scalar-index:%s:%s' % (kind, name), 'modulate(%s(%d)) = %r, table entry %r' % (name, i, out.tolist(), want[i])
            back = np.asarray(ref.demodulate(np.asarray(out)))
            if back.shape != () or int(back) != i:
                return 'forms:scalar-roundtrip:%s:%s' % (kind, name), 'index %d comes back as %r' % (i, back.tolist())
    # ---- R11: calls that are not setters leave the object as it was
    o = make_mod(kind, M, ph)
    before = (np.array(o.symbols, copy=True), o.M, o.K, o.name, repr(o))
    d0 = np.array(o.demodulate(z), copy=True)
    snr = np.array([0.0, 5.0, 10.0])
    for _ in range(2):
        repr(o), str(o), o.name, o.M, o.K
        o.calcTheoreticalSER(snr), o.calcTheoreticalBER(snr), o.calcTheoreticalPER(snr, 10)
        o.calcTheoreticalSpectralEfficiency(snr), o.calcTheoreticalSpectralEfficiency(snr, 10)
        o.modulate(idx), o.demodulate(z), o.demodulate(np.asarray(o.modulate(idx)))
        c1, c2 = copy.copy(o), copy.deepcopy(o)
        c3 = pickle.loads(pickle.dumps(o))
        after = (np.asarray(o.symbols), o.M, o.K, o.name, repr(o))
        if not (np.array_equal(before[0], after[0]) and before[1:] == after[1:]):
            return 'forms:query-mutates:' + kind, 'attributes changed by non-setter calls'
        if not np.array_equal(np.asarray(o.demodulate(z)), d0):
            return 'forms:query-mutates:' + kind, 'decisions changed by non-setter calls'
        # ---- R13: derived objects
        for name, c in (('deepcopy', c2), ('pickle', c3)):
            r = _same_behaviour(o, c, z, idx)
            if r:
                return 'forms:%s:%s' % (name, kind), r
            if kind == 'PSK':
                c.setPhaseOffset(ph + 0.3)
                if not np.array_equal(np.asarray(o.symbols), before[0]):
                    return 'forms:%s-not-independent:%s' % (name, kind), 'setPhaseOffset on the copy changed the original'
        r = _same_behaviour(o, c1, z, idx)
        if r:
            return 'forms:copy:' + kind, r
    return None


def _then(o, f):
    f(o)
    return o


ORACLES = {'forms': o_forms, 'long': o_long, 'layout': o_layout, 'empty': o_empty, 'dtype': o_dtype, 'output': o_output_independent,
           'history': o_history, 'demodulate': o_nearest, 'roundtrip': o_roundtrip, 'constellation': o_constellation,
           'constructor': o_reject, 'modulate.oob': o_oob}


def _robust():
    """R15 / R16 live in harness/props/c01_robust.py; its oracles are registered here on first use"""
    from harness.props import c01_robust
    for k_, v_ in c01_robust.ORACLES.items():
        ORACLES.setdefault(k_, v_)
    return c01_robust


def run_oracle(ctx, call, case, key=None):
    ctx.count((call, key if key is not None else repr(case)))
    try:
        r = ORACLES[call](case)
    except Exception as e:
        r = ('exception:' + type(e).__name__, repr(e)[:300])
    if r is not None:
        ctx.fail(call, r[0], case, r[1])
        ctx.branch('oracle-fail:' + call)
    else:
        ctx.branch('oracle-ok:' + call)


def replay(ctx, rep):
    _robust()
    return ORACLES[rep['call']](rep['case']) is not None


# ------------------------------------------------------------------ correspondence
def mods_for(ctx, psk_max, qam_max):
    out = [('BPSK', 2, 0.0), ('QPSK', 4, 0.0)]
    M = 2
    while M <= psk_max:
        out.append(('PSK', M, 0.0))
        out.append(('PSK', M, ctx.rng.uniform(-7, 7)))
        M *= 2
    M = 4
    while M <= qam_max:
        out.append(('QAM', M, 0.0))
        M *= 4
    return out


def correspondence(ctx, accept_max, psk_max, qam_max, nsamp):
    f = _f()
    drv = core.Driver(DRIVER)
    # (1) constructor acceptance, every M
    lines = []
    for M in range(1, accept_max + 1):
        lines += ['accept psk %d' % M, 'accept qam %d' % M]
    out = drv.ask(lines)
    import warnings
    for M in range(1, accept_max + 1):
        for k, cls in enumerate((f.PSK, f.QAM)):
            try:
                with warnings.catch_warnings():
                    warnings.simplefilter('ignore')
                    cls(M)
                acc = 'true'
            except Exception:
                acc = 'false'
            ctx.corr('constructor.' + cls.__name__, M, acc, out[2 * (M - 1) + k], key=('acc', cls.__name__, M))
            ctx.branch('accept:' + acc)
    # (2) tables, (3) modulate, (4) detection
    for kind, M, phase in mods_for(ctx, psk_max, qam_max):
        m = make_mod(kind, M, phase)
        sym = np.asarray(m.symbols, dtype=complex)
        if kind in ('PSK', 'QAM'):
            line = 'psk %d %s' % (M, core.f2s(phase)) if kind == 'PSK' else 'qam %d' % int(round(M ** 0.5))
            rep = drv.ask([line])[0]
            ok = False
            if not rep.startswith('error'):
                v = [core.s2f(t) for t in rep.split(',')]
                tab = np.array(v[0::2]) + 1j * np.array(v[1::2])
                ok = tab.shape == sym.shape and np.max(np.abs(tab - sym)) <= 1e-12
            ctx.corr('table.' + kind, {'M': M, 'phase': phase}, 'match' if ok else 'differs', 'match',
                     key=('table', kind, M, phase != 0))
        # modulate: errors exactly when some index >= M
        if kind != 'BPSK':
            for _ in range(4):
                n = ctx.rng.randint(1, 12)
                idx = [ctx.rng.below(M) for _ in range(n)]
                if ctx.rng.chance(0.5):
                    idx[ctx.rng.below(n)] = M + ctx.rng.below(3)
                try:
                    r = m.modulate(np.array(idx))
                    impl = 'ok' if np.array_equal(r, sym[idx]) else 'wrong-symbols'
                except ValueError:
                    impl = 'error:ValueError'
                mo = drv.ask(['modulate %d %s' % (M, ','.join(map(str, idx)))])[0]
                ctx.corr('modulate', {'M': M, 'idx': idx}, impl, 'ok' if not mo.startswith('error') else mo,
                         key=('modulate', kind, M, tuple(idx)))
                ctx.branch('modulate:' + impl)
        else:
            for bits in ([0, 1, 1, 0], [0, 2], [1], [3, 0, 1]):
                try:
                    impl = ','.join(str(int(v)) for v in m.modulate(np.array(bits)))
                except ValueError:
                    impl = 'error:ValueError'
                ctx.corr('BPSK.modulate', bits, impl, drv.ask(['bpskmod ' + ','.join(map(str, bits))])[0],
                         key=('bpskmod', tuple(bits)))
            xs = [ctx.rng.uniform(-2, 2) for _ in range(50)] + [0.0, -0.0, 1e-300, -1e-300]
            impl = ','.join(str(int(v)) for v in m.demodulate(np.array(xs)))
            ctx.corr('BPSK.demodulate', xs, impl, drv.ask(['bpskdemod ' + ','.join(core.f2s(x) for x in xs)])[0],
                     key=('bpskdemod', tuple(xs)))
        # detection on dyadic samples, exact model on the implementation's own table
        if M <= 256 or ctx.tier == 'thorough':
            crat = pts_rat(sym)
            for region in ('near', 'uniform', 'boundary'):
                z = gen_samples(ctx.rng, sym, nsamp if M <= 64 else max(4, nsamp // 4), region)
                shape = ctx.rng.choice([(z.size,), (1, z.size), (z.size, 1), (1, z.size, 1)])
                got = np.asarray(m.demodulate(z.reshape(shape)))
                if got.shape != tuple(shape):
                    ctx.corr('demodulate.shape', {'kind': kind, 'M': M, 'shape': shape}, str(got.shape), str(tuple(shape)))
                zr = pts_rat(z)
                mo, mg = drv.ask(['demodq %s %s' % (crat, zr), 'margin %s %s' % (crat, zr)])
                mo = [int(t) for t in mo.split(',')]
                mg = [float(Fraction(t)) for t in mg.split(',')]
                for k in range(z.size):
                    if kind == 'BPSK' or mg[k] < 1e-9:
                        ctx.branch('detection:near-tie-skipped' if kind != 'BPSK' else 'detection:bpsk')
                        if kind != 'BPSK':
                            continue
                    ctx.corr('demodulate', {'kind': kind, 'M': M, 'phase': phase, 'z': [z[k].real, z[k].imag]},
                             int(got.ravel()[k]), mo[k], key=('det', kind, M, region, k))
                    ctx.branch('detection:' + region)
            if kind == 'PSK':
                # same object, new phase offset: the model detects against the CURRENT table
                m.setPhaseOffset(ctx.rng.uniform(-7, 7))
                sym2 = np.asarray(m.symbols, dtype=complex)
                z = gen_samples(ctx.rng, sym2, 8, 'near')
                got = np.asarray(m.demodulate(z))
                mo, mg = drv.ask(['demodq %s %s' % (pts_rat(sym2), pts_rat(z)),
                                  'margin %s %s' % (pts_rat(sym2), pts_rat(z))])
                mo = [int(t) for t in mo.split(',')]
                mg = [float(Fraction(t)) for t in mg.split(',')]
                for k in range(z.size):
                    if mg[k] >= 1e-9:
                        ctx.corr('demodulate.after.setPhaseOffset', {'M': M, 'z': [z[k].real, z[k].imag]},
                                 int(got[k]), mo[k], key=('det-off', M, phase != 0, k))
                        ctx.branch('detection:after-setPhaseOffset')


def oracles(ctx, psk_max, qam_max, nsamp, reject_max):
    for kind, M, phase in mods_for(ctx, psk_max, qam_max):
        run_oracle(ctx, 'constellation', {'kind': kind, 'M': M, 'phase': phase}, key=('const', kind, M, phase != 0))
        m = make_mod(kind, M, phase)
        for _ in range(3):
            nd = ctx.rng.randint(0, 4)
            shape = [ctx.rng.randint(1, 4) for _ in range(nd)]
            n = int(np.prod(shape)) if shape else 1
            idx = [ctx.rng.below(M) for _ in range(n)]
            run_oracle(ctx, 'roundtrip', {'kind': kind, 'M': M, 'phase': phase, 'idx': idx, 'shape': shape},
                       key=('rt', kind, M, tuple(shape)))
        if M <= 1024:
            run_oracle(ctx, 'roundtrip', {'kind': kind, 'M': M, 'phase': phase, 'idx': list(range(M)), 'shape': [M]},
                       key=('rt-all', kind, M))
        if M <= 256 or ctx.tier == 'thorough':
            for region in ('near', 'uniform', 'boundary'):
                z = gen_samples(ctx.rng, m.symbols, max(4, nsamp // 2 if M <= 64 else nsamp // 8), region)
                run_oracle(ctx, 'demodulate', {'kind': kind, 'M': M, 'phase': phase,
                                               'samples': [[c.real, c.imag] for c in z]},
                           key=('near', kind, M, region))
        if kind == 'PSK' and M <= 256:
            offs = [ctx.rng.uniform(-7, 7) for _ in range(ctx.rng.randint(1, 3))]
            idx = [ctx.rng.below(M) for _ in range(12)]
            z = gen_samples(ctx.rng, m.symbols, 12, 'uniform')
            run_oracle(ctx, 'history', {'M': M, 'phase': phase, 'offsets': offs, 'idx': idx,
                                        'samples': [[c.real, c.imag] for c in z]}, key=('hist', M, phase != 0))
        if M <= 64:
            shape = ctx.rng.choice([[3, 4], [2, 3, 2], [4, 2]])
            n = int(np.prod(shape))
            z = gen_samples(ctx.rng, m.symbols, n, ctx.rng.choice(['near', 'uniform']))
            run_oracle(ctx, 'layout', {'kind': kind, 'M': M, 'phase': phase, 'shape': shape,
                                       'samples': [[c.real, c.imag] for c in z],
                                       'idx': [ctx.rng.below(M) for _ in range(n)]}, key=('layout', kind, M, tuple(shape)))
            for shp in ([0], [0, 3], [2, 0, 5]):
                run_oracle(ctx, 'empty', {'kind': kind, 'M': M, 'shape': shp}, key=('empty', kind, M, tuple(shp)))
            for dt in INT_DTYPES:
                if dt == 'bool' and kind != 'BPSK':
                    continue      # a boolean array is a mask, not an index array, for numpy indexing
                hi = min(M, 2 if dt == 'bool' else (127 if dt == 'int8' else M))
                run_oracle(ctx, 'dtype', {'kind': kind, 'M': M, 'dtype': dt,
                                          'idx': [ctx.rng.below(hi) for _ in range(8)] + [hi - 1]},
                           key=('dtype', kind, M, dt))
            run_oracle(ctx, 'output', {'kind': kind, 'M': M, 'phase': phase,
                                       'idx': [ctx.rng.below(M) for _ in range(6)]}, key=('output', kind, M))
        if M <= 1024:
            z = gen_samples(ctx.rng, m.symbols, 10, ctx.rng.choice(['near', 'uniform', 'boundary']))
            run_oracle(ctx, 'forms', {'kind': kind, 'M': M, 'phase': phase, 'samples': [[c.real, c.imag] for c in z],
                                      'idx': [ctx.rng.below(M) for _ in range(9)] + [M - 1]},
                       key=('forms', kind, M, phase != 0))
        if kind != 'BPSK':
            run_oracle(ctx, 'modulate.oob', {'kind': kind, 'M': M, 'idx': [0, M]}, key=('oob', kind, M))
            run_oracle(ctx, 'modulate.oob', {'kind': kind, 'M': M, 'idx': [M + 5]}, key=('oob2', kind, M))
    # long inputs: counts just beyond 2^k // M for k = 16..22 (whatever block size an implementation may use)
    for kind, M, dmin in (('PSK', 1024, 2 * np.sin(np.pi / 1024)), ('QAM', 1024, 2 / np.sqrt(2 * 1023 / 3.0)),
                          ('QAM', 256, 2 / np.sqrt(2 * 255 / 3.0)), ('PSK', 64, 2 * np.sin(np.pi / 64)),
                          ('QAM', 4096, 2 / np.sqrt(2 * 4095 / 3.0))):
        ks = (20, 22) if ctx.tier == 'quick' else (16, 18, 20, 21, 22)
        for k in ks:
            n = (1 << k) // M + ctx.rng.randint(1, 97)
            if n * M > (1 << 24) and ctx.tier == 'quick':
                continue
            run_oracle(ctx, 'long', {'kind': kind, 'M': M, 'n': n, 'dmin': float(dmin), 'seed': ctx.rng.below(1 << 30)},
                       key=('long', kind, M, k))
    import warnings
    with warnings.catch_warnings():
        warnings.simplefilter('ignore')
        for M in range(2, reject_max + 1):
            run_oracle(ctx, 'constructor', {'kind': 'PSK', 'M': M}, key=('rej-psk', M))
            run_oracle(ctx, 'constructor', {'kind': 'QAM', 'M': M}, key=('rej-qam', M))


def check(ctx):
    quick = ctx.tier == 'quick'
    ctx.rule = ('modulators BPSK, QPSK, PSK 2..2^k (offset 0 and a seeded offset), QAM 4..4^k; index arrays of '
                'seeded shapes 0-d..4-d; samples on a 2^-40 grid near points / uniform / straddling nearest-'
                'neighbour bisectors with margins 1e-1..1e-8 (ties with exact gap < 1e-9 skipped); every '
                'M <= N for constructor acceptance; R15: pairs of samples 2e-6..6e-12 (relative to the point spacing) apart '
                'on the two sides of a bisector, samples of magnitude 2^-30..2^-37 and their negatives, far samples '
                '(1e3, 1e5, 2.4e9) 1e-6 apart relatively, adjacent doubles, offsets differing by 1e-9 / 1e-12 / one ulp / '
                '1e-6 relatively, cardinalities 2^k+-1 up to 2^20 (decisions with exact relative gap < 2^-38 skipped); '
                'R16: histories of 2-4 calls on one object with ONE array per role refilled in place and overwritten '
                'after the call, the library\'s own arrays handed back to it; '
                'non-trivial = distinct (call, modulator, M, region/shape/class, k)')
    accept_max = 5000 if quick else 20000
    psk_max, qam_max = (1 << 10, 4 ** 5) if quick else (1 << 10, 4 ** 6)
    nsamp = 24 if quick else 200
    core.prove(ctx, MODULE, generated=['Conversion', 'C01Formulas'], drivers=[DRIVER], scratch=ctx.scratch)
    rob = _robust()
    ctx.required_branches = ['detection:after-setPhaseOffset', 'detection:boundary', 'detection:near', 'detection:uniform', 'accept:true',
                             'accept:false', 'modulate:error:ValueError', 'modulate:ok'] + rob.REQUIRED_CORR
    try:
        correspondence(ctx, accept_max, psk_max, qam_max, nsamp)
        rob.correspondence(ctx)
    except core.Infra as e:
        if not ctx.broken:
            raise
        ctx.notes.append('correspondence skipped: %s' % e)
        ctx.required_branches = []
    ctx.required_branches = ctx.required_branches + rob.REQUIRED
    oracles(ctx, psk_max, qam_max, nsamp, 600 if quick else 5000)
    rob.oracles(ctx)
    ctx.exhaustive = False
    ctx.sample({'call': 'demodulate', 'kind': 'QAM', 'M': 16, 'z': [0.6324555320336759 - 1e-6, 0.1]})
    ctx.sample({'call': 'constructor.PSK', 'M': 24, 'expected': 'rejected'})
    ctx.sample({'call': 'roundtrip', 'kind': 'PSK', 'M': 8, 'idx': [3, 0, 7, 5], 'shape': [2, 2]})


def search(ctx):
    _robust().search(ctx)
    nsamp = 400
    for kind, M, phase in mods_for(ctx, 1 << 8, 4 ** 4):
        m = make_mod(kind, M, phase)
        for region in ('near', 'uniform', 'boundary'):
            z = gen_samples(ctx.rng, m.symbols, nsamp, region)
            run_oracle(ctx, 'demodulate', {'kind': kind, 'M': M, 'phase': phase,
                                           'samples': [[c.real, c.imag] for c in z]})
