"""C18 — robustness classes R8–R14 (helper module of harness/props/c18.py; not a property module).

R8 argument forms / equivalent entry points, R9 index and count arguments, R10
mixed element types across arguments, R11 read-only calls inside histories, R12
order of construction / superposition / rows, R13 copies and pickle round trips,
R14 counts of 257, 258, 300 and 2^16+1.  Every class has a correspondence part
(`corr:Rk`) and an oracle part (`oracle:Rk`), each a required branch, with
failure classes computed from the input.
"""
import copy
import math
import pickle

import numpy as np

from harness import core


def B():
    from harness.props import c18
    return c18


def R():
    from harness.props import c18_robust
    return c18_robust


IDX_TYPES = ['int8', 'uint8', 'int16', 'uint16', 'int32', 'uint32', 'int64', 'uint64', 'intp', '0d', 'bool']
COUNTS = [257, 258, 300]


def same(a, b_):
    a, b_ = np.asarray(a), np.asarray(b_)
    return a.shape == b_.shape and a.dtype == b_.dtype and np.array_equal(a, b_, equal_nan=True)


def diff_txt(a, b_):
    a, b_ = np.asarray(a), np.asarray(b_)
    if a.shape != b_.shape:
        return 'shapes %s / %s' % (a.shape, b_.shape)
    if a.dtype != b_.dtype:
        return 'dtypes %s / %s' % (a.dtype, b_.dtype)
    return 'max diff %.3e' % (float(np.max(np.abs(a - b_))) if a.size else 0.0)


# ------------------------------------------------------------------ R8: argument forms
ROOT_FORMS = ['root:positional', 'root:explicit-default-nzc', 'root:nzc-only', 'root:size-None', 'root:functions',
              'root:accessors']
UE_FORMS = ['ue:keywords', 'ue:positional', 'ue:defaults', 'ue:functions', 'ue:accessors']
EST_FORMS = ['est:keywords', 'est:default-m', 'est:call-keywords', 'est:raw-array', 'occ:extra-forms', 'occ:flat',
             'occ:single-slot']
LS_FORMS = ['ls:keywords', 'ls:3d-shared=loop', 'ls:3d-own=loop', 'ls:replicated-s']


def root_by_form(spec, form):
    """RootSequence built through an alternative but equivalent argument form (None when the form does not apply)"""
    b = B()
    rs = b._impl()[0]
    u, size, nzc = spec['u'], spec['size'], spec['nzc']
    if form == 'root:positional':
        return rs.RootSequence(u, size, nzc)
    if form == 'root:explicit-default-nzc':
        if nzc is not None or size is None or size < 2:
            return None
        return rs.RootSequence(u, size=size, Nzc=b.largest_prime_le(size))
    if form == 'root:nzc-only':
        if nzc is None or size != nzc:
            return None
        return rs.RootSequence(u, Nzc=nzc)
    if form == 'root:size-None':
        if nzc is None or size != nzc:
            return None
        return rs.RootSequence(u, None, nzc)
    return None


def alt_ue(spec, form):
    """the user sequence ARRAY obtained through an alternative form"""
    b = B()
    _, zc, srs, dmrs, _, _ = b._impl()
    root = b.impl_root(spec['u'], spec['size'], spec['nzc'])
    ncs, d, norm = spec['ncs'], spec['D'], bool(spec['norm'])
    cover = None if spec['cover'] is None else np.array(spec['cover'])
    if form == 'ue:keywords':
        if d == 8:
            return srs.SrsUeSequence(root_seq=root, n_cs=ncs, normalize=norm).seq_array()
        return dmrs.DmrsUeSequence(root_seq=root, n_cs=ncs, cover_code=cover, normalize=norm).seq_array()
    if form == 'ue:positional':
        if d == 8:
            return srs.SrsUeSequence(root, ncs, norm).seq_array()
        return dmrs.DmrsUeSequence(root, ncs, cover, norm).seq_array()
    if form == 'ue:defaults':
        kw = {}
        if norm:
            kw['normalize'] = True
        if d == 8:
            return srs.SrsUeSequence(root, ncs, **kw).seq_array()
        if cover is not None:
            kw['cover_code'] = cover
        elif spec['u'] % 2:
            kw['cover_code'] = None               # explicitly the default value
        return dmrs.DmrsUeSequence(root, ncs, **kw).seq_array()
    if form == 'ue:functions':
        arr = root.seq_array()
        if d == 8:
            x = srs.get_srs_seq(arr, ncs) if spec['u'] % 2 else srs.get_srs_seq(root_seq=arr, n_cs=ncs)
        else:
            x = dmrs.get_dmrs_seq(arr, ncs) if spec['u'] % 2 else dmrs.get_dmrs_seq(root_seq=arr, n_cs=ncs)
        x2 = zc.get_shifted_root_seq(root_seq=arr, n_cs=ncs, denominator=d)
        if not same(x, x2):
            raise AssertionError('get_srs/dmrs_seq differs from get_shifted_root_seq: ' + diff_txt(x, x2))
        if cover is not None:
            x = x * cover[:, np.newaxis]
        if norm:
            x = x / np.linalg.norm(x if x.ndim == 1 else x[0])
        return x
    raise ValueError(form)


def o_argument_forms(case):
    """R8: every documented way of giving the same arguments / every pair of equivalent entry points agrees
    (bitwise, or to 1e-12 relative where the two forms legitimately round differently)."""
    b = B()
    form = case['form']
    cls = 'argument-form-differs:' + form
    _, zc, srs, dmrs, ce, est_mod = b._impl()
    if form.startswith('ls:'):
        hs, ss, _ = b.ls_arrays(case['ls'])
        y3 = np.array([h @ ss[0] for h in hs])
        if form == 'ls:keywords':
            a = est_mod.compute_ls_estimation(Y_p=y3[0], s=ss[0])
            w = est_mod.compute_ls_estimation(y3[0], ss[0])
        elif form == 'ls:3d-shared=loop':
            a = est_mod.compute_ls_estimation(y3, ss[0])
            w = np.array([est_mod.compute_ls_estimation(y, ss[0]) for y in y3])
        elif form == 'ls:3d-own=loop':
            s3 = np.array([ss[i % len(ss)] for i in range(len(hs))])
            y3 = np.array([h @ s_ for h, s_ in zip(hs, s3)])
            a = est_mod.compute_ls_estimation(y3, s3)
            w = np.array([est_mod.compute_ls_estimation(y, s_) for y, s_ in zip(y3, s3)])
        else:
            a = est_mod.compute_ls_estimation(y3, np.array([ss[0]] * len(hs)))
            w = est_mod.compute_ls_estimation(y3, ss[0])
        return None if same(a, w) else (cls, diff_txt(a, w))
    spec = case['ue']
    root = b.impl_root(spec['u'], spec['size'], spec['nzc'])
    seq = np.array(root.seq_array(), copy=True)
    if form in ROOT_FORMS[:4]:
        alt = root_by_form(spec, form)
        if alt is None:
            return None
        if not same(alt.seq_array(), seq) or (alt.Nzc, alt.size, alt.index) != (root.Nzc, root.size, root.index):
            return cls, 'Nzc/size/index %s vs %s, %s' % ((alt.Nzc, alt.size, alt.index),
                                                      (root.Nzc, root.size, root.index),
                                                      diff_txt(alt.seq_array(), seq))
        return None
    if form == 'root:functions':
        if root.size <= 24:
            return None
        n, u = root.Nzc, spec['u']
        bases = [zc.calcBaseZC(n, u), zc.calcBaseZC(n, u, 0), zc.calcBaseZC(Nzc=n, u=u, q=0), zc.calcBaseZC(n, u, q=0.0)]
        for x in bases[1:]:
            if not same(x, bases[0]):
                return cls, 'calcBaseZC argument forms: ' + diff_txt(x, bases[0])
        full = bases[0] if root.size == n else zc.get_extended_ZF(bases[0], root.size)
        if root.size != n and not same(full, zc.get_extended_ZF(root_seq=bases[0], size=root.size)):
            return cls, 'get_extended_ZF keywords'
        return None if same(full, seq) else (cls, 'functions vs RootSequence: ' + diff_txt(full, seq))
    if form == 'root:accessors':
        n = seq.size
        rr = np.random.RandomState(case['seed'])
        other = rr.randn(n) + 1j * rr.randn(n)
        idxs = [0, n - 1, -1, -n, int(rr.randint(0, n)), slice(1, n, 3), slice(None, None, -1),
                rr.randint(0, n, size=5), list(map(int, rr.randint(-n, n, size=4)))]
        for ix in idxs:
            if not same(root[ix], seq[ix]):
                return cls, 'root[%r]' % (ix,)
        checks = [('conj', root.conj(), np.conj(seq)), ('conjugate', root.conjugate(), np.conj(seq)),
                  ('+', root + other, seq + other), ('radd', other + root, other + seq),
                  ('*', root * other, seq * other), ('rmul', other * root, other * seq), ('rmul-int', 3 * root, 3 * seq)]
        for name, got, want in checks:
            # the reflected forms compute seq (op) other: equal up to the last bit of a complex product
            if not (same(got, want) or (name in ('radd', 'rmul') and np.asarray(got).dtype == want.dtype
                                        and R().rel_close(got, want, 4e-16)[0])):
                return cls, '%s: %s' % (name, diff_txt(got, want))
        if root.size != n or root.index != spec['u'] or not isinstance(repr(root), str):
            return cls, 'size/index/repr'
        return None if same(root.seq_array(), seq) else ('query-changed-state:root', 'accessors changed the root')
    ue = b.make_ue(root, spec)
    arr = np.array(ue.seq_array(), copy=True)
    if form in UE_FORMS[:4]:
        try:
            alt = alt_ue(spec, form)
        except AssertionError as e:
            return cls, str(e)
        return None if same(alt, arr) else (cls, diff_txt(alt, arr))
    if form == 'ue:accessors':
        n = arr.shape[-1]
        if ue.size != n or tuple(ue.shape) != arr.shape or ue.normalized is not bool(spec['norm']):
            return cls, 'size/shape/normalized: %r %r %r' % (ue.size, ue.shape, ue.normalized)
        for ix in (0, -1, slice(0, n, 2)):
            if not same(ue[ix], arr[ix]):
                return cls, 'ue[%r]' % (ix,)
        other = np.random.RandomState(case['seed']).randn(*arr.shape) + 0.5j
        if not same(ue.conj(), np.conj(arr)) or not same(ue.conjugate(), np.conj(arr)) \
                or not same(ue * 2, arr * 2) or not same(1 + ue, 1 + arr):
            return cls, 'conj / arithmetic helpers'
        for name, got, want in (('+', ue + other, arr + other), ('radd', other + ue, other + arr),
                                ('*', ue * other, arr * other), ('rmul', other * ue, other * arr)):
            if not (same(got, want) or (name in ('radd', 'rmul') and np.asarray(got).dtype == want.dtype
                                        and R().rel_close(got, want, 4e-16)[0])):
                return cls, '%s with an ndarray: %s' % (name, diff_txt(got, want))
        if spec['cover'] is not None and not same(ue.cover_code, np.array(spec['cover'])):
            return cls, 'cover_code'
        if spec['D'] == 12 and spec['cover'] is None and ue.cover_code is not None:
            return cls, 'cover_code is not None'
        return None if same(ue.seq_array(), arr) and same(root.seq_array(), seq) else (
            'query-changed-state:ue', 'accessors changed the user or the root')
    # estimator forms
    occ = spec['cover'] is not None
    m, k, nr = int(case['m']), int(case['K']), int(case['nr'])
    n = arr.shape[-1]
    if occ:
        nc = len(spec['cover'])
        y = R().rnd_y(case['seed'], (nc, n) if nr == 0 else (nr, nc, n), 'complex128')
        ref = ce.CazacBasedWithOCCChannelEstimator(ue).estimate_channel_freq_domain(y, k, extra_dimension=True)
        if form == 'est:keywords':
            got = ce.CazacBasedWithOCCChannelEstimator(ue_ref_seq=ue).estimate_channel_freq_domain(
                received_signal=y, num_taps_to_keep=k, extra_dimension=True)
        elif form == 'occ:extra-forms':
            e = ce.CazacBasedWithOCCChannelEstimator(ue)
            got = e.estimate_channel_freq_domain(y, k)
            g2 = e.estimate_channel_freq_domain(y, k, True)
            if not same(g2, ref):
                return cls, 'extra_dimension positional: ' + diff_txt(g2, ref)
        elif form == 'occ:flat':
            flat = np.ascontiguousarray(y.reshape(-1) if nr == 0 else y.reshape(nr, -1))
            got = ce.CazacBasedWithOCCChannelEstimator(ue).estimate_channel_freq_domain(flat, k, extra_dimension=False)
        elif form == 'occ:single-slot':
            if nc != 1 or abs(spec['cover'][0]) != 1:
                return None
            plain = b.make_ue(root, dict(spec, cover=None))
            yy = (y[0] if nr == 0 else y[:, 0, :]) * spec['cover'][0]
            got = ce.CazacBasedChannelEstimator(plain, 1).estimate_channel_freq_domain(yy, k)
            ok, d, mag = R().rel_close(got, ref, 1e-12)
            return None if ok else (cls, 'max diff %.3e (magnitude %.3e)' % (d, mag))
        else:
            return None
        return None if same(got, ref) else (cls, diff_txt(got, ref))
    y = R().rnd_y(case['seed'], (n,) if nr == 0 else (nr, n), 'complex128')
    ref = ce.CazacBasedChannelEstimator(ue, m).estimate_channel_freq_domain(y, k)
    if form == 'est:keywords':
        got = ce.CazacBasedChannelEstimator(ue_ref_seq=ue, size_multiplier=m).estimate_channel_freq_domain(y, k)
    elif form == 'est:default-m':
        ref = ce.CazacBasedChannelEstimator(ue, 2).estimate_channel_freq_domain(y, k)
        got = ce.CazacBasedChannelEstimator(ue).estimate_channel_freq_domain(y, k)
    elif form == 'est:call-keywords':
        got = ce.CazacBasedChannelEstimator(ue, size_multiplier=m).estimate_channel_freq_domain(
            num_taps_to_keep=k, received_signal=y)
    elif form == 'est:raw-array':
        got = ce.CazacBasedChannelEstimator(np.array(arr), m).estimate_channel_freq_domain(y, k)
        if spec['norm']:
            ok, d, mag = R().rel_close(got * n, ref, 1e-12)
            return None if ok else (cls, 'N x (raw-array estimate) vs UeSequence estimate: max diff %.3e' % d)
    else:
        return None
    return None if same(got, ref) else (cls, diff_txt(got, ref))


# ------------------------------------------------------------------ R9: index / count arguments
def o_index_arguments(case):
    """R9: root index, Nzc, cyclic shift, K, size multiplier and positions given as every integer flavour
    (np.int8 ... np.uint64, np.intp, 0-d array, bool for 0/1), values above 256 included, behave like the int."""
    b = B()
    ce = b._impl()[4]
    spec, ty, what = case['ue'], case['type'], case['what']
    cls = 'index-argument-differs:%s=%s%s' % (what, ty, ':>256' if case.get('big') else '')
    plain = dict(spec, types=None)
    if what in ('u', 'nzc', 'ncs'):
        a = b.impl_ue(dict(spec, types={what: ty}))
        t = b.impl_ue(plain)
        return None if same(a.seq_array(), t.seq_array()) else (cls, diff_txt(a.seq_array(), t.seq_array()))
    ue = b.impl_ue(plain)
    n = ue.size
    if what == 'position':
        root = b.impl_root(spec['u'], spec['size'], spec['nzc'])
        seq = np.asarray(root.seq_array())
        arr = np.asarray(ue.seq_array())
        for pos in case['positions']:
            p = pos % n if ty.startswith('u') else pos
            ix = b.tint(p, ty)
            if type(ix) is int and ty != 'int':
                continue                                    # value does not fit the type
            if not same(root[ix], seq[int(p)]):
                return cls, 'root[%d]' % p
            if arr.ndim == 1 and not same(ue[ix], arr[int(p)]):
                return cls, 'ue[%d]' % p
        return None
    occ = spec['cover'] is not None
    y = R().rnd_y(case['seed'], (len(spec['cover']), n) if occ else (n,), 'complex128')
    k, m = int(case['K']), int(case['m'])
    if occ:
        ref = ce.CazacBasedWithOCCChannelEstimator(ue).estimate_channel_freq_domain(y, k)
        got = ce.CazacBasedWithOCCChannelEstimator(ue).estimate_channel_freq_domain(y, b.tint(k, ty))
    elif what == 'K':
        ref = ce.CazacBasedChannelEstimator(ue, m).estimate_channel_freq_domain(y, k)
        got = ce.CazacBasedChannelEstimator(ue, m).estimate_channel_freq_domain(y, b.tint(k, ty))
    else:
        ref = ce.CazacBasedChannelEstimator(ue, m).estimate_channel_freq_domain(y, k)
        got = ce.CazacBasedChannelEstimator(ue, b.tint(m, ty)).estimate_channel_freq_domain(y, k)
    return None if same(got, ref) else (cls, diff_txt(got, ref))


# ------------------------------------------------------------------ R10: mixed element types
def o_mixed_dtypes(case):
    """R10: reference sequence, observation and cover code of DIFFERENT element types (raw-array reference of
    +-1 integers or complex64 next to a float64 / complex128 / integer observation ...): the estimate equals the
    one for the complex128-promoted twins and is complex128 — nothing is truncated to the type of one argument."""
    b = B()
    ce = b._impl()[4]
    rr = np.random.RandomState(case['seed'])
    n, nr, k, m = case['n'], case['nr'], case['K'], case['m']
    rt, yt = case['reftype'], case['ytype']
    if rt in R().INT_TYPES:
        ref = (1 - 2 * rr.randint(0, 2, size=n)).astype('int8' if rt.startswith('u') else rt)     # +-1: unit modulus
    else:
        ph = rr.randint(0, 8, size=n)
        ref = np.exp(2j * np.pi * ph / 8).astype(rt)
    y = R().rnd_y(case['seed'] + 1, (n,) if nr == 0 else (nr, n), yt)
    snap = b.Snap(ref=ref, Y=y)
    got = np.asarray(ce.CazacBasedChannelEstimator(ref, m).estimate_channel_freq_domain(y, k))
    want = ce.CazacBasedChannelEstimator(ref.astype(np.complex128), m).estimate_channel_freq_domain(
        y.astype(np.complex128), k)
    cls = 'mixed-dtypes:ref=%s,Y=%s' % (rt, yt)
    if snap.changed():
        return 'input-modified:' + cls, snap.changed()
    pd = np.result_type(ref.dtype, y.dtype)                        # the promoted type of BOTH arguments
    exp_dt = np.dtype(np.complex64) if pd in (np.dtype(np.float32), np.dtype(np.complex64)) else np.dtype(np.complex128)
    if got.dtype != exp_dt:
        return 'result-truncated:' + cls, 'dtype %s, promotion of the arguments is %s' % (got.dtype, exp_dt)
    ok, d, mag = R().rel_close(got, want, 1e-12 if exp_dt == np.complex128 else 2e-5)
    return None if ok else (cls, 'max diff %.3e (magnitude %.3e) to the promoted twin' % (d, mag))


# ------------------------------------------------------------------ R11 / R13: cell operations
QUERIES = ['root.Nzc', 'root.size', 'root.index', 'root.seq_array', 'root.getitem', 'root.conj', 'root.arith',
           'root.repr', 'ue.normalized', 'ue.size', 'ue.shape', 'ue.seq_array', 'ue.getitem', 'ue.conj', 'ue.arith',
           'ue.repr', 'ue.cover_code']


def do_queries(root, users, names):
    for q in names:
        objs = [root] if q.startswith('root.') else users
        for o in objs:
            a = q.split('.')[1]
            if a in ('Nzc', 'size', 'index', 'normalized', 'shape'):
                getattr(o, a, None)
            elif a == 'seq_array':
                o.seq_array()
            elif a == 'getitem':
                _ = o[0], o[-1], o[1:3]
            elif a == 'conj':
                _ = o.conj(), o.conjugate()
            elif a == 'arith':
                _ = o + 1, 1 + o, o * 2, 2 * o
            elif a == 'repr':
                repr(o)
            elif a == 'cover_code':
                getattr(o, 'cover_code', None)


def observe_cell(root, users):
    return (root.Nzc, root.size, root.index), [
        (bool(u.normalized), np.atleast_2d(np.asarray(u.seq_array())).shape) for u in users]


def o_cell_operations(case):
    """R11/R13: a history on ONE shared root mixing constructions, read-only calls (every accessor / helper /
    repr of the root and of the users) and copies (copy.copy, copy.deepcopy, pickle round trip) of users, of
    the root, and users built from a copied root.  After every step the root and all earlier users are
    bitwise what they were; a copy equals its original (and, when deep, shares no memory with it); finally
    the deep copies are overwritten and the originals must not notice."""
    b = B()
    rs = case['root']
    root = b.impl_root(rs['u'], rs['size'], rs['nzc'])
    seq0 = np.array(root.seq_array(), copy=True)
    obs0 = (root.Nzc, root.size, root.index)
    users, snaps, deep = [], [], []
    for i, op in enumerate(case['ops']):
        kind = op['op']
        cls_tail = kind + (':' + op.get('how', '') if op.get('how') else '')
        if kind == 'build':
            if op['ncs'] >= op['D']:
                try:
                    b.make_ue(root, op)
                    return 'bad-shift-accepted', 'op %d' % i
                except AssertionError:
                    pass
            else:
                src = root
                if op.get('root_copy'):
                    src = {'copy': copy.copy, 'deepcopy': copy.deepcopy,
                           'pickle': lambda o: pickle.loads(pickle.dumps(o))}[op['root_copy']](root)
                    cls_tail = 'build-from-root-' + op['root_copy']
                ue = b.make_ue(src, op)
                fresh = b.make_ue(b.impl_root(rs['u'], rs['size'], rs['nzc']), op)
                if not same(ue.seq_array(), fresh.seq_array()) or ue.normalized is not fresh.normalized:
                    return 'user-differs-from-fresh-root:' + cls_tail, 'op %d: %s' % (
                        i, diff_txt(ue.seq_array(), fresh.seq_array()))
                users.append(ue)
                snaps.append(np.array(ue.seq_array(), copy=True))
        elif kind == 'query':
            do_queries(root, users, op['names'])
        elif kind == 'copy':
            j = op['j']
            if j >= len(users):
                continue
            how = op['how']
            cp = {'copy': copy.copy, 'deepcopy': copy.deepcopy,
                  'pickle': lambda o: pickle.loads(pickle.dumps(o))}[how](users[j])
            if not same(cp.seq_array(), snaps[j]) or cp.normalized is not users[j].normalized \
                    or cp.size != users[j].size or repr(cp) != repr(users[j]) \
                    or not same(np.asarray(getattr(cp, 'cover_code', None) is None),
                                np.asarray(getattr(users[j], 'cover_code', None) is None)):
                return 'copy-differs:' + how, 'op %d: copy of user %d: %s' % (i, j, diff_txt(cp.seq_array(), snaps[j]))
            if how != 'copy':
                if np.shares_memory(cp.seq_array(), users[j].seq_array()):
                    return 'copy-shares-memory:' + how, 'op %d: %s of user %d aliases the original' % (i, how, j)
                deep.append(len(users))
            elif j in deep:
                deep.append(len(users))        # a shallow copy shares the arrays of its (deep-copied) source
            users.append(cp)
            snaps.append(np.array(cp.seq_array(), copy=True))
        # state after every operation
        if not same(root.seq_array(), seq0) or (root.Nzc, root.size, root.index) != obs0:
            return ('query-changed-state:root' if kind == 'query' else 'shared-root-modified:' + cls_tail), \
                'after op %d (%s) the shared root changed' % (i, kind)
        for j, (uj, sj) in enumerate(zip(users, snaps)):
            if not same(uj.seq_array(), sj):
                return ('query-changed-state:user' if kind == 'query' else 'earlier-user-modified:' + cls_tail), \
                    'after op %d (%s) user %d changed' % (i, kind, j)
    # derived objects are independent: overwrite the deep copies, the others must not notice
    for j in deep:
        a = users[j].seq_array()
        if a.flags.writeable:
            a *= 0
    for j, (uj, sj) in enumerate(zip(users, snaps)):
        if j not in deep and not same(uj.seq_array(), sj):
            return 'copy-not-independent', 'overwriting the deep copies changed user %d' % j
    if not same(root.seq_array(), seq0):
        return 'copy-not-independent', 'overwriting the deep copies changed the root'
    return None


def o_estimator_copies(case):
    """R13 (+R11): copies / pickle round trips of an estimator give the same estimates as the original, before
    and after the original served other calls; building two estimators from the same user keeps them independent."""
    b = B()
    est, ue = R().make_estimator(case)
    n = ue.size
    occ = case['ue']['cover'] is not None
    how = case['how']
    shape = (len(case['ue']['cover']), n) if occ else (n,)
    y1 = R().rnd_y(case['seed'], shape, 'complex128')
    y2 = R().rnd_y(case['seed'] + 1, shape, 'complex128')
    k = int(case['K'])
    fresh, _ = R().make_estimator(case)
    w1, w2 = fresh.estimate_channel_freq_domain(y1, k), fresh.estimate_channel_freq_domain(y2, k)
    cp = {'copy': copy.copy, 'deepcopy': copy.deepcopy, 'pickle': lambda o: pickle.loads(pickle.dumps(o)),
          'second-estimator': lambda o: R().make_estimator(case)[0] if occ else
          b._impl()[4].CazacBasedChannelEstimator(ue, int(case.get('m', 1)))}[how](est)
    g1 = cp.estimate_channel_freq_domain(y1, k)
    _ = repr(cp), cp.ue_ref_seq
    e2 = est.estimate_channel_freq_domain(y2, k)
    g2 = cp.estimate_channel_freq_domain(y2, k)
    e1 = est.estimate_channel_freq_domain(y1, k)
    for name, got, want in (('copy call 1', g1, w1), ('original call 2', e2, w2), ('copy call 2', g2, w2),
                            ('original call 1', e1, w1)):
        if not same(got, want):
            return 'estimator-copy-differs:' + how, '%s: %s' % (name, diff_txt(got, want))
    if how in ('deepcopy', 'pickle') and np.shares_memory(cp.ue_ref_seq, est.ue_ref_seq):
        return 'copy-shares-memory:estimator-' + how, 'reference sequences alias'
    return None


# ------------------------------------------------------------------ R12: order
def o_construction_order(case):
    """R12: the same users built from a shared root in two different orders (and on fresh roots) have, keyed by
    their configuration, the same sequences; the superposed observation summed in either order gives each user
    the same, exact estimate; permuting receive antennas permutes the rows of the estimate."""
    b = B()
    ce = b._impl()[4]
    rs, specs, perm = case['root'], case['users'], case['perm']
    ra = b.impl_root(rs['u'], rs['size'], rs['nzc'])
    rb = b.impl_root(rs['u'], rs['size'], rs['nzc'])
    ua = {i: b.make_ue(ra, specs[i]) for i in range(len(specs))}
    ub = {}
    for i in perm:
        ub[i] = b.make_ue(rb, specs[i])
    for i in range(len(specs)):
        if not same(ua[i].seq_array(), ub[i].seq_array()):
            return 'order-dependent:construction', 'user %d (shift %d, norm %d) depends on the construction order: %s' % (
                i, specs[i]['ncs'], specs[i]['norm'], diff_txt(ua[i].seq_array(), ub[i].seq_array()))
    n = ra.size
    d = specs[0]['D']
    if n % d:
        return None
    m, win = int(case['m']), n // d
    nsc = m * n
    hs = [b.gtaps(s_['taps'])[:, :win] for s_ in specs]
    k = max(h.shape[1] for h in hs) - 1
    comb = np.arange(0, nsc, m)
    terms = [b.true_response(h, nsc)[:, comb] * np.asarray(ua[i].seq_array())[None, :] for i, h in enumerate(hs)]
    mag = max(float(np.max(np.abs(b.true_response(h, nsc)))) for h in hs)
    y_a = sum(terms[i] for i in range(len(specs)))
    y_b = sum(terms[i] for i in perm)
    rows = case['row_perm']
    for i in range(len(specs)):
        e_a = ce.CazacBasedChannelEstimator(ua[i], m).estimate_channel_freq_domain(y_a, k)
        e_b = ce.CazacBasedChannelEstimator(ub[i], m).estimate_channel_freq_domain(y_b, k)
        truth = b.true_response(hs[i], nsc)
        tol = (1e-9 + 64 * b.seq_tol(rs['u'], nsc)) * mag * len(specs)
        if not float(np.max(np.abs(e_a - truth))) <= tol:
            return 'estimate-inexact:order-a', 'user %d: %.3e' % (i, float(np.max(np.abs(e_a - truth))))
        if not float(np.max(np.abs(e_b - e_a))) <= 1e-12 * mag * len(specs) * n:
            return 'order-dependent:superposition', 'user %d: estimates differ by %.3e between the two orders' % (
                i, float(np.max(np.abs(e_b - e_a))))
        e_r = ce.CazacBasedChannelEstimator(ua[i], m).estimate_channel_freq_domain(np.ascontiguousarray(y_a[rows]), k)
        if not same(e_r, e_a[rows]):
            return 'order-dependent:antenna-rows', 'user %d: permuting the antennas does not permute the estimate' % i
    return None


def o_ls_order(case):
    """R12 for the LS estimator: permuting realizations / receive antennas permutes the result, permuting the
    pilots (columns of Y and S together) leaves it (to rounding) unchanged."""
    b = B()
    est = b._impl()[5]
    hs, ss, _ = b.ls_arrays(case['ls'])
    s0 = ss[0]
    y3 = np.array([h @ s0 for h in hs])
    base = est.compute_ls_estimation(y3, s0)
    pr, pa, pp = case['perm_real'], case['perm_ant'], case['perm_pil']
    if not same(est.compute_ls_estimation(np.ascontiguousarray(y3[pr]), s0), base[pr]):
        return 'order-dependent:ls-realizations', 'permuted realizations'
    if not same(est.compute_ls_estimation(np.ascontiguousarray(y3[:, pa, :]), s0), base[:, pa, :]):
        return 'order-dependent:ls-antennas', 'permuted antennas'
    got = est.compute_ls_estimation(np.ascontiguousarray(y3[:, :, pp]), np.ascontiguousarray(s0[:, pp]))
    ok, d, mag = R().rel_close(got, base, 1e-9)
    if not ok:
        return 'order-dependent:ls-pilots', 'permuted pilots: max diff %.3e (magnitude %.3e)' % (d, mag)
    return None


# ------------------------------------------------------------------ R14: counts
def o_counts(case):
    """R14: 257 / 258 / 300 / 65537 of whatever can be counted: users built from one root, receive antennas,
    cover-code slots, kept taps / channel taps, LS realizations / antennas / pilots."""
    b = B()
    _, _, _, _, ce, est = b._impl()
    what, cnt = case['what'], int(case['count'])
    cls = 'count:%s=%d' % (what, cnt)
    rr = np.random.RandomState(case['seed'])
    if what == 'users':
        root = b.impl_root(3, 24, None)
        seq0 = np.array(root.seq_array(), copy=True)
        users = []
        for i in range(cnt):
            op = {'D': 8 if i % 3 else 12, 'ncs': i % 8, 'norm': (i // 2) % 2, 'cover': None}
            users.append((op, b.make_ue(root, op)))
        if not same(root.seq_array(), seq0):
            return cls, 'root changed'
        fresh = {}
        for op, ue in users:
            key = (op['D'], op['ncs'], op['norm'])
            if key not in fresh:
                fresh[key] = np.array(b.make_ue(b.impl_root(3, 24, None), op).seq_array())
            if not same(ue.seq_array(), fresh[key]):
                return cls, 'user %r differs from the fresh one' % (key,)
        return None
    if what in ('antennas', 'taps', 'K', 'slots'):
        n = {'antennas': 12, 'taps': 1200, 'K': 36, 'slots': 12}[what]
        ntaps = cnt if what == 'taps' else (2 if what != 'K' else 3)
        nr = cnt if what == 'antennas' else 1
        k = cnt if what == 'K' else ntaps - 1
        cover = [1 if rr.randint(0, 2) else -1 for _ in range(cnt)] if what == 'slots' else None
        spec = {'u': 5, 'size': n, 'nzc': None, 'ncs': 2, 'D': 12, 'cover': cover, 'norm': int(rr.randint(0, 2))}
        ue = b.impl_ue(spec)
        h = (rr.randint(-3, 4, size=(nr, ntaps)) + 1j * rr.randint(-3, 4, size=(nr, ntaps))).astype(complex)
        h[:, -1] += 1 + 1j
        truth = b.true_response(h, n)
        x = np.asarray(ue.seq_array())
        if cover is None:
            y = truth * x[None, :]
            out = ce.CazacBasedChannelEstimator(ue, 1).estimate_channel_freq_domain(y, k)
        else:
            y = truth[:, None, :] * x[None, :, :]
            out = ce.CazacBasedWithOCCChannelEstimator(ue).estimate_channel_freq_domain(y, k)
        mag = float(np.max(np.abs(truth)))
        d = float(np.max(np.abs(out - truth)))
        return None if d <= (1e-9 + 64 * b.seq_tol(5, n)) * mag else (cls, 'max |H_est - H| = %.3e (|H| <= %.3g)' % (d, mag))
    # LS
    nt = 2
    nreal = cnt if what == 'ls-realizations' else 2
    nr = cnt if what == 'ls-antennas' else 2
    npil = cnt if what == 'ls-pilots' else 4
    while True:
        s = (rr.randint(-3, 4, size=(nt, npil)) + 1j * rr.randint(-3, 4, size=(nt, npil))).astype(complex)
        g = s @ s.conj().T
        if abs(np.linalg.det(g)) > 0.5 and np.linalg.cond(g) < 1e4:
            break
    h = (rr.randint(-3, 4, size=(nreal, nr, nt)) + 1j * rr.randint(-3, 4, size=(nreal, nr, nt))).astype(complex)
    out = est.compute_ls_estimation(h @ s, s)
    d = float(np.max(np.abs(out - h)))
    return None if d <= 1e-8 * float(np.max(np.abs(h))) else (cls, 'max |H_est - H| = %.3e' % d)


ORACLES = {
    'argument forms': o_argument_forms,
    'index arguments': o_index_arguments,
    'mixed element types': o_mixed_dtypes,
    'cell operations': o_cell_operations,
    'estimator copies': o_estimator_copies,
    'construction order': o_construction_order,
    'compute_ls_estimation order': o_ls_order,
    'counts': o_counts,
}


# ------------------------------------------------------------------ generators
def gen_form_case(rng):
    b = B()
    form = rng.choice(ROOT_FORMS + UE_FORMS + EST_FORMS + LS_FORMS)
    if form.startswith('ls:'):
        ls = b.gen_ls_case(rng)
        ls['shape'] = '3d-shared'
        while len(ls['H']) < 2:
            ls['H'].append(ls['H'][0])
        return {'form': form, 'ls': ls}
    spec = b.ue_spec_random(rng, small=True)
    if form in ('root:nzc-only', 'root:size-None'):
        spec['nzc'] = spec['size'] if spec['size'] > 24 else spec['size']
        spec['u'] = min(spec['u'], spec['nzc'] - 1)
    if form == 'root:explicit-default-nzc':
        spec['nzc'] = None
        lim = b.largest_prime_le(spec['size']) if spec['size'] > 24 else 30
        spec['u'] = min(spec['u'], lim - 1)
    if form.startswith('occ:') or (form == 'est:keywords' and rng.chance(0.3)):
        spec['D'] = 12
        spec['cover'] = [rng.choice([1, -1])] if form == 'occ:single-slot' else [rng.choice([1, -1]) for _ in range(
            rng.randint(1, 3))]
    elif form.startswith('est:'):
        spec['cover'] = None
    elif spec['cover'] is not None:
        spec['cover'] = [rng.choice([1, -1, 2, -3]) for _ in spec['cover']]
    if spec['cover'] is not None:
        spec['D'] = 12
    n = spec['size']
    return {'form': form, 'ue': spec, 'm': rng.choice([1, 2, 3]), 'K': rng.choice([0, 1, 3, n // 8, n - 1, n + 3]),
            'nr': rng.choice([0, 0, 1, 3]), 'seed': rng.below(2 ** 31)}


def gen_index_case(rng, quick=True):
    b = B()
    what = rng.choice(['u', 'nzc', 'ncs', 'K', 'm', 'position', 'K'])
    ty = rng.choice(IDX_TYPES)
    big = rng.chance(0.3)
    spec = b.ue_spec_random(rng, small=True)
    spec['types'] = None
    if spec['cover'] is not None:
        spec['cover'] = [rng.choice([1, -1]) for _ in spec['cover']]
    if big:
        spec['size'] = rng.choice([600, 900, 1200])
        spec['nzc'] = None
        spec['u'] = rng.randint(257, b.largest_prime_le(spec['size']) - 1)
    if what == 'nzc' and spec['size'] > 24:
        spec['nzc'] = b.largest_prime_le(spec['size']) if not big else rng.choice([257, 509, 599])
        spec['u'] = min(spec['u'], spec['nzc'] - 1)
    if ty == 'bool':
        # a bool is meaningful as a count / shift of 0 or 1, not as a root index ('True' is no table key),
        # a base length or a position (numpy reads True as a mask)
        if what == 'ncs':
            spec['ncs'] = rng.below(2)
        elif what in ('u', 'nzc', 'position'):
            ty = 'intp'
    n = spec['size']
    k = rng.choice([0, 3, n // 4, n - 1]) if not big else rng.choice([257, 258, 300, n - 1])
    m = rng.choice([1, 2, 3])
    if ty == 'bool':
        k, m = rng.below(2), 1
    return {'ue': spec, 'type': ty, 'what': what, 'big': big, 'K': k, 'm': m, 'seed': rng.below(2 ** 31),
            'positions': [0, 1, n - 1, -1, -n, n // 2] + ([256, 257, 300, n - 257] if big else [])}


def gen_mixed_case(rng):
    return {'n': rng.choice([12, 24, 31, 48]), 'nr': rng.choice([0, 1, 3]), 'K': rng.choice([0, 2, 7, 40]),
            'm': rng.choice([1, 2]), 'seed': rng.below(2 ** 31),
            'reftype': rng.choice(['int8', 'int16', 'int64', 'complex64', 'complex128']),
            'ytype': rng.choice(['float32', 'float64', 'complex64', 'complex128', 'int16', 'uint8', 'int64'])}


def gen_ls_mixed(rng):
    b = B()
    case = b.gen_ls_case(rng)
    yd = rng.choice(['float32', 'float64', 'complex64', 'complex128', 'int16', 'int64'])
    sd = rng.choice(['float32', 'float64', 'complex64', 'complex128', 'int16', 'int64'])
    while sd == yd:
        sd = rng.choice(['float32', 'float64', 'complex64', 'complex128', 'int32'])
    var = {'ydtype': yd, 'sdtype': sd}
    if b.ls_is_real(var):
        def real_ok(c):
            for s_ in c['S']:
                a = np.array([[v[0] for v in row] for row in s_], dtype=float)
                g = a @ a.T
                if not (abs(np.linalg.det(g)) > 0.5 and np.linalg.cond(g) < 1e4):
                    return False
            return True
        while not real_ok(case):
            case = b.gen_ls_case(rng)
    case['variant'] = var
    return case


def gen_cell_ops(rng, nops=None):
    hist = R().gen_history(rng, True)
    ops = []
    nusers = 0
    for op in hist['ops']:
        o = dict(op, op='build')
        o.pop('taps', None)
        if rng.chance(0.2):
            o['root_copy'] = rng.choice(['copy', 'deepcopy', 'pickle'])
        ops.append(o)
        if op['ncs'] < op['D']:
            nusers += 1
        if rng.chance(0.6):
            ops.append({'op': 'query', 'names': [rng.choice(QUERIES) for _ in range(rng.randint(1, 6))]})
        if nusers and rng.chance(0.4):
            ops.append({'op': 'copy', 'j': rng.below(nusers + 1), 'how': rng.choice(['copy', 'deepcopy', 'pickle'])})
            if ops[-1]['j'] < nusers:
                nusers += 1
    ops.append({'op': 'query', 'names': list(QUERIES)})
    return {'root': hist['root'], 'ops': ops}


def gen_order_case(rng):
    b = B()
    d = rng.choice([8, 12])
    size = rng.choice([s for s in (24, 48, 72, 96, 120, 144) if s % d == 0])
    lim = b.largest_prime_le(size) if size > 24 else 30
    nu = rng.randint(2, min(d, 6))
    shifts = list(range(d))
    rng.shuffle(shifts)
    nr = rng.choice([2, 3, 4])
    users = [{'D': d, 'ncs': shifts[i], 'norm': rng.below(2), 'cover': None,
              'taps': b.rnd_taps(rng, nr, rng.randint(1, size // d))} for i in range(nu)]
    perm = list(range(nu))
    while perm == list(range(nu)):
        rng.shuffle(perm)
    rows = list(range(nr))
    rng.shuffle(rows)
    return {'root': {'u': rng.randint(1, lim - 1), 'size': size, 'nzc': None}, 'users': users, 'perm': perm,
            'row_perm': rows, 'm': rng.choice([1, 2])}


def gen_ls_order(rng):
    b = B()
    ls = b.gen_ls_case(rng)
    while len(ls['H']) < 3:
        ls['H'].append([[[rng.randint(-3, 3), rng.randint(-3, 3)] for _ in row] for row in ls['H'][0]])
    nreal, nr, npil = len(ls['H']), len(ls['H'][0]), len(ls['S'][0][0])

    def perm(n):
        p = list(range(n))
        rng.shuffle(p)
        return p
    return {'ls': ls, 'perm_real': perm(nreal), 'perm_ant': perm(nr), 'perm_pil': perm(npil)}


def gen_est_copy(rng):
    b = B()
    spec = b.ue_spec_random(rng, small=True)
    spec['nzc'] = None
    if spec['cover'] is not None:
        spec['cover'] = [rng.choice([1, -1]) for _ in spec['cover']]
    return {'ue': spec, 'm': rng.choice([1, 2]), 'K': rng.choice([0, 2, 5, spec['size']]),
            'how': rng.choice(['copy', 'deepcopy', 'pickle', 'second-estimator']), 'seed': rng.below(2 ** 31)}


# ------------------------------------------------------------------ oracle runs
def oracle_runs(ctx, quick):
    b = B()
    rng = ctx.rng
    run = b.run_oracle
    for _ in range(120 if quick else 2500):
        run(ctx, 'argument forms', gen_form_case(rng))
        ctx.branch('oracle:R8')
    for _ in range(80 if quick else 1500):
        c = gen_index_case(rng, quick)
        run(ctx, 'index arguments', c)
        ctx.branch('oracle:R9')
        if c['big']:
            ctx.branch('oracle:R9:>256')
    for _ in range(40 if quick else 800):
        run(ctx, 'mixed element types', gen_mixed_case(rng))
        run(ctx, 'compute_ls_estimation', gen_ls_mixed(rng))
        ctx.branch('oracle:R10')
    for _ in range(50 if quick else 1000):
        c = gen_cell_ops(rng)
        run(ctx, 'cell operations', c)
        ctx.branch('oracle:R11')
        if any(o['op'] == 'copy' or o.get('root_copy') for o in c['ops']):
            ctx.branch('oracle:R13')
    for _ in range(30 if quick else 600):
        run(ctx, 'estimator copies', gen_est_copy(rng))
        ctx.branch('oracle:R13')
    for _ in range(30 if quick else 600):
        run(ctx, 'construction order', gen_order_case(rng))
        run(ctx, 'compute_ls_estimation order', gen_ls_order(rng))
        ctx.branch('oracle:R12')
    # R14: one count of each kind per quick run, all of them (and 2^16+1 where cheap) in thorough
    kinds = ['users', 'antennas', 'taps', 'K', 'slots', 'ls-realizations', 'ls-antennas', 'ls-pilots']
    for what in kinds:
        for cnt in ([rng.choice(COUNTS)] if quick else COUNTS):
            run(ctx, 'counts', {'what': what, 'count': cnt, 'seed': rng.below(2 ** 31)}, key=('count', what, cnt))
            ctx.branch('oracle:R14')
    for what in (['K', 'antennas'] if quick else ['K', 'antennas', 'users', 'ls-realizations', 'ls-antennas']):
        run(ctx, 'counts', {'what': what, 'count': 65537, 'seed': rng.below(2 ** 31)}, key=('count', what, 65537))
        ctx.branch('oracle:R14:2^16+1')


# ------------------------------------------------------------------ correspondence
def cellops_line(case):
    b = B()
    toks = []
    for op in case['ops']:
        if op['op'] == 'build':
            toks.append('%d:%d:%d:%s' % (op['D'], op['ncs'], op['norm'],
                                         'none' if op['cover'] is None else '_'.join(str(v) for v in op['cover'])))
        elif op['op'] == 'query':
            toks.append('q')
        else:
            toks.append('c%d' % op['j'])
    return 'cellops u=%d size=%s nzc=%s ops=%s' % (case['root']['u'], b.opt(case['root']['size']),
                                                   b.opt(case['root']['nzc']), ';'.join(toks))


def compare_users(b, u, users, usersm):
    mus = usersm.split('#') if usersm else []
    if len(mus) != len(users):
        return 'model has %d users, the code %d' % (len(mus), len(users))
    for j, (ue, mu) in enumerate(zip(users, mus)):
        flag, rows = mu.split(':', 1)
        arr = np.atleast_2d(np.asarray(ue.seq_array()))
        mrows = b.parse_crows(rows)
        scale = max(float(np.max(np.abs(mrows))), 1e-300)
        if (flag == 'n1') != bool(ue.normalized) or b.max_diff(arr, mrows) > b.seq_tol(u, arr.shape[1]) * scale:
            return 'user %d differs' % j
    return None


def corr_cellops(ctx, drv, n, counts):
    """R11/R13 (+R14): the real objects driven through constructions, read-only calls and copies vs `Cell.runOps`:
    statuses, the observables reported at every query, the root and all users afterwards"""
    b = B()
    cases = [gen_cell_ops(ctx.rng) for _ in range(n)]
    for cnt in counts:
        ops = []
        for i in range(cnt):
            ops.append({'op': 'build', 'D': 8 if i % 3 else 12, 'ncs': i % 8, 'norm': (i // 2) % 2, 'cover': None})
            if i % 97 == 0:
                ops.append({'op': 'query', 'names': ['root.Nzc', 'ue.shape']})
        cases.append({'root': {'u': 3, 'size': 24, 'nzc': None}, 'ops': ops, 'count': cnt})
    out = drv.ask([cellops_line(c) for c in cases])
    hows = {'copy': copy.copy, 'deepcopy': copy.deepcopy, 'pickle': lambda o: pickle.loads(pickle.dumps(o))}
    for c, mo in zip(cases, out):
        rs = c['root']
        root = b.impl_root(rs['u'], rs['size'], rs['nzc'])
        users, shown = [], []
        for op in c['ops']:
            if op['op'] == 'build':
                try:
                    src = hows[op['root_copy']](root) if op.get('root_copy') else root
                    users.append(b.make_ue(src, op))
                    shown.append('ok')
                except AssertionError as e:
                    shown.append(b.err_name(e))
            elif op['op'] == 'query':
                do_queries(root, users, op['names'])
                o = observe_cell(root, users)
                shown.append('q=%d/%d/%d/%s' % (o[0][0], o[0][1], o[0][2], '+'.join(
                    '%s.%dx%d' % ('n1' if nrm else 'n0', shp[0], shp[1]) for nrm, shp in o[1])))
            else:
                if op['j'] < len(users):
                    users.append(hows[op['how']](users[op['j']]))
                    shown.append('ok')
                else:
                    shown.append('error:IndexError')
        head, rest = mo.split(' root=')
        rootph, usersm = rest.split(' users=')
        key = ('cellops', repr(c)[:200], len(c['ops']))
        ok = ctx.corr('cell-operations.status+observables', c if len(c['ops']) < 40 else {'count': c.get('count')},
                      ','.join(shown), head, key=key)
        ctx.branch('corr:R11')
        if any(o['op'] == 'copy' or o.get('root_copy') for o in c['ops']):
            ctx.branch('corr:R13')
        if c.get('count'):
            ctx.branch('corr:R14')
        if not ok:
            continue
        small = c if len(c['ops']) < 40 else {'count': c.get('count')}
        b.corr_close(ctx, 'cell-operations.root-afterwards', small, np.asarray(root.seq_array()),
                     b.phases_to_values(rootph.split(',')), b.seq_tol(rs['u'], root.Nzc))
        bad = compare_users(b, rs['u'], users, usersm)
        ctx.corr('cell-operations.users-afterwards', small, bad or 'equal', 'equal')


def corr_order(ctx, drv, n):
    """R12: the code builds the users in one order, the model in another; matched by configuration they agree"""
    b = B()
    cases = [gen_order_case(ctx.rng) for _ in range(n)]
    lines = []
    for c in cases:
        ops = ';'.join('%d:%d:%d:none' % (c['users'][i]['D'], c['users'][i]['ncs'], c['users'][i]['norm'])
                       for i in c['perm'])
        lines.append('cell u=%d size=%d nzc=none ops=%s' % (c['root']['u'], c['root']['size'], ops))
    out = drv.ask(lines)
    for c, mo in zip(cases, out):
        root = b.impl_root(c['root']['u'], c['root']['size'], None)
        users = [b.make_ue(root, s_) for s_ in c['users']]            # order 0..n-1
        usersm = mo.split(' users=')[1].split('#')                    # order perm
        reordered = [None] * len(users)
        for pos, i in enumerate(c['perm']):
            reordered[i] = usersm[pos]
        bad = compare_users(b, c['root']['u'], users, '#'.join(reordered))
        ctx.corr('cell-history.order', c, bad or 'equal', 'equal')
        ctx.branch('corr:R12')


def corr_forms(ctx, drv, n):
    """R8/R9/R10: the object / call made through an alternative argument form or with another integer flavour
    vs the model on the logical value"""
    b = B()
    ce = b._impl()[4]
    rng = ctx.rng
    lines, todo = [], []
    for _ in range(n):
        kind = rng.choice(['ue-form', 'ue-form', 'est-form', 'index', 'index', 'mixed'])
        if kind == 'ue-form':
            c = gen_form_case(rng)
            while c['form'] not in UE_FORMS[:4]:
                c = gen_form_case(rng)
            lines.append('ue ' + b.ue_tokens(c['ue']))
            todo.append(('R8', 'UeSequence:' + c['form'], c, lambda c=c: np.atleast_2d(alt_ue(c['ue'], c['form']))))
        elif kind == 'est-form':
            c = gen_form_case(rng)
            while c['form'] not in ('est:keywords', 'est:call-keywords', 'est:default-m') or c['ue']['cover'] is not None:
                c = gen_form_case(rng)
            spec, k, nr = c['ue'], c['K'], c['nr']
            m = 2 if c['form'] == 'est:default-m' else c['m']
            y = R().rnd_y(c['seed'], (spec['size'],) if nr == 0 else (nr, spec['size']), 'complex128')
            lines.append('est %s m=%d K=%d dim=%d Y=%s' % (b.ue_tokens(spec), m, k, y.ndim, R().y_line(y)))

            def call(c=c, y=y, m=m, k=k):
                ue = b.impl_ue(c['ue'])
                if c['form'] == 'est:default-m':
                    return ce.CazacBasedChannelEstimator(ue).estimate_channel_freq_domain(y, k)
                if c['form'] == 'est:keywords':
                    return ce.CazacBasedChannelEstimator(ue_ref_seq=ue, size_multiplier=m).estimate_channel_freq_domain(y, k)
                return ce.CazacBasedChannelEstimator(ue, m).estimate_channel_freq_domain(num_taps_to_keep=k,
                                                                                          received_signal=y)
            todo.append(('R8', 'estimate:' + c['form'], c, call))
        elif kind == 'index':
            c = gen_index_case(rng)
            while c['what'] == 'position' or c['ue']['cover'] is not None:
                c = gen_index_case(rng)
            spec = c['ue']
            if c['what'] in ('u', 'nzc', 'ncs'):
                lines.append('ue ' + b.ue_tokens(spec))
                todo.append(('R9', 'UeSequence:index-type', c, lambda c=c: np.atleast_2d(np.asarray(
                    b.impl_ue(dict(c['ue'], types={c['what']: c['type']})).seq_array()))))
            else:
                y = R().rnd_y(c['seed'], (spec['size'],), 'complex128')
                lines.append('est %s m=%d K=%d dim=1 Y=%s' % (b.ue_tokens(spec), c['m'], c['K'], R().y_line(y)))

                def call(c=c, y=y):
                    ue = b.impl_ue(c['ue'])
                    if c['what'] == 'K':
                        return ce.CazacBasedChannelEstimator(ue, c['m']).estimate_channel_freq_domain(
                            y, b.tint(c['K'], c['type']))
                    return ce.CazacBasedChannelEstimator(ue, b.tint(c['m'], c['type'])).estimate_channel_freq_domain(
                        y, c['K'])
                todo.append(('R9', 'estimate:index-type', c, call))
        else:
            c = gen_mixed_case(rng)
            rr = np.random.RandomState(c['seed'])
            if c['reftype'] in R().INT_TYPES:
                ref = (1 - 2 * rr.randint(0, 2, size=c['n'])).astype(c['reftype'])
            else:
                ref = np.exp(2j * np.pi * rr.randint(0, 8, size=c['n']) / 8).astype(c['reftype'])
            y = R().rnd_y(c['seed'] + 1, (c['n'],) if c['nr'] == 0 else (c['nr'], c['n']), c['ytype'])
            lines.append('est ref=%s m=%d K=%d dim=%d Y=%s' % (b.clist(ref.astype(complex)), c['m'], c['K'], y.ndim,
                                                              R().y_line(y)))
            todo.append(('R10', 'estimate:mixed-dtypes', c, lambda c=c, ref=ref, y=y: ce.CazacBasedChannelEstimator(
                ref, c['m']).estimate_channel_freq_domain(y, c['K'])))
    out = []
    for i in range(0, len(lines), 80):
        out += drv.ask(lines[i:i + 80])
    for (cls, name, c, fn), mo in zip(todo, out):
        ctx.branch('corr:' + cls)
        try:
            res = np.asarray(fn())
        except Exception as e:
            ctx.corr(name, c, b.err_name(e), mo[:60])
            continue
        if mo.startswith('error:') or mo == 'bad-op':
            ctx.corr(name, c, 'value', mo)
            continue
        mv = b.parse_clist(mo) if res.ndim == 1 else b.parse_crows(mo)
        u = c['ue']['u'] if 'ue' in c else 1
        # a single-precision result (both arguments of 32-bit element types) is compared at that precision
        single = res.dtype == np.complex64
        ok, d, mag = R().rel_close(res, mv, 2e-5 if single else 1e-9 + 64 * b.seq_tol(u, res.shape[-1]))
        ctx.corr(name, c, 'close' if ok else 'maxdiff=%.3e magnitude=%.3e' % (d, mag), 'close')


def corr_ls_mixed(ctx, drv, n):
    b = B()
    est = b._impl()[5]
    lines, todo = [], []
    for _ in range(n):
        case = gen_ls_mixed(ctx.rng)
        hs, ss, var = b.ls_arrays(case)
        h = hs[0].real + 0j if b.ls_is_real(var) else hs[0]
        s_ = ss[0].real + 0j if b.ls_is_real(var) else ss[0]
        ya, sa = b.ls_cast(h @ s_, var, 'y'), b.ls_cast(s_, var, 's')
        yl, sl = np.asarray(ya).astype(complex), np.asarray(sa).astype(complex)
        lines.append('ls nr=%d nt=%d np=%d Y=%s S=%s' % (
            yl.shape[0], sl.shape[0], sl.shape[1],
            '|'.join(','.join(R().frac(z.real) + ':' + R().frac(z.imag) for z in row) for row in yl),
            '|'.join(','.join(R().frac(z.real) + ':' + R().frac(z.imag) for z in row) for row in sl)))
        todo.append((case, ya, sa, var))
    # R14: many antennas and pilots, exact rational model
    rr = np.random.RandomState(ctx.rng.u64() % (2 ** 32))
    cnt = ctx.rng.choice(COUNTS)
    while True:
        s = rr.randint(-2, 3, size=(2, cnt)) + 1j * rr.randint(-2, 3, size=(2, cnt))
        if abs(np.linalg.det(s @ s.conj().T)) > 0.5:
            break
    h = rr.randint(-2, 3, size=(cnt, 2)) + 1j * rr.randint(-2, 3, size=(cnt, 2))
    y = h @ s
    lines.append('ls nr=%d nt=2 np=%d Y=%s S=%s' % (
        cnt, cnt, '|'.join(','.join('%d/1:%d/1' % (int(z.real), int(z.imag)) for z in row) for row in y),
        '|'.join(','.join('%d/1:%d/1' % (int(z.real), int(z.imag)) for z in row) for row in s)))
    todo.append(({'count': cnt}, y.astype(complex), s.astype(complex), {}))
    out = drv.ask(lines)
    from fractions import Fraction
    for (case, ya, sa, var), mo in zip(todo, out):
        ctx.branch('corr:R14' if 'count' in case else 'corr:R10')
        try:
            res = np.asarray(est.compute_ls_estimation(ya, sa))
        except Exception as e:
            ctx.corr('compute_ls_estimation:mixed', case, b.err_name(e), mo[:40])
            continue
        if not mo.startswith('inv-ok '):
            ctx.corr('compute_ls_estimation:mixed', case, 'regular', mo[:40])
            continue
        mv = np.array([[complex(Fraction(t.split(':')[0]), Fraction(t.split(':')[1])) for t in r.split(',')]
                       for r in mo[len('inv-ok '):].split('|')])
        ok, d, mag = R().rel_close(res, mv, 2e-2 if b.ls_is_narrow(var) else 1e-8)
        ctx.corr('compute_ls_estimation:mixed', case, 'close' if ok else 'maxdiff=%.3e magnitude=%.3e dtype=%s' % (
            d, mag, res.dtype), 'close')


def corr_counts(ctx, drv, quick):
    """R14: 257/258/300 receive antennas and cover-code slots, K = 2^16+1, through the model"""
    b = B()
    ce = b._impl()[4]
    rng = ctx.rng
    nprng = np.random.RandomState(rng.u64() % (2 ** 32))
    cnt = rng.choice(COUNTS)
    spec = {'u': 7, 'size': 12, 'nzc': None, 'ncs': 5, 'D': 12, 'cover': None, 'norm': 1}
    y = nprng.randn(cnt, 12) + 1j * nprng.randn(cnt, 12)
    cov = [1 if nprng.randint(0, 2) else -1 for _ in range(cnt)]
    spec2 = dict(spec, cover=cov, norm=0)
    y2 = nprng.randn(cnt, 12) + 1j * nprng.randn(cnt, 12)
    y3 = nprng.randn(24) + 1j * nprng.randn(24)
    spec3 = dict(spec, size=24)
    lines = ['est %s m=2 K=3 dim=2 Y=%s' % (b.ue_tokens(spec), R().y_line(y)),
             'occ %s K=4 dim=2 extra=1 Y=%s' % (b.ue_tokens(spec2), R().y_line(y2)),
             'est %s m=1 K=65537 dim=1 Y=%s' % (b.ue_tokens(spec3), R().y_line(y3))]
    out = drv.ask(lines)
    calls = [('antennas=%d' % cnt, lambda: ce.CazacBasedChannelEstimator(b.impl_ue(spec), 2).estimate_channel_freq_domain(y, 3)),
             ('slots=%d' % cnt, lambda: ce.CazacBasedWithOCCChannelEstimator(b.impl_ue(spec2)).estimate_channel_freq_domain(y2, 4)),
             ('K=65537', lambda: ce.CazacBasedChannelEstimator(b.impl_ue(spec3), 1).estimate_channel_freq_domain(y3, 65537))]
    for (name, fn), mo in zip(calls, out):
        ctx.branch('corr:R14')
        try:
            res = np.asarray(fn())
        except Exception as e:
            ctx.corr('estimate:count', {'count': name}, b.err_name(e), mo[:40])
            continue
        mv = b.parse_clist(mo) if res.ndim == 1 else b.parse_crows(mo)
        ok, d, mag = R().rel_close(res, mv, 1e-9)
        ctx.corr('estimate:count', {'count': name}, 'close' if ok else 'maxdiff=%.3e magnitude=%.3e' % (d, mag), 'close')


def correspondence(ctx, drv, quick):
    corr_cellops(ctx, drv, 40 if quick else 800, [ctx.rng.choice(COUNTS)] if quick else COUNTS)
    corr_order(ctx, drv, 30 if quick else 600)
    corr_forms(ctx, drv, 120 if quick else 2000)
    corr_ls_mixed(ctx, drv, 40 if quick else 800)
    corr_counts(ctx, drv, quick)


REQUIRED = ['corr:R%d' % k for k in range(8, 15)] + ['oracle:R%d' % k for k in range(8, 15)] + [
    'oracle:R9:>256', 'oracle:R14:2^16+1']


def search(ctx):
    rng = ctx.rng
    b = B()
    for name, gen, n in (('argument forms', gen_form_case, 600), ('index arguments', gen_index_case, 400),
                         ('mixed element types', gen_mixed_case, 200), ('compute_ls_estimation', gen_ls_mixed, 200),
                         ('cell operations', gen_cell_ops, 300), ('estimator copies', gen_est_copy, 200),
                         ('construction order', gen_order_case, 200), ('compute_ls_estimation order', gen_ls_order, 200)):
        for _ in range(n):
            b.run_oracle(ctx, name, gen(rng))
