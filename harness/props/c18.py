"""C18 — reference sequences are CAZAC; pilot-based channel estimation is exact
(DESIGN.md §5 C18).

Ties to the source
  * Generated/PrimeTable.lean (`_SMALL_PRIME_LIST`) and Generated/C18RootTables.lean
    (`ROOT_TABLE1/2`) are re-emitted from root_sequence.py on every run; the
    prime-selection theorems are stated about the generated table.
  * everything else (RootSequence.__init__, get_extended_ZF, calcBaseZC,
    get_shifted_root_seq, Srs/DmrsUeSequence, the CAZAC estimators,
    compute_ls_estimation) is a hand model (lean/PyPhysim/Model/C18.lean) tied
    by the correspondence below: exact on integers / error kinds / exact rational
    phases, tolerance only where the code evaluates exp / FFT / inv in binary64.
"""
import math
from fractions import Fraction

import numpy as np

from harness import core

MODULE = 'PyPhysim.Properties.C18'
DRIVER = 'drv_c18'

CLAIM = {
    'technique': 'Lean 4 proof over C (roots of unity, geometric sums, DFT) + kernel-decided prime table + '
                 'formulas regenerated from the AST with bridge theorems + differential correspondence',
    'text': 'For the model of the reference-signal code: the prime table regenerated from the source selects the '
            'largest prime <= size for every size 2..1200 (decide +kernel + Nat.Prime specification); '
            'RootSequence(u, size) for every size 25..1200 and 0 < u < Nzc is the cyclically repeated Zadoff-Chu '
            'sequence of that prime length with unit amplitude, zero cyclic autocorrelation at every non-zero lag '
            'and flat spectrum; shifted user sequences are orthogonal whenever D | length; the CAZAC estimators '
            '(plain, comb, cover code; any number of antennas; normalised or not; extra_dimension layouts) return '
            'exactly the frequency response of every channel that fits the kept taps, also in the presence of any '
            'number of users on other cyclic shifts whose delay spread fits one shift window (or, with cover '
            'codes, users with an orthogonal cover code); the LS estimator is exact for every pilot matrix of full '
            'row rank. All statements are for all inputs (no size bound) over C; the model is tied to the code by '
            'the generated tables, by the sequence / estimator FORMULAS regenerated from the current AST '
            '(Generated/C18Formulas.lean: Zadoff-Chu phase, cyclic-shift phase ramp and the SRS/DMRS denominators, '
            'get_extended_ZF with Python slice and // semantics, the size rule of RootSequence.__init__ and the '
            'table phase step, IFFT size / kept taps / FFT size / normalisation factor of the CAZAC estimator) '
            'which theorems generated_zc_phase, generated_shift_phase, generated_extension, generated_size_rule, '
            'generated_estimator_sizes, generated_formulas_match_model prove equal to the hand model for all '
            'arguments over R / Z, and by seeded exact/1e-9 correspondence on every run.',
    'note': 'Trusted for the regenerated formulas: the symbolic executor of harness/gen/c18f.py (it reads '
            'np.exp(1j*ph) as the unit-modulus array with phase ph, np.arange(N) as the index, np.exp(..)*root_seq '
            'as the elementwise product, [..]*k / append / hstack / a[0:e] as list operations with Python semantics '
            '(Model/C18Py.lean), drops asserts, executes private helpers in place; everything that is only equal '
            'over R or Z is left to the bridge theorems); q of calcBaseZC is a parameter of the generated phase, '
            'the bridge is at q = 0. np.fft.fft/ifft are replaced by their defining DFT sums and np.linalg.norm/inv by parameters with a '
            'contract (all three checked numerically per run); binary64 rounding (exp of large arguments, FFT) is '
            'outside the theorems: sequence values are compared with tolerance 1e-12 + 16*eps*|argument|, estimator '
            'outputs with 1e-9 RELATIVE to the magnitude of the result (no absolute floor). Root index 0 (all-ones '
            'sequence, accepted by the code) is outside the CAZAC clause (theorem zc_root_zero_not_cazac); negative '
            'cyclic shifts and the q parameter of calcBaseZC are not modelled. Robustness classes: R3/R4/R7 for '
            'the shared RootSequence object are theorems on the cell state machine (cell_root_unchanged, '
            'cell_users_fresh, cell_rejected_noop, cell_statuses: any history of user constructions leaves the root '
            'and earlier users unchanged, equals fresh constructions, rejected constructions are no-ops) tied by '
            'the cell-history correspondence; R6 by theorem estimate_homogeneous plus the exactness theorems being '
            'for all tap values, R5 by the theorems quantifying over all K, m >= 1, lengths >= 1, shifts < D '
            '(boundary values are instances) — all additionally exercised by correspondence and oracles; R1 '
            '(element types: numpy scalar ints of every width for u/Nzc/n_cs/K/size_multiplier, np.bool_ normalize, '
            'cover-code dtypes, int/float32/complex64 observation and pilot arrays) and R2 (Fortran / strided / '
            'reversed / offset / read-only / stride-0 views, (1,N), zero antennas, 0-d) have no model-level '
            'statement (the model is a function of the logical value only) and are covered by correspondence '
            '(model on the logical value vs code on the variant) and oracles only, as are R3/R4/R7 for estimator '
            'objects (inputs never modified, results independent and stable, rejected calls leave the object '
            'unchanged, every call equals a fresh estimator on the contiguous complex128 twin). An explicit type '
            'guard of the library is kept as is: RootSequence asserts isinstance(size, int), so a numpy integer '
            'size is rejected with AssertionError; DmrsUeSequence sets cover_code.flags.writeable = False on the '
            'caller\'s array (values unchanged). Second robustness round: R8 (argument forms: positional / keyword '
            '/ default / explicit default for every parameter of RootSequence, Srs/DmrsUeSequence, both estimators, '
            'calcBaseZC, get_*_seq, get_extended_ZF, compute_ls_estimation; equivalent entry points get_srs_seq = '
            'get_dmrs_seq = get_shifted_root_seq, RootSequence = calcBaseZC + get_extended_ZF, Nzc-only = size+Nzc, '
            'default Nzc = explicit prime, UeSequence vs raw-array reference, extra_dimension layouts, one-slot cover '
            'code = plain estimator, 3-D LS = loop of 2-D, indexing / conj / + / * helpers) by theorems '
            'root_sequence_nzc_only, root_sequence_default_nzc, estimator_normalised_flag, occ_flat_layout plus '
            'correspondence and oracle; there is no setter path in this API. R9 (np.int8..np.uint64, np.intp, 0-d '
            'arrays, bool for 0/1 shifts and counts, values above 256 for root index / Nzc / K / positions) and R10 '
            '(reference, observation, cover code, Y_p and s of different element types; the API takes no '
            'list-of-arrays argument, so heterogeneity exists only across arguments) by correspondence and oracle '
            'only (the model is a function of the logical value). R11 (every read-only accessor / helper / repr '
            'inside the histories) by theorems cell_queries_transparent, cell_ops_stable + correspondence (cellops '
            'driver op reports the observables at every query) + oracle. R12 (order in which users are built on a '
            'shared root, order of the superposition, of antennas, realizations and pilots; the phase tables are '
            'dicts read by key only) by theorem cell_users_order_independent + correspondence + oracle. R13 '
            '(copy.copy / deepcopy / pickle round trips of users, roots and estimators, users built from a copied '
            'root, two estimators on one user; deep copies are overwritten and the originals must not notice) by '
            'theorem cell_copy + correspondence + oracle; the library has no save/load or to_dict for these '
            'objects. R14 (257 / 258 / 300 users on one root, receive antennas, cover-code slots, channel taps, LS '
            'realizations / antennas / pilots; 65537 kept taps and antennas) by correspondence and oracle, the '
            'theorems having no size bound. A library exception inside a correspondence is a broken tie followed by '
            'the failing-input search (exit 1), never exit 2. Third robustness round: R15 (distinct values that are '
            'merely close — one estimator object asked about observations that differ by 2^-20 relative / one unit in '
            'the last place / the 13th decimal / 1e-9 absolute, magnitudes 1e-9, 4e-12, 4e-13, 1e-15 and 2.4e9 vs '
            '2.4e9+2e4 one after the other, adjacent K; channels with taps 2^-30 below the main tap, pairs of channels '
            'that differ by 2^-20 in one tap; pilot matrices whose Gram matrix is a multiple of the identity up to '
            '2^-20 / 2^-32, nearly parallel pilot rows with a tolerance of 64 eps cond(S S^H) as the margin of the '
            'near-tie, channel and pilot matrices that differ by 2^-20; raw reference arrays of norm 1 or 1 + 2^-20 that '
            'are not flagged normalised; cover codes 2^-20 or one ulp away from +-1): theorems prime_lookup_exact, '
            'prime_lookup_at_prime (the only value lookup of the model), cazac_estimate_separates, ls_separates '
            '(channels that differ by any amount get different estimates) + correspondence + oracle (bitwise equal '
            'to a fresh object on a copy, first-principles DFT sums / true response / H to 1e-11 / 1e-12 relative); '
            'the code has no setter, cache or value-keyed lookup besides the prime table, so the rest of R15 is '
            'checked as "every value gets its own result". R16 (argument identity and buffer reuse — one '
            'preallocated array refilled in place between 2-4 calls, equal-content arrays that are other objects, '
            'the argument overwritten right after the call, the same array object in two roles, for both '
            'estimators in every layout, the raw-array reference, compute_ls_estimation 2-D / 3-D, get_extended_ZF, '
            'get_shifted_root_seq / get_srs_seq / get_dmrs_seq, the + * [] helpers, DmrsUeSequence(cover_code), '
            'CazacBasedChannelEstimator(<ndarray>)): theorems buffer_history_eq_fresh_calls, '
            'buffer_earlier_results_kept, buffer_equal_content_refill on the state machine Cazac.BufState (the '
            'callee sees the contents at call time), estimate_same_array_two_roles, ls_same_array + correspondence '
            '(driver op buf runs BufState.run with the single-call model as callee; the code is called with one '
            'refilled numpy array) + oracle. Known finding of R16: CazacBasedChannelEstimator(<ndarray>) keeps the '
            'caller\'s array object, so estimators built from one refilled reference buffer all follow the buffer '
            '(findings/C18.json).',
}

EPS = 2.0 ** -52


def _impl():
    from pyphysim.reference_signals import root_sequence, zadoffchu, srs, dmrs, channel_estimation
    from pyphysim.channel_estimation import estimators
    return root_sequence, zadoffchu, srs, dmrs, channel_estimation, estimators


# ------------------------------------------------------------------ helpers
def is_prime(n):
    if n < 2:
        return False
    d = 2
    while d * d <= n:
        if n % d == 0:
            return False
        d += 1
    return True


def largest_prime_le(n):
    while n >= 2 and not is_prime(n):
        n -= 1
    return n if n >= 2 else None


def err_name(e):
    return 'error:' + type(e).__name__


def cstr(z):
    return core.f2s(z.real) + ':' + core.f2s(z.imag)


def clist(a):
    return ','.join(cstr(complex(z)) for z in np.asarray(a).ravel())


def parse_c(tok):
    a, b = tok.split(':')
    return complex(core.s2f(a), core.s2f(b))


def parse_clist(s):
    return np.array([parse_c(t) for t in s.split(',') if t], dtype=complex)


def parse_crows(s):
    return np.array([parse_clist(r) for r in s.split('|')], dtype=complex)


def phases_to_values(tokens):
    """exact phases p/q (turns) -> exp(2 pi i p/q), reducing p mod q in integers first"""
    out = np.empty(len(tokens), dtype=complex)
    for i, t in enumerate(tokens):
        p, q = t.split('/')
        p, q = int(p), int(q)
        p %= q
        if 2 * p > q:
            p -= q
        ang = 2.0 * math.pi * p / q
        out[i] = complex(math.cos(ang), math.sin(ang))
    return out


def seq_tol(u, n):
    """the code evaluates exp(-1j*pi*u*n*(n+1)/N): rounding of the argument (<= pi*u*(n+1)) dominates"""
    return 1e-12 + 16 * EPS * math.pi * max(1, u) * (n + 1)


def max_diff(a, b):
    a = np.asarray(a)
    b = np.asarray(b)
    if a.shape != b.shape:
        return float('inf')
    if a.size == 0:
        return 0.0
    return float(np.max(np.abs(a - b)))


def corr_close(ctx, name, case, impl, model, tol, key=None, nontrivial=True):
    """numeric correspondence: equal within tol -> canonical 'close'"""
    d = max_diff(impl, model)
    if d <= tol:
        return ctx.corr(name, case, 'close', 'close', nontrivial=nontrivial, key=key)
    return ctx.corr(name, case, 'maxdiff=%.3e tol=%.1e impl=%s' % (d, tol, str(np.asarray(impl).ravel()[:4])),
                    'model=%s' % str(np.asarray(model).ravel()[:4]), nontrivial=nontrivial, key=key)


def dft_matrix(n_out, n_in, denom, sign=-1.0, step=1):
    """exp(sign*2 pi i (step*f) k / denom), f < n_out, k < n_in, with exact integer reduction of the exponent"""
    f = (np.arange(n_out, dtype=np.int64) * step)[:, None]
    k = np.arange(n_in, dtype=np.int64)[None, :]
    e = (f * k) % denom
    return np.exp(sign * 2j * np.pi * e / denom)


def opt(v):
    return 'none' if v is None else str(v)


# ------------------------------------------------------------------ implementation adapters
INT_TYPES = ['int8', 'uint8', 'int16', 'uint16', 'int32', 'int64']


def tint(v, ty):
    """the integer value v as a Python int (ty None/'int'), as a numpy scalar of the named type (int8 ... uint64,
    intp), as a 0-d integer array ('0d') or as a Python bool ('bool', only for the values 0 and 1)"""
    if v is None or ty in (None, 'int'):
        return v
    if ty == '0d':
        return np.array(v)
    if ty == 'bool':
        return bool(v) if v in (0, 1) else v
    info = np.iinfo(getattr(np, ty))
    if not (info.min <= v <= info.max):
        return v
    return getattr(np, ty)(v)


def tbool(v, ty):
    if ty == 'np.bool_':
        return np.bool_(bool(v))
    return bool(v)


def impl_root(u, size, nzc, types=None):
    """types: optional {'u': <int type name>, 'nzc': ...} (R1: same values, other element types)"""
    rs = _impl()[0]
    types = types or {}
    kw = {'root_index': tint(u, types.get('u'))}
    if size is not None:
        kw['size'] = size
    if nzc is not None:
        kw['Nzc'] = tint(nzc, types.get('nzc'))
    return rs.RootSequence(**kw)


def make_ue(root, spec):
    """Srs/DmrsUeSequence from an EXISTING root object (spec: ncs D cover norm [types])"""
    _, _, srs, dmrs, _, _ = _impl()
    types = spec.get('types') or {}
    ncs = tint(spec['ncs'], types.get('ncs'))
    norm = tbool(spec['norm'], types.get('norm'))
    if spec['D'] == 8:
        assert spec['cover'] is None
        return srs.SrsUeSequence(root, ncs, normalize=norm)
    cover = None
    if spec['cover'] is not None:
        cover = np.array(spec['cover'], dtype=getattr(np, types.get('cover') or 'int64'))
    return dmrs.DmrsUeSequence(root, ncs, cover_code=cover, normalize=norm)


def impl_ue(spec):
    """spec: u size nzc ncs D cover norm [types]  ->  Srs/DmrsUeSequence on a fresh root"""
    return make_ue(impl_root(spec['u'], spec['size'], spec['nzc'], spec.get('types')), spec)


def ue_tokens(spec):
    return 'u=%d size=%s nzc=%s ncs=%d D=%d cover=%s norm=%d' % (
        spec['u'], opt(spec['size']), opt(spec['nzc']), spec['ncs'], spec['D'],
        'none' if spec['cover'] is None else '_'.join(str(c) for c in spec['cover']), spec['norm'])


# ------------------------------------------------------------------ oracles (REAL code, first principles)
def lookup_class(size):
    return 'nzc-not-largest-prime:size>=1013' if size >= 1013 else 'nzc-not-largest-prime:size<1013'


def o_prime_lookup(case):
    """base length = largest prime <= size (independent trial-division primality)"""
    rs = _impl()[0]
    size = int(case['size'])
    exp = largest_prime_le(size)
    got = int(rs.RootSequence._get_largest_prime_lower_than_number(size))
    if got != exp:
        return lookup_class(size), 'lookup(%d)=%d, largest prime <= size is %d' % (size, got, exp)
    if size > 24:
        r = impl_root(int(case.get('u', 1)), size, None)
        if r.Nzc != exp or r.size != size:
            return lookup_class(size), 'RootSequence(size=%d): Nzc=%d size=%d, expected Nzc=%d' % (
                size, r.Nzc, r.size, exp)
    return None


def circ_autocorr(a):
    """R[tau] = sum_n a[(n+tau) mod N] conj(a[n]) by direct summation"""
    n = a.size
    return np.array([np.vdot(a, np.roll(a, -t)) for t in range(n)])


def o_zc_cazac(case):
    """unit amplitude, zero cyclic autocorrelation, flat spectrum of the base ZC sequence; cyclic extension"""
    u, size = int(case['u']), int(case['size'])
    nzc = case.get('nzc')
    r = impl_root(u, size, nzc)
    full = np.asarray(r.seq_array())
    n = r.Nzc
    if full.size != size:
        return 'wrong-size', 'seq_array().size=%d, requested %d' % (full.size, size)
    a = full[:n]
    if np.max(np.abs(np.abs(full) - 1.0)) > 1e-12:
        return 'not-unit-amplitude', 'max | |a|-1 | = %.3e' % np.max(np.abs(np.abs(full) - 1.0))
    idx = np.arange(size) % n
    if not np.array_equal(full, a[idx]):
        i = int(np.nonzero(full != a[idx])[0][0])
        return 'extension-not-cyclic', 'seq[%d] != seq[%d mod %d]' % (i, i, n)
    tol = 64 * seq_tol(u, n) * n + 1e-9 * n
    if case.get('fast'):
        # exhaustive sweeps: R = IDFT(|DFT a|^2) (Wiener-Khinchin) instead of the O(N^2) direct sums
        sp = np.fft.fft(a)
        rr = np.fft.ifft(np.abs(sp) ** 2)
        dev = np.abs(np.abs(sp) ** 2 - n)
        if abs(rr[0] - n) > tol or (n > 1 and np.abs(rr[1:]).max() > tol):
            t = int(np.argmax(np.abs(rr[1:]))) + 1 if n > 1 else 0
            return 'autocorr-nonzero', '|R[%d]| = %.3e (N=%d, u=%d)' % (t, abs(rr[t]), n, u)
        if dev.max() > tol * 4:
            return 'spectrum-not-flat', 'max | |A_k|^2 - N | = %.3e (N=%d, u=%d)' % (dev.max(), n, u)
        return None
    rr = circ_autocorr(a)
    if abs(rr[0] - n) > tol:
        return 'autocorr-nonzero', 'R[0]=%s, expected %d' % (rr[0], n)
    off = np.abs(rr[1:])
    if off.size and off.max() > tol:
        t = int(np.argmax(off)) + 1
        return 'autocorr-nonzero', '|R[%d]| = %.3e (N=%d, u=%d)' % (t, off.max(), n, u)
    spec = dft_matrix(n, n, n) @ a
    dev = np.abs(np.abs(spec) ** 2 - n)
    if dev.max() > tol * 4:
        return 'spectrum-not-flat', 'max | |A_k|^2 - N | = %.3e (N=%d, u=%d)' % (dev.max(), n, u)
    return None


def o_extended(case):
    """get_extended_ZF on an arbitrary integer array: out[i] = root[i mod n], len = size"""
    zc = _impl()[1]
    n, size = int(case['n']), int(case['size'])
    root = np.arange(100, 100 + n)
    out = zc.get_extended_ZF(root, size)
    if out.size != size or not np.array_equal(out, root[np.arange(size) % n]):
        return 'extension-not-cyclic', 'n=%d size=%d -> %s' % (n, size, out[:12])
    return None


def o_shift_orthogonal(case):
    """user sequences on different cyclic shifts are orthogonal when D | size"""
    spec1 = dict(case['ue'])
    spec2 = dict(case['ue'])
    spec2['ncs'] = case['ncs2']
    x1 = np.asarray(impl_ue(spec1).seq_array())
    x2 = np.asarray(impl_ue(spec2).seq_array())
    size = x1.shape[-1]
    ip = np.vdot(x2, x1) if x1.ndim == 1 else np.vdot(x2[0], x1[0])
    scale = 1.0 if spec1['norm'] else float(size)
    tol = (64 * seq_tol(spec1['u'], size) + 1e-10) * scale
    if abs(ip) > tol:
        return 'shifts-not-orthogonal', '|<x_%d, x_%d>| = %.3e (size=%d, D=%d)' % (
            spec1['ncs'], spec2['ncs'], abs(ip), size, spec1['D'])
    return None


def true_response(taps, nsc):
    """H[f] = sum_l h[l] exp(-2 pi i f l / nsc) — direct sum (rows = antennas)"""
    h = np.atleast_2d(np.asarray(taps, dtype=complex))
    return h @ dft_matrix(nsc, h.shape[1], nsc).T


def gtaps(t):
    """[[re,im],...] per antenna -> complex array Nr x L"""
    return np.array([[complex(a, b) for a, b in row] for row in t], dtype=complex)


LAYOUTS = ['C', 'F', 'strided', 'reversed', 'offset', 'readonly']


def relayout(a, layout):
    """the same values in another memory layout (R2)"""
    a = np.asarray(a)
    if layout in (None, 'C') or a.ndim == 0:
        return np.ascontiguousarray(a)
    if layout == 'F':
        return np.asfortranarray(a) if a.ndim > 1 else relayout(a, 'strided')
    if layout == 'strided':
        big = np.zeros(a.shape[:-1] + (2 * a.shape[-1] + 1,), dtype=a.dtype)
        big[..., 1::2] = a
        return big[..., 1::2]
    if layout == 'reversed':
        return np.ascontiguousarray(a[..., ::-1])[..., ::-1]
    if layout == 'offset':
        big = np.zeros((a.size + 3,), dtype=a.dtype)
        big[3:] = a.ravel()
        return big[3:].reshape(a.shape)
    if layout == 'broadcast':
        # stride-0 view: every row (element for 1-D) is the first one — the VALUES change, callers take the twin
        # from the returned array
        return np.broadcast_to(a[0], a.shape)
    if layout == 'readonly':
        b = np.array(a)
        b.flags.writeable = False
        return b
    raise ValueError(layout)


def variant_tag(v):
    """canonical name of the non-default knobs of a variant dict: part of the failure class"""
    if not v:
        return ''
    items = []
    for k in sorted(v):
        val = v[k]
        if val in (None, 'C', 'int', 'complex128', 'bool', 1.0, False):
            continue
        if isinstance(val, dict):
            sub = variant_tag(val)
            if sub:
                items.append('%s(%s)' % (k, sub))
            continue
        if isinstance(val, float):
            val = '%.0e' % val
        items.append('%s=%s' % (k, val))
    return ','.join(items)


class Snap:
    """R3: deep snapshot of the arrays handed to the code; `changed()` names the first one that differs"""

    def __init__(self, **arrays):
        self.live = arrays
        self.copy = {k: (np.array(v, copy=True), v.shape, v.strides, v.dtype) for k, v in arrays.items()}

    def changed(self):
        for k, v in self.live.items():
            c, shp, strd, dt = self.copy[k]
            if v.shape != shp or v.strides != strd or v.dtype != dt:
                return k + ' (shape/strides/dtype)'
            if not np.array_equal(v, c, equal_nan=True):
                return k
        return None


def estimator_case_run(case):
    """build the noise-free observation from first principles, run the real estimator.
    case['variant'] (all optional): ytype complex128|complex64, layout, ktype, mtype, scale.
    returns dict(out, truth, variant, spec, mag, changed, aliased)"""
    _, _, _, _, ce, _ = _impl()
    spec = dict(case['ue'])
    var = case.get('variant') or {}
    m = int(case['m'])
    k = int(case['K'])
    scale = float(var.get('scale', 1.0))
    ue = impl_ue(spec)
    size = ue.size
    nsc = m * size
    h = gtaps(case['taps']) * scale                # Nr x L
    nr = h.shape[0]
    users = [(ue, h)]
    for it in case.get('interferers', []):
        s2 = dict(spec)
        s2['ncs'] = it['ncs']
        if 'cover' in it:
            s2['cover'] = it['cover']
        users.append((impl_ue(s2), gtaps(it['taps']) * scale * float(it.get('scale', 1.0))))
    comb = np.arange(0, nsc, m)
    occ = spec['cover'] is not None
    y = 0
    mag = 0.0
    for seq, taps in users:
        hfull = true_response(taps, nsc)
        mag = max(mag, float(np.max(np.abs(hfull))) if hfull.size else 0.0)
        hf = hfull[:, comb]                          # Nr x size
        x = np.asarray(seq.seq_array())
        if occ:
            y = y + hf[:, None, :] * x[None, :, :]   # Nr x Nc x size
        else:
            y = y + hf * x[None, :]
    single = (nr == 1 and not case.get('force2d', False))
    if single:
        y = y[0]
    extra = case.get('extra', True)
    if occ and not extra:
        y = y.reshape(-1) if single else y.reshape(nr, -1)
    y = relayout(np.asarray(y).astype(var.get('ytype') or 'complex128'), var.get('layout'))
    kk = tint(k, var.get('ktype'))
    snap = Snap(Y=y, ref=ue.seq_array())
    if occ:
        est = ce.CazacBasedWithOCCChannelEstimator(ue)
        out = est.estimate_channel_freq_domain(y, kk, extra_dimension=bool(extra))
    else:
        est = ce.CazacBasedChannelEstimator(ue, size_multiplier=tint(m, var.get('mtype')))
        out = est.estimate_channel_freq_domain(y, kk)
    out = np.asarray(out)
    truth = true_response(h, nsc)
    if single:
        truth = truth[0]
    variant = ('occ' if occ else ('comb' if m > 1 else 'plain')) + (':multi-user' if len(users) > 1 else '')
    tag = variant_tag({'v': var, 'types': spec.get('types')})
    if tag:
        variant += '|' + tag
    return {'out': out, 'truth': truth, 'variant': variant, 'spec': spec, 'mag': mag,
            'changed': snap.changed(), 'aliased': bool(np.shares_memory(out, y)), 'nusers': len(users),
            'c64': var.get('ytype') == 'complex64'}


def o_cazac_estimator(case):
    r = estimator_case_run(case)
    out, truth, variant = r['out'], r['truth'], r['variant']
    if r['changed']:
        return 'input-modified:' + variant, 'the call changed its input %s' % r['changed']
    if r['aliased']:
        return 'output-aliases-input:' + variant, 'the estimate shares memory with the observation'
    if out.shape != truth.shape:
        return 'estimate-wrong-shape:' + variant, 'shape %s, expected %s' % (out.shape, truth.shape)
    if out.dtype != np.complex128:
        return 'estimate-wrong-dtype:' + variant, 'dtype %s' % out.dtype
    # relative to the scale of the channels involved (R6): no absolute floor
    rel = 1e-9 + 64 * seq_tol(r['spec']['u'], out.shape[-1]) + (3e-6 if r['c64'] else 0.0)
    tol = rel * r['mag'] * r['nusers']
    d = float(np.max(np.abs(out - truth))) if out.size else 0.0
    if not d <= tol:
        return 'estimate-inexact:' + variant, 'max |H_est - H| = %.3e (tol %.1e, channel magnitude %.1e)' % (
            d, tol, r['mag'])
    return None


def ls_arrays(case):
    """H, S lists (complex128) of an LS case; variant: dtype, layout, sh (scale of H), ss (scale of S)"""
    var = case.get('variant') or {}
    sh, ss = float(var.get('sh', 1.0)), float(var.get('ss', 1.0))
    hs = [np.array([[complex(a, b) for a, b in row] for row in h]).reshape(len(h), -1) * sh for h in case['H']]
    ss_ = [np.array([[complex(a, b) for a, b in row] for row in s_]).reshape(len(s_), -1) * ss for s_ in case['S']]
    return hs, ss_, var


def ls_cast(a, var, which=None):
    """cast / re-lay one LS argument; `which` ('y' / 's') selects a per-argument dtype (R10: mixed dtypes)"""
    dt = (var.get(which + 'dtype') if which else None) or var.get('dtype') or 'complex128'
    a = np.asarray(a)
    if np.dtype(dt).kind != 'c':
        a = a.real
    return relayout(a.astype(dt), var.get('layout'))


def ls_is_real(var):
    return any(np.dtype(var.get(k) or 'complex128').kind != 'c' for k in ('dtype', 'ydtype', 'sdtype'))


def ls_is_narrow(var):
    return any((var.get(k) or 'complex128') in ('complex64', 'float32') for k in ('dtype', 'ydtype', 'sdtype'))


def o_ls(case):
    """Y = H S (Gaussian integers), S of full row rank  =>  LS estimate = H"""
    est = _impl()[5]
    hs, ss, var = ls_arrays(case)
    if ls_is_real(var):
        hs = [h.real + 0j for h in hs]
        ss = [x.real + 0j for x in ss]
    shape = case.get('shape', '2d')
    tag = variant_tag(var)
    cls = shape + ('|' + tag if tag else '')
    if shape == '2d':
        y, sarg = ls_cast(hs[0] @ ss[0], var, 'y'), ls_cast(ss[0], var, 's')
        truth = hs[0]
    elif shape == '3d-shared':
        y, sarg = ls_cast(np.array([h @ ss[0] for h in hs]), var, 'y'), ls_cast(ss[0], var, 's')
        truth = np.array(hs)
    else:
        y, sarg = ls_cast(np.array([h @ x for h, x in zip(hs, ss)]), var, 'y'), ls_cast(np.array(ss), var, 's')
        truth = np.array(hs)
    snap = Snap(Y=y, S=sarg)
    out = np.asarray(est.compute_ls_estimation(y, sarg))
    if snap.changed():
        return 'input-modified:' + cls, 'compute_ls_estimation changed its input %s' % snap.changed()
    if np.shares_memory(out, y) or np.shares_memory(out, sarg):
        return 'output-aliases-input:' + cls, 'the estimate shares memory with an input'
    if out.dtype.kind in 'iub':
        return 'ls-integer-result:' + cls, 'result dtype %s truncates' % out.dtype
    mag = float(np.max(np.abs(truth))) if truth.size else 0.0
    narrow = ls_is_narrow(var)
    d = max_diff(out, truth)
    if not d <= (2e-2 if narrow else 1e-8) * mag:
        return 'ls-inexact:' + cls, 'max |H_est - H| = %s (|H| <= %.3e)' % (d, mag)
    return None


ORACLES = {
    'RootSequence.Nzc': o_prime_lookup,
    'RootSequence.seq_array': o_zc_cazac,
    'get_extended_ZF': o_extended,
    'UeSequence.seq_array': o_shift_orthogonal,
    'estimate_channel_freq_domain': o_cazac_estimator,
    'compute_ls_estimation': o_ls,
}


def _robust():
    from harness.props import c18_robust
    for k_, v_ in c18_robust.ORACLES.items():
        ORACLES.setdefault(k_, v_)
    return c18_robust


def _robust2():
    from harness.props import c18_robust2
    for k_, v_ in c18_robust2.ORACLES.items():
        ORACLES.setdefault(k_, v_)
    return c18_robust2


def _robust3():
    from harness.props import c18_robust3
    for k_, v_ in c18_robust3.ORACLES.items():
        ORACLES.setdefault(k_, v_)
    return c18_robust3


def guarded(ctx, name, fn, *args):
    """an exception raised by the LIBRARY (or by the comparison code on what the library returned) inside a
    correspondence is a broken tie (-> failing-input search -> exit 1), never an infrastructure error"""
    try:
        return fn(*args)
    except core.Infra:
        raise
    except Exception as e:
        import traceback
        ctx.tie_broken('correspondence', name, 'exception in the correspondence run: %r\n%s' % (
            e, traceback.format_exc()[-1500:]))
        ctx.branch('corr-exception:' + name)
        return None


def run_oracle(ctx, call, case, key=None, nontrivial=True):
    _robust()
    _robust2()
    _robust3()
    ctx.count((call, key if key is not None else repr(case)), nontrivial)
    try:
        r = ORACLES[call](case)
    except Exception as e:  # an exception where the property promises a value
        tag = variant_tag({'v': case.get('variant'), 'types': (case.get('ue') or {}).get('types')}) \
            if isinstance(case, dict) else ''
        r = ('exception:' + type(e).__name__ + ('|' + tag if tag else ''), repr(e)[:300])
    if r is not None:
        ctx.fail(call, r[0], case, r[1])
        ctx.branch('oracle-fail:' + call)
    else:
        ctx.branch('oracle-ok:' + call)
    return r


def replay(ctx, rep):
    _robust()
    _robust2()
    _robust3()
    try:
        r = ORACLES[rep['call']](rep['case'])
    except Exception:
        return True
    return r is not None


# ------------------------------------------------------------------ generators
LTE_SIZES = [12 * k for k in range(1, 101)]          # 1..100 PRBs


def rnd_taps(rng, nr, ntaps, lo=-4, hi=4):
    t = [[[rng.randint(lo, hi), rng.randint(lo, hi)] for _ in range(ntaps)] for _ in range(nr)]
    for row in t:                                   # non-trivial last tap: delay spread is really ntaps
        if row[-1] == [0, 0]:
            row[-1] = [1, -1]
    return t


def gen_estimator_case(rng, big=False):
    """valid exactness scenario: D | size, own taps <= K+1 <= size/D, interferers' taps <= size/D"""
    kind = rng.choice(['srs', 'srs', 'dmrs', 'dmrs-occ'])
    d = 8 if kind == 'srs' else 12
    if big:
        size = rng.choice([s for s in LTE_SIZES if s % d == 0 and s >= 600])
    else:
        size = rng.choice([s for s in LTE_SIZES if s % d == 0 and s <= 240])
    m = rng.choice([1, 2]) if kind == 'srs' else 1
    win = size // d
    ntaps = rng.randint(1, max(1, min(win, max(1, size // 8))))
    k = rng.randint(ntaps - 1, win - 1)
    nr = rng.choice([1, 1, 2, 3, 4])
    nzc = None
    u_max = (largest_prime_le(size) if size > 24 else 30) - 1
    u = rng.randint(1, min(u_max, 29) if size <= 24 else u_max)
    cover = None
    if kind == 'dmrs-occ':
        cover = rng.choice([[1, 1], [1, -1], [-1, 1], [-1, -1]])
    ncs = rng.below(d)
    spec = {'u': u, 'size': size, 'nzc': nzc, 'ncs': ncs, 'D': d, 'cover': cover, 'norm': rng.below(2)}
    inter = []
    for _ in range(rng.choice([0, 1, 2, 3])):
        c2 = rng.below(d)
        it = {'ncs': c2, 'taps': rnd_taps(rng, nr, rng.randint(1, win))}
        if cover is not None:
            if c2 == ncs:
                # same shift is separable only by an orthogonal cover code
                it['cover'] = [cover[0], -cover[1]]
            else:
                it['cover'] = rng.choice([cover, [cover[0], -cover[1]]])
        elif c2 == ncs:
            continue
        inter.append(it)
    case = {'ue': spec, 'm': m, 'K': k, 'taps': rnd_taps(rng, nr, ntaps), 'interferers': inter}
    if nr == 1 and rng.chance(0.25):
        case['force2d'] = True
    if cover is not None:
        case['extra'] = not rng.chance(0.35)
    return case


def gen_ls_case(rng):
    shape = rng.choice(['2d', '2d', '3d-shared', '3d-own'])
    nt = rng.randint(1, 4)
    npil = rng.randint(nt, nt + 5)
    nr = rng.randint(1, 4)
    reps = 1 if shape == '2d' else rng.randint(1, 3)

    def gi(r, c):
        return [[[rng.randint(-3, 3), rng.randint(-3, 3)] for _ in range(c)] for _ in range(r)]

    def full_rank_s():
        while True:
            s = gi(nt, npil)
            a = np.array([[complex(x, y) for x, y in row] for row in s])
            g = a @ a.conj().T
            # exact integer determinant test via fractions would be overkill: |det| of an integer Gram matrix is an
            # integer, so > 0.5 means non-singular
            if abs(np.linalg.det(g)) > 0.5 and np.linalg.cond(g) < 1e4:
                return s
    return {'shape': shape, 'H': [gi(nr, nt) for _ in range(reps)],
            'S': [full_rank_s() for _ in range(reps if shape == '3d-own' else 1)]}


# ------------------------------------------------------------------ correspondence
def corr_lookup(ctx, drv, smax):
    rs = _impl()[0]
    sizes = list(range(0, smax + 1))
    out = drv.ask(['lookup %d' % s for s in sizes])
    for s, mo in zip(sizes, out):
        try:
            im = str(int(rs.RootSequence._get_largest_prime_lower_than_number(s)))
        except Exception as e:
            im = err_name(e)
        ctx.corr('prime_lookup', s, im, mo, nontrivial=s >= 2, key=('lookup', s))
    ctx.branch('lookup:size>=1013', sum(1 for s in sizes if s >= 1013))
    ctx.branch('lookup:error', sum(1 for s in sizes if s < 2))


def corr_extended(ctx, drv, nmax, smax, nrand):
    zc = _impl()[1]
    cases = [(n, s) for n in range(0, nmax + 1) for s in range(0, smax + 1)]
    for _ in range(nrand):
        n = ctx.rng.randint(1, 60)
        cases.append((n, ctx.rng.randint(0, 6 * n + 3)))
    out = drv.ask(['ext %d %d' % c for c in cases])
    for (n, s), mo in zip(cases, out):
        try:
            im = ','.join(str(int(v)) for v in zc.get_extended_ZF(np.arange(n), s))
        except Exception as e:
            im = err_name(e)
        ctx.corr('get_extended_ZF', (n, s), im, mo, nontrivial=n > 0 and s > n, key=('ext', n, s))
        ctx.branch('ext:repeat-branch' if s > 2 * n else ('ext:short' if s < n else 'ext:single-branch'))


def root_cases(ctx, quick):
    """(u, size, nzc, check_values)"""
    rng = ctx.rng
    cases = []
    # every size the numerology allows (and every other size up to 1200): prime selection
    for s in range(0, 1201):
        p = largest_prime_le(s) if s >= 2 else None
        u = rng.randint(1, max(1, min((p or 2) - 1, 29 if s <= 24 else 10 ** 6)))
        cases.append((u, s, None, (not quick) or s <= 60 or s % 12 == 0 and rng.chance(0.25) or rng.chance(0.03)))
    cases += [(1, s, None, True) for s in (1201, 1250, 1300)]
    # tables: every row
    for u in range(0, 32):
        cases.append((u, 12, None, True))
        cases.append((u, 24, None, True))
    # explicit Nzc, size None, errors
    for _ in range(40 if quick else 400):
        z = rng.randint(1, 140)
        s = rng.choice([None, z, z + rng.randint(0, 3 * z), rng.randint(1, 300)])
        u = rng.randint(0, z + 1)
        cases.append((u, s, z, True))
    cases.append((1, None, None, True))
    cases += [(u, 30, None, True) for u in (0, 28, 29, 30, 31)]
    return cases


def corr_root(ctx, drv, quick):
    cases = root_cases(ctx, quick)
    lines = ['root u=%d size=%s nzc=%s' % (u, opt(s), opt(z)) for u, s, z, _ in cases]
    out = []
    for i in range(0, len(lines), 400):
        out += drv.ask(lines[i:i + 400])
    for (u, s, z, vals), mo in zip(cases, out):
        case = {'u': u, 'size': s, 'nzc': z}
        key = ('root', u, s, z)
        try:
            r = impl_root(u, s, z)
        except Exception as e:
            ctx.corr('RootSequence.__init__', case, err_name(e), mo, key=key)
            ctx.branch('root:' + err_name(e))
            continue
        head = mo.split(' ph=')[0]
        im = 'nzc=%d size=%d ext=%d' % (r.Nzc, r.size, 0 if r._extended_seq_array is None else 1)
        ok = ctx.corr('RootSequence.__init__', case, im, head, key=key, nontrivial=(s or z or 0) > 24)
        ctx.branch('root:table' if r.size <= 24 else ('root:zc-extended' if r._extended_seq_array is not None
                                                      else 'root:zc-plain'))
        if ok and vals:
            mv = phases_to_values(mo.split(' ph=')[1].split(','))
            corr_close(ctx, 'RootSequence.seq_array', case, np.asarray(r.seq_array()), mv,
                       seq_tol(u, r.Nzc), key=('rootvals',) + key[1:])


def ue_spec_random(rng, small=True):
    d = rng.choice([8, 12])
    size = rng.choice([12, 24] + [rng.randint(25, 160) for _ in range(4)]) if small else rng.randint(25, 1200)
    nzc = None
    if size > 24 and rng.chance(0.2):
        nzc = rng.randint(3, size)
    lim = (nzc if nzc is not None else (largest_prime_le(size) if size > 24 else 30))
    u = rng.randint(0, lim - 1)
    cover = None
    if d == 12 and rng.chance(0.5):
        cover = [rng.choice([1, -1, 2, -3]) for _ in range(rng.randint(1, 3))]
    return {'u': u, 'size': size, 'nzc': nzc, 'ncs': rng.below(d), 'D': d, 'cover': cover, 'norm': rng.below(2)}


def corr_ue(ctx, drv, n):
    specs = [ue_spec_random(ctx.rng, small=ctx.rng.chance(0.9)) for _ in range(n)]
    # rejected shifts
    specs += [{'u': 1, 'size': 36, 'nzc': None, 'ncs': 8, 'D': 8, 'cover': None, 'norm': 0},
              {'u': 1, 'size': 36, 'nzc': None, 'ncs': 12, 'D': 12, 'cover': None, 'norm': 0}]
    out = drv.ask(['ue ' + ue_tokens(s) for s in specs])
    for spec, mo in zip(specs, out):
        try:
            ue = impl_ue(spec)
            arr = np.atleast_2d(np.asarray(ue.seq_array()))
        except Exception as e:
            ctx.corr('UeSequence.__init__', spec, err_name(e), mo)
            ctx.branch('ue:' + err_name(e))
            continue
        if spec['norm']:
            # contract of the external kernel np.linalg.norm used by the model's `nu`: real, nu^2 = sum |x|^2
            raw = np.atleast_2d(np.asarray(impl_ue(dict(spec, norm=0)).seq_array()))[0]
            nu = np.linalg.norm(raw)
            if not (np.isreal(nu) and abs(nu * nu - float(np.sum(np.abs(raw) ** 2))) <= 1e-9 * max(1.0, nu * nu)):
                ctx.tie_broken('tie', 'contract:np.linalg.norm', 'norm^2 != sum |x|^2', spec)
            ctx.branch('contract:np.linalg.norm')
        scale = max(1.0, float(np.max(np.abs(arr))))
        corr_close(ctx, 'UeSequence.__init__', spec, arr, parse_crows(mo), seq_tol(spec['u'], arr.shape[1]) * scale)
        ctx.branch('ue:cover' if spec['cover'] is not None else 'ue:plain')
        ctx.branch('ue:normalized' if spec['norm'] else 'ue:raw')


def corr_estimators(ctx, drv, n, nbig):
    """arbitrary (random) observations: ties the whole estimator function, not only the exact-recovery case"""
    _, _, _, _, ce, _ = _impl()
    rng = ctx.rng
    nprng = np.random.RandomState(rng.u64() % (2 ** 32))
    lines, todo = [], []
    for i in range(n + nbig):
        big = i >= n
        spec = ue_spec_random(rng, small=not big)
        if big:
            spec['size'] = rng.choice([600, 900, 1200])
            spec['nzc'] = None
            spec['u'] = rng.randint(1, largest_prime_le(spec['size']) - 1)
        raw_ref = spec['cover'] is None and rng.chance(0.15)
        try:
            ue = impl_ue(spec)
            size = ue.size
            if spec['cover'] is not None:
                ce.CazacBasedWithOCCChannelEstimator(ue)
        except Exception as e:   # construction must succeed for every generated specification
            ctx.corr('estimator-construction', spec, err_name(e), 'ok')
            continue
        nr = rng.choice([0, 0, 1, 2, 3, 4])          # 0 = 1-D input
        k = rng.choice([0, 1, 3, size // 8, size // 2, size - 1, size, size + 5, rng.randint(0, size)])
        if spec['cover'] is None:
            m = rng.choice([1, 2, 2, 3]) if not big else rng.choice([1, 2])
            shp = (size,) if nr == 0 else (nr, size)
            if rng.chance(0.04):
                shp = shp[:-1] + (size + 1,)         # broadcasting error
            y = nprng.randn(*shp) + 1j * nprng.randn(*shp)
            if raw_ref:
                ref = nprng.randn(size) + 1j * nprng.randn(size)
                est = ce.CazacBasedChannelEstimator(ref, size_multiplier=m)
                head = 'est ref=%s m=%d K=%d dim=%d' % (clist(ref), m, k, len(shp))
            else:
                est = ce.CazacBasedChannelEstimator(ue, size_multiplier=m)
                head = 'est %s m=%d K=%d dim=%d' % (ue_tokens(spec), m, k, len(shp))
            ys = clist(y) if len(shp) == 1 else '|'.join(clist(r) for r in y)
            lines.append(head + ' Y=' + ys)
            todo.append(('est', spec, est, y, k, None, m, raw_ref))
        else:
            nc = len(spec['cover'])
            extra = not rng.chance(0.4)
            shp = (nc, size) if nr == 0 else (nr, nc, size)
            y = nprng.randn(*shp) + 1j * nprng.randn(*shp)
            est = ce.CazacBasedWithOCCChannelEstimator(ue)
            if extra:
                ys = '|'.join(clist(r) for r in y) if nr == 0 else '#'.join('|'.join(clist(r) for r in b) for b in y)
                dim = len(shp)
                yy = y
            else:
                yy = np.ascontiguousarray(y.reshape(-1) if nr == 0 else y.reshape(nr, -1))
                ys = clist(yy) if nr == 0 else '|'.join(clist(r) for r in yy)
                dim = len(shp) - 1
            lines.append('occ %s K=%d dim=%d extra=%d Y=%s' % (ue_tokens(spec), k, dim, 1 if extra else 0, ys))
            todo.append(('occ', spec, est, yy, k, extra, 1, False))
    out = []
    for i in range(0, len(lines), 40):
        out += drv.ask(lines[i:i + 40])
    for (kind, spec, est, y, k, extra, m, raw_ref), mo in zip(todo, out):
        case = {'kind': kind, 'ue': spec, 'K': k, 'm': m, 'shape': list(y.shape), 'extra': extra, 'raw_ref': raw_ref}
        name = 'estimate_channel_freq_domain:' + kind
        try:
            if kind == 'est':
                res = est.estimate_channel_freq_domain(y, k)
            else:
                res = est.estimate_channel_freq_domain(y, k, extra_dimension=extra)
        except Exception as e:
            ctx.corr(name, case, err_name(e), mo)
            ctx.branch('est:' + err_name(e))
            continue
        res = np.asarray(res)
        mv = parse_clist(mo) if res.ndim == 1 else parse_crows(mo)
        # contract of the external kernels on this case: np.fft == defining DFT sums (model computes the sums)
        # relative to the magnitude of the result (R6): no absolute floor
        scale = max(float(np.max(np.abs(res))) if res.size else 0.0, float(np.max(np.abs(mv))) if mv.size else 0.0)
        tol = (1e-9 + 64 * seq_tol(spec['u'], res.shape[-1])) * scale
        corr_close(ctx, name, case, res, mv, tol)
        ctx.branch('est:%s:%dd' % (kind, y.ndim))
        ctx.branch('est:normalized' if spec['norm'] and not raw_ref else 'est:raw')
        ctx.branch('est:m=%d' % m)
        if k + 1 >= res.shape[-1] // m:
            ctx.branch('est:keep-all-taps')


def gq(v):
    return '%d/1:%d/1' % (v[0], v[1])


def corr_ls(ctx, drv, n):
    est = _impl()[5]
    rng = ctx.rng
    lines, todo = [], []
    for _ in range(n):
        c = gen_ls_case(rng)
        # arbitrary observation (not necessarily H S): add an integer perturbation
        for r, h in enumerate(c['H']):
            s = c['S'][r if c['shape'] == '3d-own' else 0]
            hm = np.array([[complex(a, b) for a, b in row] for row in h])
            sm = np.array([[complex(a, b) for a, b in row] for row in s])
            y = hm @ sm
            pert = np.array([[complex(rng.randint(-2, 2), rng.randint(-2, 2)) for _ in range(y.shape[1])]
                             for _ in range(y.shape[0])])
            y = y + pert
            ys = '|'.join(','.join('%d/1:%d/1' % (int(round(z.real)), int(round(z.imag))) for z in row) for row in y)
            ss = '|'.join(','.join(gq(v) for v in row) for row in s)
            lines.append('ls nr=%d nt=%d np=%d Y=%s S=%s' % (y.shape[0], sm.shape[0], sm.shape[1], ys, ss))
            todo.append((c['shape'], y, sm))
    out = drv.ask(lines)
    # group per shape to exercise the 3-D paths of the implementation too
    for (shape, y, sm), mo in zip(todo, out):
        case = {'shape': shape, 'Y': [[[z.real, z.imag] for z in row] for row in y],
                'S': [[[z.real, z.imag] for z in row] for row in sm]}
        try:
            if shape == '2d':
                res = est.compute_ls_estimation(y, sm)
            elif shape == '3d-shared':
                res = est.compute_ls_estimation(np.array([y, y]), sm)[1]
            else:
                res = est.compute_ls_estimation(np.array([y, y]), np.array([sm, sm]))[0]
        except Exception as e:
            ctx.corr('compute_ls_estimation', case, err_name(e), mo)
            continue
        if mo == 'singular' or not mo.startswith('inv-ok '):
            ctx.corr('compute_ls_estimation', case, 'regular', mo)
            continue
        rows = mo[len('inv-ok '):].split('|')
        mv = np.array([[complex(Fraction(t.split(':')[0]), Fraction(t.split(':')[1])) for t in r.split(',')]
                       for r in rows])
        # contract of np.linalg.inv on this case
        g = sm @ sm.conj().T
        gi = np.linalg.inv(g)
        if max_diff(g @ gi, np.eye(g.shape[0])) > 1e-9:
            ctx.tie_broken('tie', 'contract:np.linalg.inv', 'G inv(G) != I', case)
        corr_close(ctx, 'compute_ls_estimation', case, res, mv, 1e-9 * float(np.max(np.abs(mv))))
        ctx.branch('ls:' + shape)


def fft_contract(ctx, n):
    """np.fft.fft / ifft agree with the defining sums used by the model (external-kernel contract)"""
    nprng = np.random.RandomState(ctx.rng.u64() % (2 ** 32))
    for _ in range(n):
        size = ctx.rng.randint(1, 300)
        m = ctx.rng.randint(size, 3 * size)
        x = nprng.randn(size) + 1j * nprng.randn(size)
        a = np.fft.fft(x, m)
        b = dft_matrix(m, size, m) @ x
        c = np.fft.ifft(x, size)
        d = dft_matrix(size, size, size, sign=1.0) @ x / size
        ctx.count(('fft-contract', size, m))
        if max_diff(a, b) > 1e-9 * size or max_diff(c, d) > 1e-9:
            ctx.tie_broken('tie', 'contract:np.fft', 'np.fft differs from the DFT sum', {'size': size, 'm': m})
    ctx.branch('contract:np.fft')


# ------------------------------------------------------------------ oracle runs
def oracle_runs(ctx, quick):
    rng = ctx.rng
    # prime selection: every size (exhaustive)
    for s in range(2, 1201):
        run_oracle(ctx, 'RootSequence.Nzc', {'size': s, 'u': 1}, key=('nzc', s))
    # CAZAC properties
    sizes = [25, 26, 29, 30, 31, 36, 48, 60, 72, 139, 150, 288, 300]
    sizes += [rng.randint(25, 400) for _ in range(12 if quick else 150)]
    sizes += [rng.choice(LTE_SIZES[2:]) for _ in range(6 if quick else 60)] + [1200, 1013, 1019]
    if not quick:
        sizes += list(range(25, 301))
    for s in sizes:
        p = largest_prime_le(s)
        us = {1, p - 1, rng.randint(1, p - 1)} if s <= 400 else {rng.randint(1, p - 1)}
        for u in sorted(us):
            run_oracle(ctx, 'RootSequence.seq_array', {'u': u, 'size': s}, key=('cazac', u, s))
    if not quick:
        # every root index for a band of sizes (direct sums) ...
        for s in (25, 31, 36, 47, 48, 60, 61, 72):
            for u in range(1, largest_prime_le(s)):
                run_oracle(ctx, 'RootSequence.seq_array', {'u': u, 'size': s}, key=('cazac', u, s))
        # ... and every (root index, size) for size <= 300 (FFT-based evaluation of the same quantities)
        for s in range(25, 301):
            for u in range(1, largest_prime_le(s)):
                run_oracle(ctx, 'RootSequence.seq_array', {'u': u, 'size': s, 'fast': True}, key=('cazacf', u, s))
        ctx.branch('cazac:all-roots-size<=300')
    for n in range(1, 9):
        for s in range(n, 4 * n + 3):
            run_oracle(ctx, 'get_extended_ZF', {'n': n, 'size': s}, key=('ext', n, s))
    # shift orthogonality
    for _ in range(40 if quick else 600):
        d = rng.choice([8, 12])
        size = rng.choice([s for s in LTE_SIZES if s % d == 0 and (s <= 360 or rng.chance(0.1))])
        lim = largest_prime_le(size) if size > 24 else 30
        c1 = rng.below(d)
        c2 = (c1 + rng.randint(1, d - 1)) % d
        spec = {'u': rng.randint(1, lim - 1), 'size': size, 'nzc': None, 'ncs': c1, 'D': d, 'cover': None,
                'norm': rng.below(2)}
        run_oracle(ctx, 'UeSequence.seq_array', {'ue': spec, 'ncs2': c2})
    # estimators
    for i in range(60 if quick else 1000):
        case = gen_estimator_case(rng, big=(i % 20 == 19))
        r = run_oracle(ctx, 'estimate_channel_freq_domain', case)
        occ = case['ue']['cover'] is not None
        ctx.branch('oracle-est:' + ('occ' if occ else ('comb' if case['m'] > 1 else 'plain')))
        if case['interferers']:
            ctx.branch('oracle-est:multi-user')
        if len(case['taps']) > 1:
            ctx.branch('oracle-est:multi-antenna')
        if case['ue']['norm']:
            ctx.branch('oracle-est:normalized')
        if i < 3 and r is None:
            ctx.sample({'call': 'estimate_channel_freq_domain', 'case': case})
    for _ in range(60 if quick else 1500):
        run_oracle(ctx, 'compute_ls_estimation', gen_ls_case(rng))


def corpus_runs(ctx):
    """corpus/c18/*.json: boundary and past-failure inputs, run first whatever the seed"""
    import glob
    import json
    import os
    for fn in sorted(glob.glob(os.path.join(core.VERIF, 'corpus', 'c18', '*.json'))):
        with open(fn) as f:
            doc = json.load(f)
        for item in doc['cases']:
            run_oracle(ctx, item['call'], item['case'], key=('corpus', os.path.basename(fn), repr(item['case'])))
            ctx.branch('corpus')


# ------------------------------------------------------------------ entry points
def check(ctx):
    quick = ctx.tier == 'quick'
    ctx.rule = ('prime selection: every size 0..1300 (lookup) and every size 0..1200 through RootSequence; '
                'sequences: all table rows, seeded (root, size, Nzc) incl. rejected arguments; estimators: seeded '
                'user sequences (SRS/DMRS, shifts, cover codes, normalisation) x random observations (1-4 antennas, '
                '1-D/2-D/3-D layouts) for the correspondence, and first-principles noise-free multi-user scenarios '
                'with Gaussian-integer taps for the oracles; LS: Gaussian-integer pilots of full row rank; R15/R16: '
                'deterministic scenario sets (every estimator kind x every kind of closeness; every entry point with an '
                'array argument x refilled buffer) plus seeded ones. '
                'non-trivial = distinct (call, input) with size >= 2 / sequence length > 24 / at least one tap')
    core.prove(ctx, MODULE, generated=['PrimeTable', 'C18RootTables', 'C18Formulas'], drivers=[DRIVER], scratch=ctx.scratch)
    ctx.required_branches = ['lookup:size>=1013', 'root:table', 'root:zc-extended', 'root:zc-plain',
                             'root:error:AttributeError', 'root:error:AssertionError', 'root:error:KeyError',
                             'root:error:IndexError', 'ext:repeat-branch', 'ext:single-branch',
                             'ue:cover', 'ue:normalized', 'est:est:1d', 'est:est:2d', 'est:occ:2d', 'est:occ:3d',
                             'est:normalized', 'ls:2d', 'ls:3d-shared', 'ls:3d-own', 'contract:np.fft', 'contract:np.linalg.norm',
                             'oracle-est:occ', 'oracle-est:comb', 'oracle-est:plain', 'oracle-est:multi-user',
                             'oracle-est:multi-antenna', 'oracle-est:normalized'] + _robust().REQUIRED + _robust2().REQUIRED \
        + _robust3().REQUIRED
    try:
        drv = core.Driver(DRIVER)
        guarded(ctx, 'prime_lookup', corr_lookup, ctx, drv, 1300)
        guarded(ctx, 'get_extended_ZF', corr_extended, ctx, drv, 12 if quick else 24, 40 if quick else 100,
                300 if quick else 5000)
        guarded(ctx, 'RootSequence.__init__', corr_root, ctx, drv, quick)
        guarded(ctx, 'UeSequence.__init__', corr_ue, ctx, drv, 80 if quick else 1500)
        guarded(ctx, 'estimate_channel_freq_domain', corr_estimators, ctx, drv, 70 if quick else 900,
                1 if quick else 12)
        guarded(ctx, 'compute_ls_estimation', corr_ls, ctx, drv, 60 if quick else 1500)
        guarded(ctx, 'robustness R1-R7', _robust().correspondence, ctx, drv, quick)
        guarded(ctx, 'robustness R8-R14', _robust2().correspondence, ctx, drv, quick)
        guarded(ctx, 'robustness R15-R16', _robust3().correspondence, ctx, drv, quick)
    except core.Infra as e:
        if not ctx.broken:
            raise
        ctx.notes.append('correspondence skipped: %s' % e)
        ctx.required_branches = [b for b in ctx.required_branches if b.startswith('oracle') or b == 'contract:np.fft']
    fft_contract(ctx, 20 if quick else 200)
    corpus_runs(ctx)
    oracle_runs(ctx, quick)
    _robust().oracle_runs(ctx, quick)
    _robust2().oracle_runs(ctx, quick)
    _robust3().oracle_runs(ctx, quick)
    ctx.sample({'call': 'prime_lookup', 'size': 1200, 'model': 'last of smallPrimeList.filter (<= size)'})
    ctx.sample({'call': 'RootSequence.seq_array', 'u': 25, 'size': 150,
                'check': '|a|=1, R[tau]=0 for tau != 0, |DFT|^2 = N, seq[i] = seq[i mod Nzc]'})


def search(ctx):
    """deeper failing-input search, used when a proof / correspondence / tie broke"""
    rng = ctx.rng
    for s in range(2, 1201):
        run_oracle(ctx, 'RootSequence.Nzc', {'size': s, 'u': 1}, key=('nzc', s))
    for s in list(range(25, 200)) + [rng.randint(200, 1200) for _ in range(40)]:
        p = largest_prime_le(s)
        for u in {1, 2, p - 1, rng.randint(1, p - 1)}:
            run_oracle(ctx, 'RootSequence.seq_array', {'u': u, 'size': s}, key=('cazac', u, s))
    for n in range(1, 12):
        for s in range(n, 5 * n + 3):
            run_oracle(ctx, 'get_extended_ZF', {'n': n, 'size': s}, key=('ext', n, s))
    for d in (8, 12):
        for size in [s for s in LTE_SIZES if s % d == 0][:12]:
            lim = largest_prime_le(size) if size > 24 else 30
            for c1 in range(d):
                for c2 in range(c1 + 1, d):
                    for norm in (0, 1):
                        spec = {'u': rng.randint(1, lim - 1), 'size': size, 'nzc': None, 'ncs': c1, 'D': d,
                                'cover': None, 'norm': norm}
                        run_oracle(ctx, 'UeSequence.seq_array', {'ue': spec, 'ncs2': c2})
    for i in range(600):
        run_oracle(ctx, 'estimate_channel_freq_domain', gen_estimator_case(rng, big=(i % 50 == 49)))
    for _ in range(600):
        run_oracle(ctx, 'compute_ls_estimation', gen_ls_case(rng))
    _robust().search(ctx)
    _robust2().search(ctx)
    _robust3().search(ctx)
