"""C05 — the Monte Carlo runner runs exactly the requested repetitions per variation
(DESIGN.md §5 C05).

Tie to source: `lean/PyPhysim/Model/C05.lean` is a hand model of
`runner.py` (`_simulate_for_current_params_common`, the serial `simulate()`
paths), `parameters.py` (`get_unpacked_params_list`, `get_pack_indexes`) and
`results.py` (`get_result_values_list`); it is tied to the code by an EXACT
correspondence: a scripted `SimulationRunner` subclass replays a seeded stream
of outcomes (value / SkipThisOne) and the compiled model replays the same line.
The property oracles below recompute everything from the raw call log with
their own arithmetic (they do not use the model).
"""
import itertools
import json
import os
import shutil
import tempfile
from fractions import Fraction

from harness import core

MODULE = 'PyPhysim.Properties.C05'
DRIVER = 'drv_c05'
GENERATED = ['C05Loop', 'C05Grid']

CLAIM = {
    'technique': 'Lean 4 induction over outcome streams and variation lists (loop invariant against a fold '
                 'specification, mixed-radix indexing, numpy slice = filter on digits) + exact event-log '
                 'correspondence with a scripted SimulationRunner; the control skeleton of one variation is '
                 'regenerated from the AST on every run and proved equal to the model',
    'text': 'Kernel-checked for every results type and merge operation (no law assumed), every rep_max, every '
            '_keep_going predicate of (merged results, skip counter, repetition index, variation), every loaded '
            'start state, every outcome stream and every runner state: one variation consumes exactly the minimal '
            'prefix of the stream after which `keep and rep < rep_max` fails, its stored result is the left fold of '
            'exactly the successful outcomes (merged into the loaded result when resumed), runned_reps is their '
            'number, a skip is never counted, a skip in the first repetition is retried, rep <= rep_max and the stop '
            'is by limit or by rule; simulate() splits the stream into one such run per variation 0..n-1 in that '
            'order, entry i of results / runned_reps / the partial files belongs to variation i, every variation is '
            'run, simulate(index) runs only that variation, a repeated simulate() without a results file equals a '
            'run on a new runner, a resumed variation that had reached the limit is not re-run; combination i is '
            'the one picked by the mixed-radix digits of i over the name-sorted parameters (last fastest), the '
            'number of variations is the product of the lengths; get_pack_indexes and get_result_values_list return '
            'exactly the combinations carrying the fixed values, in order (proved for duplicate-free value lists; '
            'negative witness proved for duplicates); the parameters object is a state machine (add / replace / remove '
            '/ set_unpack_parameter, rejected calls included) and after ANY two histories that leave the same content '
            '(same dictionary, same unpacked set) every look-up agrees, i.e. a look-up equals the one on a freshly built '
            'object: no stale derived state (lookup_no_stale_state); every look-up commutes with any INJECTIVE renaming of '
            'the parameter values (lookup_exact: values are compared exactly, closeness plays no role; distinct listed values '
            'resolve to distinct positions, close_values_looked_up_separately; a setter stores every new value, '
            'setter_takes_effect_for_every_new_value); refilling a container bound to two parameters is the replacement of both '
            'lists in either order (refill_of_shared_container). The model is tied to runner.py / parameters.py / results.py '
            'by exact comparison of call logs, runned_reps, stored statistics, partial files and lookups on seeded '
            'and exhaustively enumerated small scenarios, and on seeded histories that interleave simulate(), look-ups '
            'and mutations of the parameter set on one runner / one SimulationParameters object (each look-up also '
            'compared with a freshly constructed object of the same content); independent oracles re-check the property on the real '
            'code from the raw event log. Second tie, by regeneration: on every run '
            'SimulationRunner._simulate_for_current_params_common is executed symbolically from the current AST '
            '(private helpers inlined, while True + break / continue, if / else in either polarity, tuple returns '
            'followed) into an automaton whose states are the program points waiting for a repetition '
            '(Generated/C05Loop.lean: load-or-first-repetition with retry, the tests _keep_going then '
            'rep < rep_max in source order, merge / current_rep / num_skipped_reps updates on ok and on skip, the '
            'periodic-save call, the final save and the return); generated_loop_matches_model proves that this '
            'automaton run on ANY outcome stream, keep predicate, rep_max and start equals runVariation of the hand '
            'model, generated_final_save_is_returned that the final save receives what is returned, '
            'generated_guard_order / generated_periodic_save_once_per_iteration pin the order of the two stop tests '
            'and the one periodic-save call per loop iteration. A semantic edit of the skeleton is refused by the '
            'translator or breaks one of these proofs; renamings, extraction into private helpers and '
            'while True + break restructurings regenerate the same module. Likewise get_unpacked_params_list and '
            'get_num_unpacked_variations are re-evaluated from the AST over a small algebra of list terms (loops '
            'over a symbolic list are executed once and summarised as maps / families of dictionary entries; '
            'Generated/C05Grid.lean) and generated_grid_matches_model proves: the combinations are the product over '
            'the name-SORTED parameters with the names paired in the same order, _unpack_index is the list position, '
            'the number of variations (a product of lengths in any order) is the product of the dimensions.',
    'note': 'Trusted beyond the common base: the hand model <-> code correspondence (a behaviour not reached by '
            'the generators is not tied), numpy reshape/indexing modelled as row-major index arithmetic, pickle '
            'round trip of partial results, Python str ordering = Lean String ordering. Partial: lookup theorems '
            'carry the hypothesis that no unpacked parameter lists a value twice (known finding C05:*:duplicate-'
            'values, negative witness pack_indexes_dup_first); termination is outside the model (a stream that '
            'runs out = a program that skips for ever, made explicit as exhausted/starved). Not modelled: progress '
            'bars, ipyparallel path, periodic (500 reps / 300 s) partial saving and crash/resume (C07), '
            'CHOICETYPE results (np.int defect, C06/C17), result merging internals (C06; the merge is a parameter). '
            'Robustness classes: R1 (element types: list/tuple/float lists, numpy scalars, int8..int64, uint8/16, '
            'float16/32/64, complex64/128 arrays as value containers; fixed values, rep_max, variation index and the '
            'values returned by _run_simulation in other scalar types) and R2 (reversed / strided / read-only / '
            'Fortran-cut / (N,1) / 2-D / transposed / broadcast / 3-D containers, 0-d arrays refused) are covered '
            'by THEOREM only in the sense that the model is a function of the logical values (it never sees a dtype '
            'or a layout: every materialisation is sent to the model as the same base-integer line) and by '
            'CORRESPONDENCE + ORACLE for the code. R3: model functions are pure (outputs are fresh values) by '
            'construction; inputs / returned arrays / held results objects are re-compared after later calls by the '
            'oracle and the held answers are part of the correspondence. R4: theorems rejected_param_call_leaves_state '
            'and simulate_single_needs_file (state unchanged) + before/after comparison of every observable for every '
            'rejected call in correspondence and oracle. R5 (0 / 0.0 / None values, single-element lists, rep_max 1, '
            'first / last index and element, rule thresholds 0) and R6 (grids scaled 1e-12..1e12, outcome values '
            'scaled by 2^+-40, 2^100, 1e+-9, 1e+-12; comparisons relative to the scale): the theorems are scale- and '
            'value-agnostic (arbitrary R, merge, keep); the code is covered by correspondence + oracle. R7: theorems '
            'lookup_no_stale_state, repeated_simulate_fresh (for every configuration, hence for a changed rep_max), '
            'completed_variation_not_rerun; histories changing rep_max / results file / delete_partial_results_bool / '
            'a rep_max entry in the parameters between simulate() and simulate(index) calls are compared with the '
            'model, with a freshly built runner and with first principles. Objects shared between two users: only '
            'results.params / runner.params (fixed, c561af3); the API offers no way to hand one parameters object '
            'to two runners. Every observable of a stored Result (value, total, num_updates, result sums, accumulated '
            'value / total lists, type, accumulate flag) for SUM / RATIO / MISC / CHOICE x accumulate on / off x 0-2 '
            'updates per repetition x constructor / Result.create / add_new_result: THEOREMS merged_lists_are_concat, '
            'merged_lists_untouched_without_accumulate, merged_counts_are_sums, merged_misc_is_last, '
            'stored_result_accumulates_every_repetition on the model of Result.update / Result.merge '
            '(Model/C05Result.lean), correspondence through the runner, the partial files and the direct '
            'merge_all_results (into an empty object / into the first repetition) / Result.merge / '
            'append_all_results / append_result paths (`mrg` lines), first-principles oracle expected_extras. '
            'R8 (positional / keyword / default / explicit-default arguments of simulate, get_pack_indexes, '
            'get_result_values_list, add / __setitem__ / SimulationParameters.create, set_unpack_parameter, Result, '
            'Result.create, add_new_result, add_result, update): correspondence + oracle (the model line is the same '
            'for every form). R9 (variation index and rep_max as np.int8..uint64, intp, 0-d array, bool, str; CHOICE '
            'values as numpy ints; index 257 / 299 of 300 variations): correspondence + oracle. R10 (value lists '
            'mixing int / float / numpy scalars / complex, repetitions returning ints, floats and numpy scalars of '
            'half-integer values in turn): correspondence + oracle, nothing may be truncated. R11: theorem side: every '
            'model look-up is a pure function of the state (no step); code side: a batch of ~60 non-setter calls '
            '(repr, ==, len, iter, get_*, to_dict / to_json, means, variances, confidence intervals, accumulated '
            'lists, runner properties) inside the histories, every observable compared after each call, the history '
            'goes on and is compared with the model. R12: lookup_no_stale_state (parameters: content, not insertion '
            'order) by theorem; results added in another order in every repetition, parameters / unpack flags / '
            'fixed values in other orders by correspondence + oracle keyed by name. R13 (variations obtained from a '
            'parameters object: pickle / to_dict / to_json round trips give the variation back, changing a variation '
            'does not change the parent nor the parent a variation derived earlier, deep copy of the parent; partial '
            'files = save / load of per-variation results; operands of merges unchanged): correspondence + oracle; in '
            'the model these are values. R14 (300 variations with indexes 257 / 299 / 300, 272 = 17x16, rep_max 300, '
            '258 named results per repetition, 258 extra parameters, thorough: 65537 and 258x257 variations): '
            'correspondence + oracle, the theorems are unbounded. All of R8-R14 apply; none exposed a defect of the '
            'unmodified library. R15 (distinct values that are merely close: five families - magnitudes 1e-9..1e-15, '
            '2.4e9 + 200 b, neighbouring doubles of 0.3, 1.5 + b 2^-43, values 1e-10 apart around 1e-8 - as value lists, '
            'replacement lists of the same length, fixed values present / absent-next-to-a-present-one; values returned by '
            'the repetitions 2^ce + o 2^de with ce - de = 20 so that every sum and sum of squares is exact, MISC values 1 ulp / '
            '2^-40 apart): THEOREMS lookup_exact, close_values_looked_up_separately, setter_takes_effect_for_every_new_value '
            '(the harness map base integer -> close float is an injective renaming, the model line is unchanged) + '
            'correspondence + oracle; the partial results on disk after ONE value was replaced by a close one (fixed '
            'parameter or one list element) lie outside the model (it keys the files by position): first-principles oracle '
            'only (the call is refused or the changed combinations are run afresh; never a repetition of the old value in a '
            'stored result). R16 (ONE container per parameter refilled in place between the calls - lists of any length, '
            'int64 / int16 / float64 / strided arrays -, the same container for two parameters, ONE fixed-values dictionary '
            'and one 0-d array per value refilled before and scribbled on after every look-up, ONE 0-d index array for '
            'simulate(index); the answers are compared with the model (for which a refill is a replacement of contents: '
            'refill_of_shared_container, lookup_no_stale_state, repeated_simulate_fresh), with a freshly built object / runner '
            'holding a copy of the contents and with first principles; variations, index arrays, value lists and results '
            'objects handed out earlier are re-compared after the later refills): theorem + correspondence + oracle; the '
            'results API with one object in two roles (acc.merge_all_results(acc), Result.merge(r, r), one operand merged '
            'into two collectors, SimulationParameters.create(d) with d refilled) and array-VALUED results: oracle only. '
            'R16 exposed one defect of the unmodified library, recorded as known (C05:R16:array-value-kept-by-reference: '
            'Result.update keeps a reference to an array value).',
}

NAME_POOL = ['a', 'b', 'c', 'aa', 'ab', 'B', 'Z', 'a1', '_x', 'snr', 'SNR', 'M', 'z9']
FIXED_EXTRA = 'fx0'          # a parameter that is never unpacked
FIXED_EXTRA_VALUE = 7


class ScriptExhausted(BaseException):
    """the scripted outcome stream ran out (a real program would still be running)"""


# ------------------------------------------------------------------ keep rules
def eval_rule(rule, s, k, r):
    """the scripted `_keep_going`: s = merged 'sum' value, k = num_skipped_reps, r = current_rep"""
    t = rule.split(':')
    if t[0] == 'always':
        return True
    if t[0] == 'sumlt':
        return s < int(t[1])
    if t[0] == 'replt':
        return r < int(t[1])
    if t[0] == 'skiplt':
        return k < int(t[1])
    if t[0] == 'tbl':
        m, n, bits = int(t[1]), int(t[2]), t[3]
        i = (s % m) * n + r % n
        return i < len(bits) and bits[i] == '1'
    raise ValueError(rule)


def rule_for(case, pos):
    rules = case['keep']
    return rules[pos % len(rules)]


# ------------------------------------------------------------------ case <-> line
def case_line(case):
    names = case['names']
    vals = '|'.join(','.join(str(v) for v in case['vals'][n]) for n in names)
    outs = ','.join('s' if o == 's' else str(o) for o in case['outs'])
    ops = ','.join(case['ops'])
    look = '/'.join(','.join('%s:%d' % (k, v) for k, v in fx) for fx in case['look'])
    return 'sim names=%s vals=%s repmax=%d file=%d keep=%s ops=%s outs=%s look=%s' % (
        ','.join(names), vals, case['repmax'], 1 if case['file'] else 0, ';'.join(case['keep']), ops, outs, look) \
        + (' xr=' + xr_token(case) if case.get('xr') else '')


def grid_line(case):
    names = case['names']
    vals = '|'.join(','.join(str(v) for v in case['vals'][n]) for n in names)
    look = '/'.join(','.join('%s:%d' % (k, v) for k, v in fx) for fx in case['look'])
    return 'grid names=%s vals=%s fixed=%s' % (','.join(names), vals, look)


# ------------------------------------------------------------------ robustness materialisation (R1/R2/R5/R6)
# A case always carries its LOGICAL content as small base integers (that is what the model sees);
# `case['mat']` says how the same logical values are handed to the library: container type / dtype /
# memory layout / shape of every unpacked parameter, type of the fixed values in look-ups, type and scale
# of the values returned by `_run_simulation`, type of rep_max and of the variation index.
INT_DTYPES = ['int8', 'uint8', 'int16', 'uint16', 'int32', 'int64']
FLOAT_DTYPES = ['float16', 'float32', 'float64']
R1_KINDS = ['tuple', 'floatlist'] + INT_DTYPES + FLOAT_DTYPES + ['complex64', 'complex128'] \
    + ['npscalars:int8', 'npscalars:uint16', 'npscalars:float32', 'npscalars:int64']
R2_KINDS = ['rev', 'strided', 'col', 'fcol', 'rows2', 'rows2T', 'bcast2', 'rows3d', 'readonly']
R6_SCALES = ['1e-12', '1e-9', '1e-3', '1e3', '1e9', '1e12']
NOT_LOOKABLE = ('rows2', 'rows2T', 'bcast2', 'rows3d')     # look-up by value needs scalar elements
UNSIGNED = ('uint8', 'uint16', 'npscalars:uint16')
# R15: families of DISTINCT values that a tolerance-based comparison (np.isclose / np.allclose with the default
# atol=1e-8, rtol=1e-5, math.isclose, a rounded key, an absolute threshold) would identify
R15_FAMS = ['tiny', 'rel', 'adj', 'dec12', 'thr']
# R15: values returned by the repetitions: 'aff:ce:de' = 2^ce + o * 2^de for the SUM and the MISC result
# (ce - de = 20: every sum, square and sum of squares is exact in binary64, the comparison stays exact);
# 'm:...' = the MISC result only (the SUM result gets the plain integer): neighbouring doubles of 0.3,
# 1 + o * 2^-40 (differences beyond the 12th decimal)
R15_OUTS = ['aff:0:-20', 'aff:31:11', 'aff:-38:-58', 'm:adj', 'm:aff:0:-40', 'm:aff:31:-9']
# R16: containers a caller can refill in place ('list' kinds: any length; arrays: same length)
# (value-preserving kinds only: a 'close:' kind re-encodes the logical values, and a history that mixed it with the
# other kinds looked results up with the encoding of a LATER container - a fault of the harness, seed 19; the R15
# close families have their own scenarios in which every container of the history uses the same family)
R16_KINDS = ['list', 'floatlist', 'int64', 'float64', 'strided', 'int16', 'float32']


def _bits(x):
    import struct
    return struct.unpack('<q', struct.pack('<d', float(x)))[0]


def _from_bits(n):
    import struct
    return struct.unpack('<d', struct.pack('<q', n))[0]


def close_value(fam, b):
    """R15: an INJECTIVE map base integer -> float whose image is a cluster of distinct values that are
    merely close (the model sees the base integers: it is a function of the exact value)"""
    b = int(b)
    if fam == 'tiny':      # magnitudes 1e-9 ... 1e-15: all "equal" to 0 and to each other for atol = 1e-8
        return (1000 + b) * 10.0 ** -(12 + b % 7)
    if fam == 'rel':       # 2.4e9, 2.4e9 + 200, ...: relative differences below 1e-5 (exact integers)
        return 2.4e9 + 200.0 * b
    if fam == 'adj':       # 0.3, 0.30000000000000004, ...: neighbouring doubles
        return _from_bits(_bits(0.3) + b)
    if fam == 'dec12':     # 1.5 + b * 2^-43: differences beyond the 12th decimal
        return 1.5 + b * 2.0 ** -43
    if fam == 'thr':       # around an absolute threshold of 1e-8, 1e-10 apart
        return 1e-8 + (b - 5) * 1e-10
    raise ValueError(fam)


def _np():
    import numpy as np
    return np


def elem_key(e):
    """exact logical value of one element of a parameter (None, number, complex, row of numbers)"""
    np = _np()
    if e is None:
        return 'None'
    if isinstance(e, np.ndarray):
        return tuple(elem_key(x) for x in e.tolist()) if e.ndim else elem_key(e.item())
    if isinstance(e, (list, tuple)):
        return tuple(elem_key(x) for x in e)
    if isinstance(e, (complex, np.complexfloating)):
        c = complex(e)
        return Fraction(c.real) if c.imag == 0 else (Fraction(c.real), Fraction(c.imag))
    if isinstance(e, (bool, np.bool_)):
        return ('bool', bool(e))
    if isinstance(e, (int, np.integer)):
        return Fraction(int(e))
    return Fraction(float(e))


def mat_container(kind, base):
    """the container handed to params.add for the base values `base`; iteration yields the elements in
    base order. Returns (container, elemfn) where elemfn materialises one more base value the same way."""
    np = _np()
    base = list(base)
    if kind == 'list':
        return list(base), int
    if kind == 'tuple':
        return tuple(base), int
    if kind == 'floatlist':
        return [float(b) for b in base], float
    if kind == 'mixed':                      # R10: elements of different python / numpy types in ONE list
        ts = [int, float, np.int16, np.float32, np.int64, np.float64, np.uint8, complex]
        return [(ts[j % len(ts)] if not (ts[j % len(ts)] is np.uint8 and b < 0) else int)(b)
                for j, b in enumerate(base)], float
    if kind == 'mixedtuple':
        ts = [np.float32, int, np.int8, float]
        return tuple(ts[j % len(ts)](b) for j, b in enumerate(base)), int
    if kind == 'none':                       # R5: None among the values (stands for the smallest one)
        lo = min(base) if base else None
        return [None if b == lo else b for b in base], (lambda b: None if b == lo else b)
    if kind.startswith('npscalars:'):
        t = np.dtype(kind.split(':')[1]).type
        return [t(b) for b in base], t
    if kind.startswith('close:'):            # R15: distinct values that are merely close
        parts = kind.split(':')
        fam = parts[1]
        if len(parts) > 2:
            return np.array([close_value(fam, b) for b in base], dtype=np.float64), \
                (lambda b: np.float64(close_value(fam, b)))
        return [close_value(fam, b) for b in base], (lambda b: close_value(fam, b))
    if kind.startswith('scale:'):            # R6: the whole grid multiplied by a decimal factor
        parts = kind.split(':')
        f = float(parts[1])
        if len(parts) > 2:
            return np.array([b * f for b in base], dtype=np.float64), (lambda b: np.float64(b * f))
        return [b * f for b in base], (lambda b: b * f)
    if kind in INT_DTYPES + FLOAT_DTYPES + ['complex64', 'complex128']:
        dt = np.dtype(kind)
        return np.array(base, dtype=dt), dt.type
    if kind == 'rev':                        # reversed view (negative stride)
        return np.array(base[::-1], dtype=np.int64)[::-1], np.int64
    if kind == 'strided':                    # every second element of a larger buffer
        big = np.full(2 * len(base) + 1, -77, dtype=np.int64)
        big[0:2 * len(base):2] = base
        return big[0:2 * len(base):2], np.int64
    if kind == 'readonly':
        a = np.array(base, dtype=np.int64)
        a.setflags(write=False)
        return a, np.int64
    if kind == 'col':                        # (N, 1)
        return np.array(base, dtype=np.int64).reshape(-1, 1), (lambda b: np.array([b]))
    if kind == 'fcol':                       # (N, 1) cut out of a Fortran-ordered (N, 2) array
        a = np.asfortranarray(np.array([[b, -5] for b in base], dtype=np.int64).reshape(-1, 2))
        return a[:, 0:1], (lambda b: np.array([b]))
    if kind == 'rows2':                      # 2-D: every value is a row
        return np.array([[b, b + 50] for b in base], dtype=np.int64).reshape(-1, 2), (lambda b: np.array([b, b + 50]))
    if kind == 'rows2T':                     # the same rows as a transposed (non C-contiguous) view
        a = np.array([[b for b in base], [b + 50 for b in base]], dtype=np.int64).reshape(2, -1)
        return a.T, (lambda b: np.array([b, b + 50]))
    if kind == 'bcast2':                     # broadcast view (stride 0, read-only)
        return np.broadcast_to(np.array(base, dtype=np.int64).reshape(-1, 1), (len(base), 3)), \
            (lambda b: np.array([b, b, b]))
    if kind == 'rows3d':
        return np.array([[[b, b + 50]] for b in base], dtype=np.int64).reshape(-1, 1, 2), \
            (lambda b: np.array([[b, b + 50]]))
    raise ValueError(kind)


def mat_fixed(fkind, e):
    """the same logical value as element `e`, in another scalar type"""
    np = _np()
    if e is None or (isinstance(e, np.ndarray) and e.size != 1):
        return e
    if isinstance(e, np.ndarray):
        e = e.reshape(-1)[0]
    if fkind == 'same':
        return e
    cplx = isinstance(e, (complex, np.complexfloating))
    if cplx:
        return complex(e) if fkind != 'np.complex128' else np.complex128(e)
    integral = float(e) == int(float(e)) and abs(float(e)) < 2 ** 53
    if fkind == 'pyint':
        return int(e) if integral else float(e)
    if fkind == 'pyfloat':
        return float(e)
    if fkind == '0d':
        return np.array(e)
    if fkind.startswith('np.'):
        dt = np.dtype(fkind[3:])
        if dt.kind in 'iu' and (not integral or (dt.kind == 'u' and float(e) < 0)
                                or not (np.iinfo(dt).min <= int(e) <= np.iinfo(dt).max)):
            return float(e)
        if dt.kind == 'f' and float(dt.type(float(e))) != float(e):
            return float(e)           # a narrower float would change the value: keep the twin exact
        return dt.type(e)
    raise ValueError(fkind)


class Mat:
    """how the logical content of a case is handed to the library, and the way back"""

    def __init__(self, case):
        m = case.get('mat') or {}
        self.pk = dict(m.get('params', {}))
        self.new = list(m.get('new', ['list']))
        self.fk = m.get('fixed', 'same')
        self.ok = m.get('outs', 'int')
        self.rk = m.get('repmax', 'int')
        self.ik = m.get('index', 'int')
        self.table = {}
        self.elemfn = {}
        self.kind = {}
        self.inputs = []          # R3: (what, object handed to the library, snapshot at that time)
        self.af = case.get('argform')   # R8: seed of the argument-form choices (None: the plain form)
        # R16: the caller keeps ONE object per role and refills it in place: one buffer per parameter
        # (`refill`), one dictionary of fixed values, one 0-d array per fixed value / for the variation index
        self.reuse = bool(m.get('reuse'))
        self.share = list(m.get('share', []))      # R16: names that are handed the SAME container object
        self.bufs = {}
        self.fxdict = {}
        self.fx0d = {}
        self.idxbuf = None
        self.nrefills = 0
        self._sc = None
        k = self.ok
        self._aff = self._maff = None
        if k.startswith('aff:'):
            self._aff = self._maff = (Fraction(2) ** int(k.split(':')[1]), Fraction(2) ** int(k.split(':')[2]))
        elif k.startswith('m:aff:'):
            self._maff = (Fraction(2) ** int(k.split(':')[2]), Fraction(2) ** int(k.split(':')[3]))

    def pick(self, n):
        """R8: which of the n equivalent ways to make the next call (positional / keyword / default / ...)"""
        if self.af is None:
            return 0
        self.af = (self.af * 1103515245 + 12345) % (1 << 31)
        return (self.af >> 8) % n

    # parameters ---------------------------------------------------------
    def container(self, name, base, kind=None):
        kind = kind or self.pk.get(name, 'list')
        mate = [n for n in self.share if n != name and n in self.bufs] if name in self.share else []
        if mate and self.kind.get(mate[0]) == kind and self.table.get(mate[0]) is not None \
                and [self.table[mate[0]].get(elem_key(e)) for e in self.bufs[mate[0]]] == list(base):
            # R16: the SAME container object in two roles (value list of two parameters)
            obj, fn = self.bufs[mate[0]], self.elemfn[mate[0]]
        else:
            obj, fn = mat_container(kind, base)
        self.kind[name] = kind
        self.elemfn[name] = fn
        t = {}
        for b, e in zip(base, obj):
            t.setdefault(elem_key(e), b)
        self.table[name] = t
        self.bufs[name] = obj
        self.inputs.append(('parameter %s (%s)' % (name, kind), obj, snap(obj)))
        return obj

    def can_refill(self, name, n):
        """R16: can the container handed over for `name` be refilled in place with n values?"""
        np = _np()
        obj = self.bufs.get(name)
        if isinstance(obj, list):
            return True
        return isinstance(obj, np.ndarray) and obj.ndim == 1 and obj.flags.writeable and len(obj) == n

    def refill(self, names, base):
        """R16: the caller overwrites the contents of the container it handed over earlier (`buf[...] = new`,
        `lst[:] = new`); NO library call is made. Every name bound to that object now carries the new values."""
        obj = self.bufs[names[0]]
        vals = [self.elemfn[names[0]](b) for b in base]
        if isinstance(obj, list):
            obj[:] = vals
        else:
            obj[...] = vals
        self.nrefills += 1
        for name in names:
            assert self.bufs.get(name) is obj, 'R16 generator: %s is not bound to the refilled object' % name
            t = {}
            for b, e in zip(base, obj):
                t.setdefault(elem_key(e), b)
            self.table[name] = t
        # the caller changed its own object: that is not a modification made by the library
        self.inputs = [(w, o, snap(o) if o is obj else sn) for w, o, sn in self.inputs]

    def new_kind(self, i):
        return self.new[i % len(self.new)]

    def canon(self, name, e):
        """base integer of an element seen in the library's output (or a marker that matches nothing)"""
        t = self.table.get(name)
        if t is None:
            return e if isinstance(e, int) and not isinstance(e, bool) else '?%r' % (e,)
        try:
            return t[elem_key(e)]
        except Exception:
            return '?%r' % (e,)

    def lookable(self, name):
        return self.kind.get(name, 'list') not in NOT_LOOKABLE

    def fixed(self, fx):
        """the fixed-values dictionary handed to a look-up"""
        out = {}
        for k, v in fx:
            if k in self.elemfn:
                try:
                    e = self.elemfn[k](v)
                except (OverflowError, ValueError):
                    e = float(v)          # not representable in the narrow type: certainly not in the grid
                out[k] = mat_fixed(self.fk, e)
            else:
                out[k] = v
        if self.reuse:
            # R16: ONE dictionary object (and one 0-d array per key) refilled before every look-up
            np = _np()
            d = self.fxdict
            d.clear()
            for k, v in out.items():
                if self.fk == '0d' and isinstance(v, np.ndarray) and v.ndim == 0 and v.dtype.kind in 'if':
                    buf = self.fx0d.get((k, v.dtype.str))
                    if buf is None:
                        buf = self.fx0d[(k, v.dtype.str)] = np.zeros((), dtype=v.dtype)
                    buf[...] = v
                    v = buf
                d[k] = v
            self.inputs = [t for t in self.inputs if t[1] is not d and not any(t[1] is b for b in self.fx0d.values())]
            self.inputs.append(('fixed values %r (reused dictionary)' % (fx,), d, snap(d)))
            return d
        self.inputs.append(('fixed values %r' % (fx,), out, snap(out)))
        return out

    def scribble(self):
        """R16 (iii): the caller modifies the argument right after the call"""
        if self.reuse and self.fxdict:
            d = self.fxdict
            self.inputs = [t for t in self.inputs if t[1] is not d]
            for k in list(d):
                v = d[k]
                if any(v is b for b in self.fx0d.values()):
                    v[...] = -12345
                else:
                    d[k] = 'scribbled'
            d['zz_scribble'] = 1

    # repetitions --------------------------------------------------------
    def repmax(self, k):
        np = _np()
        return k if self.rk == 'int' else np.dtype(self.rk[3:]).type(k)

    def index(self, i):
        np = _np()
        if self.ik == 'int':
            return i
        if self.ik == 'str':
            return str(i)
        if self.ik == '0d':
            if self.reuse:                     # R16: ONE 0-d index array refilled before every call
                if self.idxbuf is None:
                    self.idxbuf = np.zeros((), dtype=np.int64)
                self.idxbuf[...] = i
                return self.idxbuf
            return np.array(i)
        if self.ik == 'bool':
            return bool(i) if i in (0, 1) else i
        dt = np.dtype(self.ik[3:])
        if dt.kind == 'u' and i < 0:
            return i
        if not (np.iinfo(dt).min <= i <= np.iinfo(dt).max):
            return np.int64(i)
        return dt.type(i)

    # outcomes -----------------------------------------------------------
    def out(self, o):
        np = _np()
        k = self.ok
        if k == 'int':
            return o
        if k == 'float':
            return float(o)
        if k.startswith('np.'):
            return np.dtype(k[3:]).type(o)
        if k == 'mixhalf':
            self._mix = getattr(self, '_mix', 0) + 1
            if o % 2 == 0:
                return [int, np.int16, np.int64][self._mix % 3](o // 2)
            return [float, np.float32, np.float64][self._mix % 3](o / 2.0)
        if k.startswith('p2:'):
            return float(o) * 2.0 ** int(k[3:])
        if k.startswith('dec:'):
            return o * float(k[4:])
        if self._aff is not None:              # R15: close but distinct values, exactly representable
            return float(self._aff[0] + o * self._aff[1])
        if k.startswith('m:'):                 # R15: only the MISC result carries the close values
            return o
        raise ValueError(k)

    def out_misc(self, o):
        """the value of the MISCTYPE result of the repetition with outcome `o`"""
        k = self.ok
        if k == 'm:adj':
            return close_value('adj', o)
        if self._maff is not None:
            return float(self._maff[0] + o * self._maff[1])
        return self.out(o)

    def base_misc(self, x):
        """the base integer behind a stored MISC value (exact)"""
        if self.ok == 'm:adj':
            try:
                return _bits(x) - _bits(0.3) if isinstance(x, float) else repr(x)
            except Exception:
                return repr(x)
        if self._maff is not None:
            return self._unaff(x, self._maff, 1, 1, None)
        return self.base_num(x)

    def _unaff(self, x, cd, power, n, s):
        """base integer behind a sum (power 1) / a sum of squares (power 2) of n values c + o * d; exact"""
        c, d = cd
        try:
            f = Fraction(int(x)) if isinstance(x, (int, _np().integer)) else Fraction(float(x))
            if power == 1:
                q = (f - n * c) / d
            else:
                q = (f - n * c * c - 2 * c * d * s) / (d * d)
        except Exception:
            return repr(x)
        return int(q) if q.denominator == 1 else repr(x)

    def _scale(self):
        if self._sc is None:
            k = self.ok
            if k == 'mixhalf':
                self._sc = Fraction(1, 2)
            elif k.startswith('p2:'):
                self._sc = Fraction(2) ** int(k[3:])
            elif k.startswith('dec:'):
                self._sc = Fraction(float(k[4:]))
            else:
                self._sc = Fraction(1)
        return self._sc

    def base_num(self, x, power=1, n=None, s=None):
        """the base (unscaled) integer behind a stored number; comparisons are RELATIVE to the scale.
        `n` (number of merged values) and `s` (their base sum) are needed by the affine R15 kinds only."""
        if self._aff is not None:
            return self._unaff(x, self._aff, power, n, s) if n is not None else repr(x)
        sc = self._scale()
        if sc == 1:
            # (fast path, same answer: an integral number is shown as that integer, anything else verbatim)
            if isinstance(x, (int, _np().integer)):
                return int(x)
            try:
                fl = float(x)
                return int(fl) if fl == int(fl) else repr(x)
            except Exception:
                return repr(x)
        try:
            f = Fraction(int(x)) if isinstance(x, (int, _np().integer)) else Fraction(float(x))
        except Exception:
            return repr(x)
        q = f / sc ** power
        r = round(q)
        if q == r or (self.ok.startswith('dec:') and abs(q - r) <= Fraction(1, 10 ** 9) * max(1, abs(r))):
            return int(r)
        return repr(x)


def snap(x):
    """deep structural snapshot (type, dtype, shape, values) used to detect that an input or a returned
    object was modified later"""
    np = _np()
    if isinstance(x, np.ndarray):
        return ('nd', x.dtype.str, x.shape, x.tolist())
    if isinstance(x, (list, tuple)):
        return (type(x).__name__, [snap(e) for e in x])
    if isinstance(x, dict):
        return ('dict', sorted(((str(k), snap(v)) for k, v in x.items()), key=lambda t: t[0]))
    if isinstance(x, (set, frozenset)):
        return ('set', sorted(str(e) for e in x))
    if isinstance(x, np.generic):
        return ('np', x.dtype.str, x.item())
    return (type(x).__name__, x)


def mat_desc(case):
    """short description of the materialisation, used in failure classes (computed from the input)"""
    m = case.get('mat') or {}
    bits = sorted(set(m.get('params', {}).values()) | set(k for k in m.get('new', []) if k != 'list'))
    for key in ('fixed', 'outs', 'repmax', 'index'):
        if m.get(key) not in (None, 'same', 'int'):
            bits.append('%s=%s' % (key, m[key]))
    return ','.join(bits) or 'plain'


def tag_class(case, cls):
    rc = case.get('rclass')
    return '%s:%s' % (rc, cls) if rc else cls


# ------------------------------------------------------------------ implementation adapter
def _int(x):
    """exact integer value of an int / integral float (anything else is shown verbatim)"""
    if isinstance(x, float):
        f = Fraction(x)
        return str(f.numerator) if f.denominator == 1 else repr(x)
    try:
        return str(int(x)) if int(x) == x else repr(x)
    except Exception:
        return repr(x)


def _stat(res, j, mat=None):
    """sufficient statistics of the j-th stored variation of a SimulationResults object, as BASE integers
    (type and scale of the values `_run_simulation` returned are undone; tolerance relative to the scale)"""
    mat = mat or Mat({})
    s, ra, mi, tk, sk = (res[n][j] for n in ('sum', 'ratio', 'misc', 'tok', 'num_skipped_reps'))
    sb = mat.base_num(s._value, 1, s.num_updates)
    return '/'.join([str(sb), str(mat.base_num(s._result_squared_sum, 2, s.num_updates, sb)),
                     _int(s.num_updates), _int(ra._value), _int(ra._total), _int(ra.num_updates),
                     str(mat.base_misc(mi._value)), _int(tk._value)]), _int(sk._value)


# ------------------------------------------------------------------ extra results: every observable of a Result
XTYPES = 'SRMC'


def xr_specs(case):
    """[(type letter, accumulate flag, updates per repetition, construction form)]"""
    out = []
    for t in case.get('xr') or []:
        f = t.split(':')
        out.append((f[0][0], f[0][1] == '1', int(f[1]), f[2] if len(f) > 2 else 'ctor'))
    return out


def xr_token(case):
    return ','.join('%s:%s' % tuple(t.split(':')[:2]) for t in case.get('xr') or [])


def x_update(ty, a, j):
    """the j-th update of an extra result in the repetition that returned `a`: (value, total)"""
    if ty in 'SM':
        return a + j, None
    if ty == 'R':
        return (abs(a) + j) % 5, 8 * (j + 1)
    return (abs(a) + j) % 4, None


def build_extras(res, case, a, mat=None, callno=0):
    """adds the extra results of one repetition to the SimulationResults `res`, through the construction
    form of each spec: constructor + update / Result.create / add_new_result; R8: arguments positional or
    by keyword; R12: the results are added in an order that changes from repetition to repetition"""
    from pyphysim.simulations.results import Result
    np = _np()
    mat = mat or Mat({})
    code = {'S': Result.SUMTYPE, 'R': Result.RATIOTYPE, 'M': Result.MISCTYPE, 'C': Result.CHOICETYPE}
    conv = {'int': int, 'np.int64': np.int64, 'np.int16': np.int16}[case.get('xtype', 'int')]
    order = list(enumerate(xr_specs(case)))
    if case.get('xorder') is not None and order:
        sh = (case['xorder'] + 7 * callno) % len(order)
        order = order[sh:] + order[:sh]
        if (case['xorder'] + callno) % 2:
            order.reverse()
    for i, (ty, acc, k, form) in order:
        name = 'x%d' % i
        ups = [x_update(ty, a, j) for j in range(k)]
        cn = 4 if ty == 'C' else None

        def upd(r, v, t):
            kw = mat.pick(2)
            if t is None:
                r.update(conv(v)) if kw == 0 else r.update(value=conv(v))
            else:
                r.update(conv(v), conv(t)) if kw == 0 else r.update(value=conv(v), total=conv(t))
        if form == 'create' and k >= 1:
            v0, t0 = ups[0]
            tot = 4 if ty == 'C' else (conv(t0) if t0 is not None else 0)
            kw = mat.pick(3)
            if kw == 0:
                r = Result.create(name, code[ty], conv(v0), tot, accumulate_values=acc)
            elif kw == 1:
                r = Result.create(name=name, update_type=code[ty], value=conv(v0), total=tot, accumulate_values=acc)
            else:
                r = Result.create(name, code[ty], conv(v0), tot, acc)
            for v, t in ups[1:]:
                upd(r, v, t)
            res.add_result(r)
        elif form == 'addnew' and k >= 1 and not acc:
            v0, t0 = ups[0]
            tot = 4 if ty == 'C' else (conv(t0) if t0 is not None else 0)
            if mat.pick(2) == 0:
                res.add_new_result(name, code[ty], conv(v0), tot)
            else:
                res.add_new_result(name=name, update_type=code[ty], value=conv(v0), total=tot)
            for v, t in ups[1:]:
                upd(res[name][-1], v, t)
        else:
            kw = mat.pick(3)
            if kw == 0:
                r = Result(name, code[ty], accumulate_values=acc, choice_num=cn)
            elif kw == 1:
                r = Result(name, code[ty], acc, cn)
            else:
                r = Result(name=name, update_type_code=code[ty], accumulate_values=acc, choice_num=cn) \
                    if (acc or cn) else (Result(name, code[ty]) if ty != 'C' else Result(name, code[ty], False, cn))
            for v, t in ups:
                upd(r, v, t)
            res.add_result(r) if mat.pick(2) == 0 else res.add_result(result=r)


def _frac(x):
    if isinstance(x, int):
        return '%d_1' % x
    return '%d_%d' % float(x).as_integer_ratio()      # (lowest terms, positive denominator: as Fraction(x))


def rcanon(r):
    """every observable of one Result object, in the model's notation"""
    from pyphysim.simulations.results import Result
    letter = {Result.SUMTYPE: 'S', Result.RATIOTYPE: 'R', Result.MISCTYPE: 'M', Result.CHOICETYPE: 'C'}.get(
        r.type_code, '?%r' % (r.type_code,))
    try:
        v = '.'.join(str(int(x)) for x in r._value) if letter == 'C' else _int(r._value)
        return '%s%d<%s,%s,%s,%s,%s,%s,%s>' % (
            letter, 1 if r.accumulate_values_bool else 0, v, _int(r._total), _int(r.num_updates),
            _frac(r._result_sum), _frac(r._result_squared_sum),
            '.'.join(_int(x) for x in r._value_list), '.'.join(_int(x) for x in r._total_list))
    except Exception as e:
        return '%s?%s' % (letter, type(e).__name__)


def _xstat(res, j, case):
    specs = xr_specs(case)
    if not specs:
        return ''
    return '~' + ''.join(rcanon(res['x%d' % i][j]) if 'x%d' % i in res.get_result_names()
                         and j < len(res['x%d' % i]) else '!missing' for i in range(len(specs)))


def expected_extras(case, succ):
    """first principles: what the stored extra results must show after the successful repetitions `succ`
    (their values `a`, in execution order) were merged: values / totals / counts are sums (MISC: the last
    repetition), the accumulated lists hold every update of every repetition in order"""
    specs = xr_specs(case)
    if not specs:
        return ''
    out = []
    for ty, acc, k, form in specs:
        ups = [x_update(ty, a, j) for a in succ for j in range(k)]
        vl = [v for v, t in ups] if acc else []
        tl = [t for v, t in ups] if (acc and ty == 'R') else []
        rsum = rsq = Fraction(0)
        total = 0
        if ty == 'S':
            value = sum(v for v, t in ups)
            n = len(ups)
            rsum = Fraction(value)
            rsq = Fraction(sum(v * v for v, t in ups))
            v_s = str(value)
        elif ty == 'R':
            value = sum(v for v, t in ups)
            total = sum(t for v, t in ups)
            n = len(ups)
            rsum = sum((Fraction(v, t) for v, t in ups), Fraction(0))
            rsq = sum((Fraction(v, t) ** 2 for v, t in ups), Fraction(0))
            v_s = str(value)
        elif ty == 'M':
            last = [x_update(ty, succ[-1], j) for j in range(k)] if succ else []
            v_s = str(last[-1][0]) if last else '0'
            n = k if succ else 0
        else:
            cnt = [0, 0, 0, 0]
            for v, t in ups:
                cnt[v] += 1
            v_s = '.'.join(str(c) for c in cnt)
            total = len(ups)
            n = len(ups)
        out.append('%s%d<%s,%d,%d,%s,%s,%s,%s>' % (ty, 1 if acc else 0, v_s, total, n, _frac(rsum), _frac(rsq),
                                                    '.'.join(str(x) for x in vl), '.'.join(str(x) for x in tl)))
    return '~' + ''.join(out)


def expected_main(succ):
    """first principles: squares / num_updates of the SUM result, value / total / num_updates of the RATIO
    result and the MISC value after the successful repetitions `succ` (base values, in execution order)"""
    n = len(succ)
    return [str(sum(a * a for a in succ)), str(n), str(sum(abs(a) % 5 for a in succ)), str(8 * n), str(n),
            str(succ[-1]) if succ else '0']


def gen_xr(rng, n=None):
    """extra results of the scripted program: every type x accumulate on / off x 0-2 updates per
    repetition x construction form"""
    out = []
    for _ in range(rng.randint(1, 4) if n is None else n):
        ty = rng.choice('SRMCMM')
        acc = rng.chance(0.65)
        k = rng.choice([1, 1, 2, 2, 0])
        form = rng.choice(['ctor', 'create', 'create', 'addnew'])
        out.append('%s%d:%d:%s' % (ty, 1 if acc else 0, k, form))
    return out


def _reps(x):
    if x is None:
        return 'none'
    if isinstance(x, list):
        return 'L:' + ','.join(str(int(v)) for v in x)
    return 'S:%d' % int(x)


def call_simulate(runner, op):
    mat = runner.mat
    if op == 'all':
        k = mat.pick(3)
        return runner.simulate() if k == 0 else runner.simulate(None) if k == 1 \
            else runner.simulate(param_variation_index=None)
    i = mat.index(int(op.split(':')[1]))
    return runner.simulate(i) if mat.pick(2) == 0 else runner.simulate(param_variation_index=i)


def call_values(res, mfx, mat, raw_empty=False):
    k = mat.pick(3)
    if not mfx and raw_empty:
        return res.get_result_values_list('tok') if k == 0 else res.get_result_values_list('tok', None) \
            if k == 1 else res.get_result_values_list(result_name='tok', fixed_params={})
    return res.get_result_values_list('tok', mfx) if k == 0 else \
        res.get_result_values_list('tok', fixed_params=mfx) if k == 1 else \
        res.get_result_values_list(result_name='tok', fixed_params=mfx)


def call_pack(p, mfx, mat):
    return p.get_pack_indexes(mfx) if mat.pick(2) == 0 else p.get_pack_indexes(fixed_params_dict=mfx)


def call_add(p, name, value, mat):
    k = mat.pick(3)
    if k == 0:
        p.add(name, value)
    elif k == 1:
        p[name] = value
    else:
        p.add(name=name, value=value)


def call_unpack(p, name, flag, mat):
    k = mat.pick(3)
    if flag and k == 0:
        p.set_unpack_parameter(name)
    elif k == 1:
        p.set_unpack_parameter(name=name, unpack_bool=flag)
    else:
        p.set_unpack_parameter(name, flag)


def make_params(case, mat=None):
    from pyphysim.simulations.parameters import SimulationParameters
    mat = mat or Mat(case)
    if mat.af is not None and mat.pick(2) == 1:
        # R8: the constructor path (create) instead of add(), unpack flags in another order
        d = {FIXED_EXTRA: FIXED_EXTRA_VALUE}
        for n in case['names']:
            d[n] = mat.container(n, case['vals'][n])
        p = SimulationParameters.create(d)
        for n in reversed(case['names']):
            call_unpack(p, n, True, mat)
        return p
    p = SimulationParameters()
    p.add(FIXED_EXTRA, FIXED_EXTRA_VALUE)
    for j in range(case.get('nfixed', 0)):          # R14: hundreds of parameters that are not unpacked
        p.add('p%03d' % j, j if j % 3 else [j, j + 1])
    for n in case['names']:
        call_add(p, n, mat.container(n, case['vals'][n]), mat)
        call_unpack(p, n, True, mat)
    return p


def make_runner(case, mat=None, content=None, repmax=None):
    """a SimulationRunner whose `_run_simulation` replays case['outs'] and whose `_keep_going`
    applies case['keep']; both log what they see (in base integers). `content` = (dict, unpacked set)
    overrides the initial grid of the case (used for freshly built twins)."""
    from pyphysim.simulations.results import Result, SimulationResults
    from pyphysim.simulations.runner import SimulationRunner, SkipThisOne
    outs = case['outs']
    mat = mat or Mat(case)

    class Scripted(SimulationRunner):
        def __init__(self):
            super().__init__(read_command_line_args=False)
            self.update_progress_function_style = None
            self.pos = 0
            self.calllog = []
            self.events = []      # interleaved ('run', ...) / ('keep', ...) events

        def _run_simulation(self, current_parameters):
            if self.pos >= len(outs):
                self.events.append(('exhausted', current_parameters.unpack_index))
                raise ScriptExhausted()
            c = self.pos
            o = outs[c]
            self.pos += 1
            # the values this variation carries for the parameters that are unpacked right now
            names = list(self.params._unpacked_parameters_set) + [
                n for n in case.get('logfixed', []) if n in current_parameters.parameters]
            self.calllog.append((current_parameters.unpack_index, c, o,
                                 {n: mat.canon(n, current_parameters[n]) for n in names}))
            self.events.append(('run',) + self.calllog[-1])
            if o == 's':
                raise SkipThisOne('scripted skip')
            r = SimulationResults()
            adders = [lambda: r.add_new_result('sum', Result.SUMTYPE, mat.out(o)),
                      lambda: r.add_new_result('ratio', Result.RATIOTYPE, abs(o) % 5, 8),
                      lambda: r.add_new_result('misc', Result.MISCTYPE, mat.out_misc(o)),
                      lambda: r.add_new_result('tok', Result.SUMTYPE, 1 << c)]
            if case.get('xorder') is not None:
                sh = (case['xorder'] + c) % 4
                adders = adders[sh:] + adders[:sh]
                build_extras(r, case, o, mat, c)      # ... and the extra results first on these repetitions
                for f in adders:
                    f()
                return r
            for f in adders:
                f()
            build_extras(r, case, o, mat, c)
            return r

        def _keep_going(self, current_params, current_sim_results, current_rep):
            pos = max(current_params.unpack_index, 0)
            sm = mat.base_num(current_sim_results['sum'][-1]._value, 1, current_sim_results['sum'][-1].num_updates)
            v = eval_rule(rule_for(case, pos), sm,
                          current_sim_results['num_skipped_reps'][-1]._value, current_rep)
            self.events.append(('keep', current_params.unpack_index, sm,
                                current_sim_results['tok'][-1]._value, current_rep, v))
            return v

    runner = Scripted()
    runner.mat = mat
    runner.case = case
    runner.rep_max = mat.repmax(case['repmax'] if repmax is None else repmax)
    p = runner.params
    p.add(FIXED_EXTRA, FIXED_EXTRA_VALUE)
    if content is None:
        for n in case['names']:
            call_add(p, n, mat.container(n, case['vals'][n]), mat)
            call_unpack(p, n, True, mat)
    else:
        d, u = content
        for n in sorted(d):
            v = d[n]
            p.add(n, mat.container(n, v, mat.kind.get(n)) if isinstance(v, list) else v)
        for n in sorted(u):
            p.set_unpack_parameter(n)
    return runner


def observe(runner, tmp, with_store=True):
    """every observable of the runner the property speaks about (for before/after comparisons)"""
    from pyphysim.simulations.results import SimulationResults
    res = runner.results
    nres = len(res['sum']) if 'sum' in res.get_result_names() else 0
    stats = [_stat(res, j, runner.mat) for j in range(nres)]
    xstats = [_xstat(res, j, runner.case) for j in range(nres)]
    store = {}
    if with_store and tmp is not None:
        for fn in sorted(os.listdir(tmp)):
            if '_unpack_' in fn:
                idx = int(fn.split('_unpack_')[1].split('.')[0])
                sr = SimulationResults.load_from_file(os.path.join(tmp, fn))
                st, sk = _stat(sr, 0, runner.mat)
                store[idx] = (int(sr.current_rep), sk, st, _xstat(sr, 0, runner.case))
    p = runner.params
    return {'stats': stats, 'xstats': xstats, 'reps': _reps(runner.runned_reps), 'rr': _reps(res.runned_reps), 'store': store,
            'params': snap({k: v for k, v in p.parameters.items()}), 'unpacked': sorted(p._unpacked_parameters_set),
            'rep_max': int(runner.rep_max), 'results_id': id(res)}


def diff_obs(a, b, ignore=()):
    return [k for k in a if k not in ignore and a[k] != b[k]]


def run_op(runner, op, tmp, before=None):
    """one simulate() / simulate(index) call; returns (canonical part, observation). `before`: the observation
    made after the previous call when nothing happened in between (saves observing twice)"""
    start = len(runner.calllog)
    estart = len(runner.events)
    before = before or observe(runner, tmp)
    status = 'ok'
    try:
        call_simulate(runner, op)
    except ScriptExhausted:
        status = 'Exhausted'
    except Exception as e:  # SkipThisOne, RuntimeError, ...
        status = type(e).__name__
    calls = runner.calllog[start:]
    after = observe(runner, tmp)
    stats, store = after['stats'], after['store']
    part = 'st=%s log=%s reps=%s rr=%s res=%s store=%s' % (
        status, ','.join(str(c[0]) for c in calls), after['reps'], after['rr'],
        '|'.join('%s%s/%s' % (st, x, sk) for (st, sk), x in zip(stats, after['xstats'])),
        '|'.join('%d:%d:%s:%s%s' % ((i,) + store[i]) for i in sorted(store)))
    ob = {'status': status, 'calls': calls, 'events': runner.events[estart:], 'reps': runner.runned_reps,
          'stats': stats, 'xstats': after['xstats'], 'store': dict(store), 'after': after}
    if status not in ('ok', 'Exhausted', 'SkipThisOne'):
        # R4: a rejected call must leave every observable as it was
        ob['rejected_changed'] = diff_obs(before, after, ignore=('results_id',))
    # R3: what was handed to the library must not have been modified
    ob['inputs_mutated'] = [w for w, o, sn in runner.mat.inputs if snap(o) != sn]
    return part, ob


def run_impl(case, scratch):
    """Run the scenario on the real code. Returns (canonical string, observations)."""
    # (a scratch directory is only needed when the scenario has a results file)
    tmp = tempfile.mkdtemp(prefix='c05_', dir=scratch) if case['file'] else None
    try:
        mat = Mat(case)
        runner = make_runner(case, mat)
        if case['file']:
            runner.set_results_filename(os.path.join(tmp, 'res'))
            runner.partial_results_folder = None
        parts = []
        obs = {'ops': []}
        last = None
        for op in case['ops']:
            part, ob = run_op(runner, op, tmp, last)
            last = ob.pop('after')
            parts.append(part)
            obs['ops'].append(ob)
        looks = []
        obs['look'] = []
        returned = []
        for fx in case['look']:
            before = observe(runner, tmp, with_store=False)
            try:
                v = call_values(runner.results, mat.fixed(fx), mat)
                looks.append(','.join(_int(x) for x in v))
                obs['look'].append(('ok', [int(x) for x in v]))
                returned.append(('get_result_values_list%r' % (fx,), v, snap(v)))
            except BaseException as e:
                looks.append('error:' + type(e).__name__)
                obs['look'].append(('error', type(e).__name__))
            ch = diff_obs(before, observe(runner, tmp, with_store=False))
            if ch:
                obs.setdefault('lookup_changed_state', []).append((fx, ch))
            mat.scribble()          # R16 (iii): the argument is modified right after the call
        obs['inputs_mutated'] = [w for w, o, sn in mat.inputs if snap(o) != sn]
        obs['returned_changed'] = [w for w, o, sn in returned if snap(o) != sn]
        return ' ; '.join(parts) + ' ; look=' + '/'.join(looks), obs
    finally:
        if tmp is not None:
            shutil.rmtree(tmp, ignore_errors=True)


# ------------------------------------------------------------------ merge / append paths without a runner
def mrg_line(case):
    return 'mrg xr=%s groups=%s' % (xr_token(case), '|'.join('.'.join(str(a) for a in g) for g in case['groups']))


def _rep_results(case, a, c, mat=None):
    """the SimulationResults one repetition returns (same program as the scripted runner)"""
    from pyphysim.simulations.results import Result, SimulationResults
    r = SimulationResults()
    r.add_new_result('sum', Result.SUMTYPE, a)
    r.add_new_result('ratio', Result.RATIOTYPE, abs(a) % 5, 8)
    r.add_new_result('misc', Result.MISCTYPE, a)
    r.add_new_result('tok', Result.SUMTYPE, 1 << c)
    build_extras(r, case, a, mat, c)
    return r


def _canon_results(res, j, case):
    s, ra, mi, tk = (res[n][j] for n in ('sum', 'ratio', 'misc', 'tok'))
    return '/'.join([_int(s._value), _int(s._result_squared_sum), _int(s.num_updates), _int(ra._value),
                     _int(ra._total), _int(ra.num_updates), _int(mi._value), _int(tk._value)]) + _xstat(res, j, case)


def run_mrg_impl(case):
    """the paths the runner uses, driven directly: every group of repetitions is folded with
    `merge_all_results` (start='empty': into a new SimulationResults; 'first': into the first repetition;
    'result': Result.merge on the Result objects), the folded groups are appended to one collector with
    `append_all_results` (or `append_result`, one Result at a time). Operands are snapshotted (R3)."""
    from pyphysim.simulations.results import SimulationResults
    collector = SimulationResults()
    mat = Mat(case)
    c = 0
    operands = []
    ngroups = 0
    for g in case['groups']:
        reps = []
        for a in g:
            reps.append(_rep_results(case, a, c, mat))
            c += 1
        if not reps:
            continue
        start = case.get('start', 'empty')
        if start == 'empty':
            acc = SimulationResults()
            rest = reps
        else:
            acc = reps[0]
            rest = reps[1:]
        for r in rest:
            operands.append((r, _canon_results(r, 0, case)))
        for r in rest:
            if start == 'result':
                for name in acc.get_result_names():
                    acc[name][-1].merge(r[name][-1])
            else:
                acc.merge_all_results(r)
        if case.get('append', 'all') == 'all':
            collector.append_all_results(acc)
        else:
            for name in acc.get_result_names():
                collector.append_result(acc[name][-1])
        ngroups += 1
    parts = []
    k = 0
    for g in case['groups']:
        if not g:
            parts.append('empty')
        else:
            parts.append(_canon_results(collector, k, case))
            k += 1
    obs = {'parts': parts, 'operands_changed': [i for i, (r, sn) in enumerate(operands)
                                                if _canon_results(r, 0, case) != sn]}
    return '|'.join(parts), obs


def oracle_mrg(case, obs):
    out = []
    call = 'SimulationResults.merge_all_results'
    c = 0
    for gi, (g, part) in enumerate(zip(case['groups'], obs['parts'])):
        if not g:
            continue
        toks = sum(1 << (c + j) for j in range(len(g)))
        exp = '/'.join(str(x) for x in [sum(g), sum(a * a for a in g), len(g), sum(abs(a) % 5 for a in g),
                                        8 * len(g), len(g), g[-1], toks]) + expected_extras(case, list(g))
        c += len(g)
        if part != exp:
            out.append((call, 'stored-result-observables-not-fold',
                        'group %d (repetitions %r, start=%s, append=%s): %s, fold of the repetitions %s'
                        % (gi, g, case.get('start'), case.get('append'), part, exp)))
            break
    if obs.get('operands_changed'):
        out.append((call, 'R3:input-mutated', 'merged-in operands %r changed' % obs['operands_changed'][:3]))
    return out


def gen_mrg(rng):
    groups = [[rng.randint(-3, 6) for _ in range(rng.choice([0, 1, 1, 2, 3, 4]))] for _ in range(rng.randint(1, 4))]
    return dict(kind='mrg', xr=gen_xr(rng, rng.randint(1, 5)), groups=groups,
                start=rng.choice(['empty', 'first', 'result']), append=rng.choice(['all', 'all', 'result']),
                xtype=rng.choice(['int', 'int', 'np.int64', 'np.int16']))


# ------------------------------------------------------------------ histories that mutate the parameters
def hist_line(case):
    names = case['names']
    vals = '|'.join(','.join(str(v) for v in case['vals'][n]) for n in names)
    outs = ','.join('s' if o == 's' else str(o) for o in case['outs'])
    return 'hist names=%s vals=%s repmax=%d keep=%s outs=%s ops=%s' % (
        ','.join(names), vals, case['repmax'], ';'.join(case['keep']), outs,
        ','.join(m for op in case['ops'] for m in model_ops(op))) \
        + (' xr=' + xr_token(case) if case.get('xr') else '')


def model_ops(op):
    """the model sees CONTENT: refilling in place the container bound to the parameters a, b (R16, no library
    call at all) is, for the model, the replacement of their value lists"""
    if op.startswith('pfill:'):
        t = op.split(':')
        return ['padd:%s:%s' % (n, t[2]) for n in t[1].split('+')]
    return [op]


def parse_hop(op):
    """('all',) | ('single', i) | ('rmax', k) | ('file', b) | ('del', b) | ('padd', name, [ints]) |
    ('pscalar', name, int) | ('prem', name) | ('punp', name, bool) | ('q', fixed) | ('hq', fixed)"""
    if op == 'all':
        return ('all',)
    if op == 'nq':
        return ('nq',)
    if op.startswith('q:') or op.startswith('hq:'):
        kind, body = op.split(':', 1)
        fx = []
        for t in [x for x in body.split('+') if x]:
            k, v = t.split(':')
            fx.append((k, int(v)))
        return (kind, fx)
    t = op.split(':')
    if t[0] == 'padd':
        return ('padd', t[1], [int(x) for x in t[2].split('.') if x])
    if t[0] == 'pfill':
        return ('pfill', t[1].split('+'), [int(x) for x in t[2].split('.') if x])
    if t[0] == 'pscalar':
        return ('pscalar', t[1], int(t[2]))
    if t[0] == 'prem':
        return ('prem', t[1])
    if t[0] == 'punp':
        return ('punp', t[1], t[2] == '1')
    if t[0] in ('single', 'rmax'):
        return (t[0], int(t[1]))
    if t[0] in ('file', 'del'):
        return (t[0], t[1] == '1')
    raise ValueError(op)


def apply_content(content, hop, repmax=None, file=True):
    """what the parameters object must store after the call (own bookkeeping, Python dict/set
    semantics of the documented API); content = (dict name -> list | int, set of unpacked names).
    A simulate() call stores the current rep_max under 'rep_max' (a refused one does not)."""
    d, u = content
    if hop[0] == 'padd':
        d[hop[1]] = list(hop[2])
    elif hop[0] == 'pfill':
        for nm in hop[1]:
            d[nm] = list(hop[2])
    elif hop[0] == 'pscalar':
        d[hop[1]] = hop[2]
    elif hop[0] == 'prem':
        if hop[1] in d:
            del d[hop[1]]
            u.discard(hop[1])
    elif hop[0] == 'punp':
        if hop[1] in d and isinstance(d[hop[1]], list):
            if hop[2]:
                u.add(hop[1])
            else:
                u.discard(hop[1])
    elif hop[0] == 'all' or (hop[0] == 'single' and file):
        if repmax is not None:
            d['rep_max'] = repmax


def copy_content(content):
    return ({k: (list(v) if isinstance(v, list) else v) for k, v in content[0].items()}, set(content[1]))


def query_params(p, res, mfx, with_results, mat):
    """every look-up the property speaks about, on the parameters object `p` (and the results
    object `res`): (num, combos, unpack indexes, pack, values); values in base integers"""
    out = {}
    try:
        out['n'] = int(p.get_num_unpacked_variations())
        lst = p.get_unpacked_params_list()
        names = sorted(p._unpacked_parameters_set)
        out['combos'] = [[mat.canon(n, c[n]) for n in names] for c in lst]
        out['idx'] = [c.unpack_index for c in lst]
        if mat.reuse and names:
            # R16: the variations handed out now are values: a later refill of the caller's container must
            # not change what they carry
            out['children'] = [(c, names, [elem_key(c[n]) for n in names]) for c in lst[:6]]
    except Exception as e:
        out['error'] = type(e).__name__
        return out
    try:
        arr = call_pack(p, mfx, mat)
        out['pack'] = ('ok', [int(x) for x in arr])
        out['pack_obj'] = arr
    except BaseException as e:
        out['pack'] = ('error', type(e).__name__)
    if with_results:
        try:
            v = call_values(res, mfx, mat, raw_empty=True)
            out['rv'] = ('ok', [int(x) for x in v])
            out['rv_obj'] = v
        except BaseException as e:
            out['rv'] = ('error', type(e).__name__)
    return out


def _show_pack(r):
    return ','.join(str(x) for x in r[1]) if r[0] == 'ok' else 'error:' + r[1]


def deep_observe(runner, tmp):
    """observe() plus every observable of every stored Result of every name"""
    o = observe(runner, tmp, with_store=False)
    res = runner.results
    o['allres'] = {n: [rcanon(r) for r in res[n]] for n in sorted(res.get_result_names())}
    o['attrs'] = (runner.delete_partial_results_bool, runner.results_filename, runner.progressbar_message,
                  runner.update_progress_function_style)
    return o


def nonmutating_calls(runner, tmp):
    """R11: every public call that is not documented as a setter, on the parameters, the results, the stored
    Result objects and the runner; returns the names of the calls after which an observable differed
    (a call that raises, e.g. the mean of a never-updated result, must not change anything either)"""
    import copy
    from pyphysim.simulations.parameters import SimulationParameters
    p, res = runner.params, runner.results
    calls = [
        ('repr(params)', lambda: repr(p)), ('len(params)', lambda: len(p)), ('iter(params)', lambda: list(p)),
        ('params == copy', lambda: p == copy.deepcopy(p)), ('params != other', lambda: p != SimulationParameters()),
        ('params == 3', lambda: p == 3), ('params.fixed_parameters', lambda: p.fixed_parameters),
        ('params.unpacked_parameters', lambda: p.unpacked_parameters), ('params.unpack_index', lambda: p.unpack_index),
        ('get_num_unpacked_variations', lambda: p.get_num_unpacked_variations()),
        ('get_unpacked_params_list', lambda: p.get_unpacked_params_list()),
        ('get_pack_indexes({})', lambda: p.get_pack_indexes({})),
        ('get_pack_indexes(absent)', lambda: p.get_pack_indexes({n: 'no such value' for n in p.unpacked_parameters})),
        ('params.to_dict', lambda: p.to_dict()), ('params.to_json', lambda: p.to_json()),
        ('params[name]', lambda: [p[n] for n in list(p.parameters)]),
        ('repr(results)', lambda: repr(res)), ('len(results)', lambda: len(res)),
        ('results.get_result_names', lambda: res.get_result_names()), ('results.params', lambda: res.params),
        ('results == copy', lambda: res == copy.deepcopy(res)), ('results != other', lambda: res != 3),
        ('results.to_dict', lambda: res.to_dict()), ('results.to_json', lambda: res.to_json()),
        ('get_result_values_list(all names)', lambda: [res.get_result_values_list(n) for n in res.get_result_names()]),
        ('get_result_values_confidence_intervals',
         lambda: [res.get_result_values_confidence_intervals(n, 95.0) for n in res.get_result_names()]),
        ('repr(runner)', lambda: repr(runner)), ('runner.elapsed_time', lambda: runner.elapsed_time),
        ('runner.runned_reps', lambda: runner.runned_reps), ('runner.results_filename', lambda: runner.results_filename),
        ('runner.params/results', lambda: (runner.params, runner.results)),
    ]
    for n in res.get_result_names():
        for r in res[n][-1:]:
            calls += [('repr(Result %s)' % n, lambda r=r: repr(r)), ('Result.get_result %s' % n, lambda r=r: r.get_result()),
                      ('Result.get_result_mean %s' % n, lambda r=r: r.get_result_mean()),
                      ('Result.get_result_var %s' % n, lambda r=r: r.get_result_var()),
                      ('Result.get_confidence_interval %s' % n, lambda r=r: r.get_confidence_interval()),
                      ('Result == copy %s' % n, lambda r=r: r == copy.deepcopy(r)),
                      ('Result.type_name %s' % n, lambda r=r: (r.type_name, r.type_code, r.accumulate_values_bool)),
                      ('Result.to_dict %s' % n, lambda r=r: r.to_dict()),
                      ('Result accumulated lists %s' % n,
                       lambda r=r: (r.get_result_accumulated_values(), r.get_result_accumulated_totals()))]
    bad = []
    before = deep_observe(runner, tmp)
    for name, f in calls:
        try:
            f()
        except Exception:
            pass
        now = deep_observe(runner, tmp)
        ch = diff_obs(before, now)
        if ch:
            bad.append((name, ch))
            before = now
    return bad, len(calls)


def run_hist_impl(case, scratch):
    """simulate() calls, look-ups, mutations of the parameter set and changes of runner attributes
    (rep_max, results file on/off, delete_partial_results_bool) interleaved on ONE runner / ONE
    SimulationParameters object.  Recorded besides the canonical string:
      * every look-up repeated on a freshly constructed SimulationParameters / SimulationResults with the
        same content (R7: no stale derived state);
      * every simulate() without a results file repeated on a freshly built runner with the current
        configuration and the same remaining outcomes (R7);
      * snapshots of everything handed to the library and of everything it returned, re-compared after
        later calls (R3); results objects held by the caller re-queried at the end (R3);
      * all observables before / after every rejected call (R4)."""
    from pyphysim.simulations.parameters import SimulationParameters
    from pyphysim.simulations.results import SimulationResults
    np = _np()
    # (scratch directories only when the history switches a results file on; the fresh twin never has one)
    tmp = tempfile.mkdtemp(prefix='c05h_', dir=scratch) if 'file:1' in case['ops'] else None
    tmp2 = None
    try:
        mat = Mat(case)
        runner = make_runner(case, mat)
        runner.partial_results_folder = None
        content = ({n: list(case['vals'][n]) for n in case['names']}, set(case['names']))
        repmax = case['repmax']
        file_on = False
        parts = []
        obs = {'ops': []}
        simulated = False
        res_content = None
        returned = []      # (what, object returned earlier, snapshot then)
        held = []          # (results object, materialised fixed, answer then)
        kept_children = []  # R16: (variation handed out earlier, names, exact values then)
        nnew = 0
        last = None        # observation (without the partial files) made after the previous op, while still valid
        for op in case['ops']:
            hop = parse_hop(op)
            ob = {'kind': hop[0]}
            if hop[0] in ('all', 'single'):
                refused = hop[0] == 'single' and not file_on
                twin = None
                if not file_on and hop[0] == 'all':
                    # R7: a freshly built runner with the current configuration, same remaining outcomes
                    tmat = Mat(case)
                    tmat.kind = dict(mat.kind)
                    tmat.share, tmat.reuse = [], False       # (new containers holding a copy of the contents)
                    tw = make_runner(case, tmat, content=copy_content(content), repmax=repmax)
                    tw.pos = runner.pos
                    tpart, tob = run_op(tw, 'all', tmp2)
                    twin = (tpart, tob['calls'])
                part, ob2 = run_op(runner, op if hop[0] == 'all' else 'single:%d' % hop[1], tmp,
                                   last if tmp is None else None)      # (no partial files in this history)
                last = dict(ob2.pop('after'), store={})
                ob.update(ob2)
                ob['twin'] = twin
                ob['part'] = part
                ob['cfg'] = {'repmax': repmax, 'file': file_on, 'delete': bool(runner.delete_partial_results_bool),
                             'content': copy_content(content), 'op': op}
                if not refused:
                    simulated = True
                    apply_content(content, hop, repmax, file_on)
                    res_content = (copy_content(content), dict(mat.kind))
            elif hop[0] == 'nq':
                last = None
                bad, ncalls = nonmutating_calls(runner, tmp)
                ob['nonmutating_changed'] = bad
                ob['ncalls'] = ncalls
                part = 'nq=ok'
            elif hop[0] in ('rmax', 'file', 'del'):
                last = None
                if hop[0] == 'rmax':
                    repmax = hop[1]
                    runner.rep_max = mat.repmax(repmax)
                elif hop[0] == 'file':
                    file_on = hop[1]
                    runner.set_results_filename(os.path.join(tmp, 'res') if file_on else None)
                else:
                    runner.delete_partial_results_bool = hop[1]
                part = 'a=ok'
            elif hop[0] in ('q', 'hq'):
                before = last or observe(runner, tmp, with_store=False)
                mfx = mat.fixed(hop[1])
                if hop[0] == 'hq':
                    if not simulated:
                        part = 'h=-'
                    else:
                        try:
                            v = call_values(runner.results, mfx, mat)
                            ans = ('ok', [int(x) for x in v])
                        except BaseException as e:
                            ans = ('error', type(e).__name__)
                        held.append((runner.results, {k2: (v2.copy() if isinstance(v2, np.ndarray) else v2)
                                                      for k2, v2 in mfx.items()}, ans))
                        part = 'h=' + _show_pack(ans)
                else:
                    q = query_params(runner.params, runner.results, mfx, simulated, mat)
                    kept_children.extend(q.pop('children', []))
                    fmat = Mat(case)
                    fmat.kind = dict(mat.kind)
                    fmat.share, fmat.reuse = [], False
                    fresh = SimulationParameters()
                    fresh.add(FIXED_EXTRA, FIXED_EXTRA_VALUE)
                    for k in sorted(content[0]):
                        v = content[0][k]
                        fresh.add(k, fmat.container(k, v, mat.kind.get(k)) if isinstance(v, list) else v)
                    for k in sorted(content[1]):
                        fresh.set_unpack_parameter(k)
                    # the results object carries the parameters it was simulated with
                    rp = runner.results.params
                    fres = SimulationResults()
                    fres._results = {k: list(v) for k, v in runner.results._results.items()}
                    fres.set_parameters(fresh)
                    qf = query_params(fresh, fres, fmat.fixed(hop[1]), False, fmat)
                    if simulated:
                        # ... i.e. the content at the time of the last simulate()
                        rmat = Mat(case)
                        rmat.kind = dict(res_content[1])
                        rmat.share, rmat.reuse = [], False
                        fresh2 = SimulationParameters()
                        fresh2.add(FIXED_EXTRA, FIXED_EXTRA_VALUE)
                        for k in sorted(res_content[0][0]):
                            v = res_content[0][0][k]
                            fresh2.add(k, rmat.container(k, v, rmat.kind.get(k)) if isinstance(v, list) else v)
                        for k in sorted(res_content[0][1]):
                            fresh2.set_unpack_parameter(k)
                        fres.set_parameters(fresh2)
                        try:
                            qf['rv'] = ('ok', [int(x) for x in fres.get_result_values_list('tok', mfx)])
                        except BaseException as e:
                            qf['rv'] = ('error', type(e).__name__)
                        ob['res_content'] = res_content[0]
                    for key in ('pack_obj', 'rv_obj'):
                        if key in q:
                            o = q.pop(key)
                            returned.append(('%s %s' % (key[:-4], op), o, snap(o)))
                            if isinstance(o, np.ndarray) and any(
                                    isinstance(i, np.ndarray) and np.shares_memory(o, i) for _, i, _ in mat.inputs):
                                ob['aliases_input'] = True
                        qf.pop(key, None)
                    if 'error' in q:
                        part = 'q=' + q['error']
                    else:
                        part = 'n=%d nc=%d combos=%s pack=%s rv=%s' % (
                            q['n'], len(q['combos']), '|'.join('.'.join(str(v) for v in c) for c in q['combos']),
                            _show_pack(q['pack']), _show_pack(q['rv']) if simulated else '-')
                    ob.update({'q': q, 'fresh': qf, 'fixed': hop[1], 'content': copy_content(content),
                               'results_params_shared': rp is runner.params})
                last = observe(runner, tmp, with_store=False)
                ch = diff_obs(before, last)
                if ch:
                    ob['lookup_changed_state'] = ch
                mat.scribble()          # R16 (iii): the argument is modified right after the call
            elif hop[0] == 'pfill':
                # R16: the caller refills, in place, the container it handed over earlier; no library call
                last = None
                mat.refill(hop[1], hop[2])
                apply_content(content, hop)
                part = ' ; '.join('p=ok' for _ in hop[1])
                ob['status'] = 'ok'
                ob['refilled'] = list(hop[1])
            else:
                before = last or observe(runner, tmp, with_store=False)
                last = None
                status = 'ok'
                p = runner.params
                try:
                    if hop[0] == 'padd':
                        kind = mat.kind.get(hop[1]) if hop[1] in mat.kind and mat.new == ['list'] \
                            else mat.new_kind(nnew)
                        nnew += 1
                        call_add(p, hop[1], mat.container(hop[1], hop[2], kind), mat)
                    elif hop[0] == 'pscalar':
                        mat.kind.pop(hop[1], None)
                        mat.table.pop(hop[1], None)
                        mat.elemfn.pop(hop[1], None)
                        call_add(p, hop[1], np.array(hop[2]) if case.get('zerod') else hop[2], mat)
                    elif hop[0] == 'prem':
                        p.remove(hop[1])
                    else:
                        call_unpack(p, hop[1], hop[2], mat)
                except Exception as e:
                    status = type(e).__name__
                apply_content(content, hop)
                part = 'p=' + status
                ob['status'] = status
                if status != 'ok':
                    last = observe(runner, tmp, with_store=False)
                    ob['rejected_changed'] = diff_obs(before, last)
            ob['inputs_mutated'] = [w for w, o, sn in mat.inputs if snap(o) != sn]
            parts.append(part)
            obs['ops'].append(ob)
        # R3 at the end of the history: objects returned / held earlier still say what they said
        obs['returned_changed'] = [w for w, o, sn in returned if snap(o) != sn]
        obs['held'] = []
        helds = []
        for res, mfx, ans in held:
            try:
                v = res.get_result_values_list('tok', mfx)
                now = ('ok', [int(x) for x in v])
            except BaseException as e:
                now = ('error', type(e).__name__)
            obs['held'].append((ans, now))
            helds.append(_show_pack(now))
        parts.append('held=' + '|'.join(helds))
        obs['children_changed'] = [
            (c.unpack_index, names) for c, names, keys in kept_children
            if [elem_key(c[n]) if n in c.parameters else None for n in names] != keys][:3]
        obs['nrefills'] = mat.nrefills
        return ' ; '.join(parts), obs
    finally:
        if tmp is not None:
            shutil.rmtree(tmp, ignore_errors=True)


def _pseudo(case, content):
    """the grid the object holds right now, as a case for the grid oracles"""
    d, u = content
    names = sorted(u)
    return dict(case, names=names, vals={n: d[n] for n in names}, file=False, look=[])


HIST_CALLS = {'padd': 'SimulationParameters.add', 'pscalar': 'SimulationParameters.add',
              'pfill': 'SimulationParameters.add',
              'prem': 'SimulationParameters.remove', 'punp': 'SimulationParameters.set_unpack_parameter',
              'all': 'SimulationRunner.simulate', 'single': 'SimulationRunner.simulate',
              'q': 'SimulationParameters.get_pack_indexes', 'hq': 'SimulationResults.get_result_values_list'}


def oracle_hist(case, obs):
    """Property on a history that mutates the parameter set and the runner attributes:
      * every simulate() obeys the repetition discipline for the CURRENT grid, the CURRENT rep_max, the
        current results-file setting (first principles, from the event log);
      * every look-up equals the look-up on a freshly built object with the same content, every simulate()
        without a results file equals the one of a freshly built runner (R7: no stale state);
      * look-ups return the combinations that carry the fixed values (first principles);
      * rejected calls change nothing (R4); inputs, returned objects and held results objects are not
        modified by later calls (R3)."""
    out = []

    def emit(call, cls, detail):
        out.append((call, tag_class(case, cls), detail))

    # ---- simulate() calls, first principles with the configuration in force at each call
    cfgs, sobs = [], []
    last_attr = None
    for op, ob in zip(case['ops'], obs['ops']):
        k = ob['kind']
        if k in ('rmax', 'file', 'del'):
            last_attr = {'rmax': 'rep_max', 'file': 'results-file', 'del': 'delete-partial'}[k]
        if k in ('all', 'single'):
            d, u = ob['cfg']['content']
            names = sorted(u)
            if any(not isinstance(d[n], list) for n in names):
                break
            tag = None
            if 'rep_max' in d and d['rep_max'] != ob['cfg']['repmax']:
                tag = 'R7:rep_max-entry-in-params-differs'
            elif last_attr:
                tag = 'R7:after-%s-change' % last_attr
            cfgs.append(dict(op=ob['cfg']['op'], names=names, vals={n: d[n] for n in names},
                             repmax=ob['cfg']['repmax'], file=ob['cfg']['file'], delete=ob['cfg']['delete'],
                             tag=tag))
            sobs.append(ob)
    out += oracle_sim(dict(case, look=[]), {'ops': sobs, 'look': []}, cfgs)
    if out:
        return out
    # ---- everything else, in history order
    last_stats = None     # stats of the results object in place (None: not a completed all-variations run)
    mutated = False
    for opi, (op, ob) in enumerate(zip(case['ops'], obs['ops'])):
        k = ob['kind']
        call = HIST_CALLS.get(k, 'SimulationRunner.simulate')
        recent = case['ops'][max(0, opi - 3):opi + 1]
        if ob.get('inputs_mutated'):
            emit(call, 'R3:input-mutated', 'after %r: %r' % (recent, ob['inputs_mutated'][:3]))
            return out
        if ob.get('rejected_changed'):
            emit(call, 'R4:rejected-call-changed-state', '%s raised %s and changed %r'
                 % (op, ob.get('status'), ob['rejected_changed']))
            return out
        if ob.get('lookup_changed_state'):
            emit(call, 'R3:lookup-changed-state', '%s changed %r' % (op, ob['lookup_changed_state']))
            return out
        if ob.get('aliases_input'):
            emit(call, 'R3:output-aliases-input', '%s returned an array sharing memory with a parameter' % op)
            return out
        if ob.get('nonmutating_changed'):
            emit('SimulationRunner.simulate', 'R11:non-mutating-call-changed-state',
                 'after %r: %s changed %r' % (recent, ob['nonmutating_changed'][0][0], ob['nonmutating_changed'][0][1]))
            return out
        if k in ('padd', 'pscalar', 'prem', 'punp', 'pfill'):
            mutated = True
            continue
        if k in ('all', 'single'):
            if ob.get('twin') is not None and (ob['twin'][0].split(' store=')[0] != ob['part'].split(' store=')[0]
                                               or ob['twin'][1] != ob['calls']):
                emit(call, 'R7:differs-from-fresh-runner',
                     'after %r: used runner %s | freshly built runner with the same configuration %s'
                     % (recent, ob['part'][:200], ob['twin'][0][:200]))
                return out
            refused = k == 'single' and not ob['cfg']['file']
            if not refused:
                last_stats = ob['stats'] if (k == 'all' and ob['status'] == 'ok') else None
            continue
        if k != 'q':
            continue
        q, qf = ob['q'], ob['fresh']
        pc = _pseudo(case, ob['content'])
        stale_cls = 'R7:stale-derived-state' if mutated else 'R7:differs-from-fresh-object'
        pairs = [('SimulationParameters.get_num_unpacked_variations', 'n'),
                 ('SimulationParameters.get_unpacked_params_list', 'combos'),
                 ('SimulationParameters.get_unpacked_params_list', 'idx'),
                 ('SimulationParameters.get_pack_indexes', 'pack'),
                 ('SimulationResults.get_result_values_list', 'rv'),
                 ('SimulationParameters.get_num_unpacked_variations', 'error')]
        for c2, key in pairs:
            if q.get(key) != qf.get(key):
                cls = stale_cls
                if key == 'rv' and ob.get('results_params_shared') and q.get('pack') == qf.get('pack'):
                    cls = 'R3:results-object-follows-later-parameter-changes'
                emit(c2, cls, 'after %r: %s = %r on the used object, %r on a fresh object with the same content'
                     % (recent, key, q.get(key), qf.get(key)))
        if out:
            return out
        if 'error' in q or any(not isinstance(v, list) for v in pc['vals'].values()):
            continue
        names, dims, n, combo = grid_facts(pc)
        if q['n'] != n or len(q['combos']) != n:
            emit('SimulationParameters.get_num_unpacked_variations', 'wrong-number-of-variations',
                 'n=%r len=%d expected %d' % (q['n'], len(q['combos']), n))
            return out
        for i in range(n):
            if q['combos'][i] != [combo(i)[x] for x in names] or q['idx'][i] != (i if names else -1):
                emit('SimulationParameters.get_unpacked_params_list', 'wrong-parameters',
                     'variation %d is %r (unpack_index %r)' % (i, q['combos'][i], q['idx'][i]))
                return out
        fx = ob['fixed']
        pos, absent, dup = expected_matches(pc, fx)
        kind, val = q['pack']
        if not (absent and kind == 'error' and val == 'ValueError'):
            if kind != 'ok' or val != pos:
                emit('SimulationParameters.get_pack_indexes', lookup_class(pc, dup),
                     'fixed=%r returned %r, matching combinations %r' % (fx, val, pos))
        if 'rv' in q and last_stats is not None and ob.get('res_content') is not None:
            rc = _pseudo(case, ob['res_content'])
            if all(isinstance(v, list) for v in rc['vals'].values()):
                rn = grid_facts(rc)[2]
                rpos, rabsent, rdup = expected_matches(rc, fx)
                if len(last_stats) == rn and rn > 0:
                    toks = [int(st.split('/')[7]) for st, _ in last_stats]
                    kind, val = q['rv']
                    exp = [toks[i] for i in rpos] if fx else toks
                    if not (fx and rabsent and kind == 'error' and val == 'ValueError'):
                        if kind != 'ok' or val != exp:
                            emit('SimulationResults.get_result_values_list', lookup_class(rc, rdup),
                                 'fixed=%r returned %r; the results were simulated on %r where the matching '
                                 'combinations are %r -> %r' % (fx, val, rc['vals'], rpos, exp))
        if out:
            return out
    if obs.get('returned_changed'):
        emit('SimulationParameters.get_pack_indexes', 'R3:returned-object-changed', '%r' % obs['returned_changed'][:3])
    if obs.get('children_changed'):
        emit('SimulationParameters.get_unpacked_params_list', 'R16:earlier-variation-changed-by-later-refill',
             'variations handed out earlier no longer carry the values they had: %r' % (obs['children_changed'],))
    for then, now in obs.get('held', []):
        if then != now:
            emit('SimulationResults.get_result_values_list', 'R3:held-results-object-changed',
                 'a results object kept by the caller answered %r, and %r after later calls' % (then, now))
            break
    return out


def content_after(names, vals, ops, repmax=1):
    content = ({n: list(vals[n]) for n in names}, set(names))
    file_on = False
    for op in ops:
        hop = parse_hop(op)
        if hop[0] == 'rmax':
            repmax = hop[1]
        elif hop[0] == 'file':
            file_on = hop[1]
        elif hop[0] not in ('q', 'hq', 'del', 'nq'):
            apply_content(content, hop, repmax, file_on)
    return content


def gen_hist(rng):
    """simulate() / look-up / parameter-mutation histories on one runner (no results file)"""
    names, vals = gen_grid(rng, max_len=3, dup_p=0.05, empty_p=0.02)
    repmax = rng.randint(1, 3)
    keep = [gen_rule(rng, repmax) for _ in range(rng.choice([1, 1, 2]))]
    ops = []
    budget = 330

    def lst(v):
        return '.'.join(str(x) for x in v)

    def newlist(avoid_len=None):
        while True:
            ln = rng.randint(0, 3) if rng.chance(0.05) else rng.randint(1, 3)
            if ln != avoid_len:
                break
        base = list(range(-3, 12))
        rng.shuffle(base)
        return base[:ln]

    def fixed(d, u):
        cur = sorted(u)
        fx = gen_looks(rng, cur, {n: d[n] for n in cur}, 1)[0]
        return 'q:' + '+'.join('%s:%d' % (k, v) for k, v in fx)

    for _ in range(rng.randint(4, 12)):
        d, u = content_after(names, vals, ops, repmax)
        k = rng.below(100)
        if k < 28:
            nv = 1
            for nm in u:
                nv *= len(d[nm])
            cost = nv * (3 + 1) + 2
            if cost <= budget:
                ops.append('all')
                budget -= cost
            else:
                ops.append(fixed(d, u))
        elif k < 54:
            ops.append(fixed(d, u))
        elif k < 58:
            ops.append(rng.choice(['h' + fixed(d, u), 'nq']))   # keep the results object / non-mutating calls
        elif k < 62:
            ops.append(rng.choice(['rmax:%d' % rng.randint(1, 3), 'pscalar:rep_max:%d' % rng.randint(1, 5),
                                   'single:0', 'prem:rep_max']))
        elif k < 78:
            if u:                                         # replace a value list by one of another length
                nm = rng.choice(sorted(u))
                ops.append('padd:%s:%s' % (nm, lst(newlist(avoid_len=len(d[nm])))))
        elif k < 85:
            nm = rng.choice(NAME_POOL)                    # a new list parameter, unpacked at once
            if nm not in d and len(u) < 3:
                ops += ['padd:%s:%s' % (nm, lst(newlist())), 'punp:%s:1' % nm]
        elif k < 91:
            if d:
                nm = rng.choice(sorted(d))
                if isinstance(d[nm], list):
                    if nm in u:
                        ops.append('punp:%s:0' % nm)
                    elif len(u) < 3:
                        ops.append('punp:%s:1' % nm)
                    else:
                        ops.append('punp:%s:0' % nm)       # KeyError: not in the set
                else:
                    ops.append('punp:%s:1' % nm)           # ValueError: not iterable
        elif k < 95:
            if d:
                ops.append('prem:%s' % rng.choice(sorted(d)))
        elif k < 98:
            nm = rng.choice(NAME_POOL)
            if nm not in u:                                # never turn an unpacked parameter into a scalar
                ops.append('pscalar:%s:%d' % (nm, rng.randint(-3, 9)))
        else:
            ops.append(rng.choice(['prem:nope', 'punp:nope:1', 'punp:nope:0']))
    if 'all' not in ops:
        ops.insert(rng.below(len(ops) + 1), 'all')
    d, u = content_after(names, vals, ops, repmax)
    ops.append(fixed(d, u))
    skip_p = rng.choice([0.0, 0.1, 0.2])
    outs = ['s' if rng.chance(skip_p) else rng.randint(-3, 6) for _ in range(380)]
    return dict(kind='hist', names=names, vals=vals, repmax=repmax, keep=keep, ops=ops, outs=outs, file=False,
                look=[], xr=gen_xr(rng) if rng.chance(0.5) else [],
                xtype=rng.choice(['int', 'int', 'np.int64', 'np.int16']))


def gen_hist2(rng):
    """R7: a fixed grid, the RUNNER is what changes between the calls: rep_max, results file on / off,
    delete_partial_results_bool, a 'rep_max' entry in the parameters that differs from runner.rep_max,
    simulate() / simulate(index) in any order, refused calls in between"""
    names, vals = gen_grid(rng, max_params=2, max_len=3, dup_p=0.0, empty_p=0.0)
    nvar = 1
    for nm in names:
        nvar *= len(vals[nm])
    repmax = rng.randint(1, 4)
    keep = [gen_rule(rng, repmax) for _ in range(rng.choice([1, 1, 2]))]
    ops = []
    budget = 330
    file_on = False

    def fixed():
        fx = gen_looks(rng, sorted(names), vals, 1)[0]
        return 'q:' + '+'.join('%s:%d' % (k, v) for k, v in fx)

    for _ in range(rng.randint(4, 11)):
        k = rng.below(100)
        if k < 30:
            if nvar * 5 + 2 <= budget:
                ops.append('all')
                budget -= nvar * 5 + 2
        elif k < 42:
            ops.append('single:%d' % rng.randint(-1, nvar))
            budget -= 6
        elif k < 62:
            ops.append('rmax:%d' % rng.randint(1, 5))
        elif k < 72:
            file_on = not file_on
            ops.append('file:%d' % (1 if file_on else 0))
        elif k < 78:
            ops.append('del:%d' % rng.below(2))
        elif k < 86:
            ops.append('pscalar:rep_max:%d' % rng.randint(1, 6))
        elif k < 92:
            ops.append(fixed())
        elif k < 96:
            ops.append(rng.choice(['h' + fixed(), 'nq']))
        else:
            ops.append(rng.choice(['prem:nope', 'punp:nope:1', 'prem:rep_max']))
    if 'all' not in ops:
        ops.append('all')
    if not any(o.startswith('rmax') for o in ops):
        i = rng.randint(1, len(ops))
        ops[i:i] = ['rmax:%d' % rng.randint(1, 5), 'all']
    ops.append(fixed())
    skip_p = rng.choice([0.0, 0.1, 0.2])
    outs = ['s' if rng.chance(skip_p) else rng.randint(-3, 6) for _ in range(380)]
    return dict(kind='hist', names=names, vals=vals, repmax=repmax, keep=keep, ops=ops, outs=outs, file=False,
                look=[], xr=gen_xr(rng) if rng.chance(0.5) else [],
                xtype=rng.choice(['int', 'int', 'np.int64', 'np.int16']))


def gen_rcase(rng, rclass):
    """R1 / R2 / R5 / R6 / R8 / R9 / R10 / R12: the same LOGICAL scenario handed over in another element
    type, memory layout / shape, at the boundary values, scaled, through other argument forms, with other
    index types, with heterogeneous collections, in another insertion order; the model line (base integers)
    does not change"""
    kindsel = rng.below(3)
    c = gen_hist(rng) if kindsel == 0 else gen_case(rng) if kindsel == 1 else None
    if c is None:
        names, vals = gen_grid(rng, dup_p=0.0)
        c = dict(kind='grid', names=names, vals=vals, look=gen_looks(rng, names, vals, rng.randint(1, 4)))
    # duplicate-free, non-negative base values (narrow unsigned types must be able to hold them):
    # every value of the scenario is shifted by 3, repeated values are replaced by fresh ones
    def shift_list(vs):
        out = []
        for j, v in enumerate(vs):
            v = v + 3
            if v in out:
                v = 40 + j
            out.append(v)
        return out

    def shift_pairs(txt):
        return '+'.join('%s:%d' % (t.split(':')[0], int(t.split(':')[1]) + 3) for t in txt.split('+') if t)

    for nm in c['names']:
        c['vals'][nm] = shift_list(c['vals'][nm])
    if c['kind'] == 'hist':
        ops = []
        for op in c['ops']:
            if op.startswith('padd:'):
                t = op.split(':')
                op = 'padd:%s:%s' % (t[1], '.'.join(str(x) for x in shift_list([int(x) for x in t[2].split('.') if x])))
            elif op.startswith(('q:', 'hq:')):
                head, body = op.split(':', 1)
                op = head + ':' + shift_pairs(body)
            ops.append(op)
        c['ops'] = ops
    else:
        c['look'] = [[(k2, v2 + 3) for k2, v2 in fx] for fx in c['look']]
    mat = {}
    if rclass == 'R1':
        pool = R1_KINDS
        mat['params'] = {nm: rng.choice(pool) for nm in c['names']}
        mat['new'] = [rng.choice(pool) for _ in range(3)]
        mat['fixed'] = rng.choice(['same', 'pyint', 'pyfloat', 'np.float64', 'np.int64', 'np.int16', 'np.uint8',
                                   'np.float32', '0d'])
        mat['outs'] = rng.choice(['int', 'float', 'np.int8', 'np.int16', 'np.int32', 'np.int64', 'np.float16',
                                  'np.float32', 'np.float64'])
        mat['repmax'] = rng.choice(['int', 'np.int64', 'np.int16', 'np.uint8'])
        mat['index'] = rng.choice(['int', 'str', 'np.int64'])
    elif rclass == 'R2':
        mat['params'] = {nm: rng.choice(R2_KINDS) for nm in c['names']}
        mat['new'] = [rng.choice(R2_KINDS) for _ in range(3)]
        mat['fixed'] = rng.choice(['same', '0d', 'pyint'])
        if c['kind'] == 'hist' and rng.chance(0.3):
            c['zerod'] = True          # scalars handed over as 0-d arrays (must be refused as unpacked parameters)
    elif rclass == 'R5':
        # boundary values: 0 / 0.0 / None among the values, single-element lists, rep_max 1, first / last index
        for nm in c['names']:
            if c['vals'][nm] and rng.chance(0.7):
                c['vals'][nm][rng.below(len(c['vals'][nm]))] = 0 if 0 not in c['vals'][nm] else c['vals'][nm][0]
                c['vals'][nm] = list(dict.fromkeys(c['vals'][nm]))
            if rng.chance(0.25):
                c['vals'][nm] = c['vals'][nm][:1]
        # (None stands for the smallest value of ITS container: only where the containers are never replaced)
        r5k = ['list', 'floatlist', 'tuple'] + ([] if c['kind'] == 'hist' else ['none', 'none'])
        mat['params'] = {nm: rng.choice(r5k) for nm in c['names']}
        mat['new'] = ['list', 'floatlist']
        mat['fixed'] = rng.choice(['same', 'pyfloat', 'pyint'])
        mat['outs'] = rng.choice(['int', 'float'])
        if c['kind'] != 'grid':
            c['repmax'] = rng.choice([1, 1, 2])
            c['keep'] = [rng.choice(['always', 'sumlt:0', 'replt:0', 'replt:1', 'skiplt:0', 'skiplt:1'])]
            c['outs'] = [o if o == 's' else rng.choice([0, 0, 1, o]) for o in c['outs']]
        if c['kind'] == 'sim':
            nvar = 1
            for nm in c['names']:
                nvar *= len(c['vals'][nm])
            c['ops'] = [o if not o.startswith('single') else 'single:%d' % rng.choice([0, max(nvar - 1, 0), nvar, -1])
                        for o in c['ops']]
            c['look'] = gen_looks(rng, c['names'], c['vals'], rng.randint(1, 3))
            for fx in c['look']:            # first / last element of the value lists
                for j, (k2, v2) in enumerate(fx):
                    if k2 in c['vals'] and c['vals'][k2] and v2 != 99:
                        fx[j] = (k2, rng.choice([c['vals'][k2][0], c['vals'][k2][-1]]))
    elif rclass == 'R6':
        f = rng.choice(R6_SCALES)
        arr = rng.chance(0.5)
        kind = 'scale:%s%s' % (f, ':arr' if arr else '')
        mat['params'] = {nm: kind for nm in c['names']}
        mat['new'] = [kind]
        mat['fixed'] = rng.choice(['same', 'pyfloat', 'np.float64'])
        mat['outs'] = rng.choice(['p2:40', 'p2:-40', 'dec:1e12', 'dec:1e-12', 'dec:1e9', 'dec:1e-9', 'p2:100'])
    elif rclass == 'R8':
        # argument forms: positional / keyword / default / explicit default, constructor vs setter path
        c['argform'] = 1 + rng.below(1 << 30)
        if c['kind'] != 'grid' and not c.get('xr'):
            c['xr'] = gen_xr(rng)
    elif rclass == 'R9':
        # index / count arguments in every integer type (a 0-d array, a bool where it means 0 / 1)
        mat['index'] = rng.choice(['np.int8', 'np.uint8', 'np.int16', 'np.uint16', 'np.int32', 'np.uint32',
                                   'np.int64', 'np.uint64', 'np.intp', '0d', 'bool', 'str'])
        mat['repmax'] = rng.choice(['np.int8', 'np.uint8', 'np.uint16', 'np.int32', 'np.int64', 'np.intp', 'int'])
        c['xtype'] = rng.choice(['np.int64', 'np.int16'])
        if c['kind'] == 'sim':
            nvar = 1
            for nm in c['names']:
                nvar *= len(c['vals'][nm])
            c['file'] = True
            c['ops'] = ['single:%d' % rng.randint(0, max(nvar - 1, 0)), rng.choice(['all', 'single:0']),
                        'single:%d' % rng.randint(-1, nvar)]
        if c['kind'] != 'grid' and not c.get('xr'):
            c['xr'] = ['C1:2:ctor', 'C0:1:create']
    elif rclass == 'R10':
        # heterogeneous collections: elements of different types in one value list, repetitions returning
        # ints, floats and numpy scalars in turn (halves: nothing may be truncated to the first type)
        mat['params'] = {nm: rng.choice(['mixed', 'mixedtuple', 'mixed']) for nm in c['names']}
        mat['new'] = ['mixed', 'list', 'mixedtuple']
        mat['fixed'] = rng.choice(['same', 'pyfloat', 'pyint', 'np.float64'])
        mat['outs'] = 'mixhalf'
    elif rclass == 'R12':
        # insertion order: results added in another order in every repetition, parameters and unpack flags
        # set in another order, fixed values listed in another order
        c['xorder'] = rng.below(1 << 20)
        c['argform'] = 1 + rng.below(1 << 30)
        if c['kind'] != 'grid':
            c['xr'] = ['M1:1:ctor', 'M1:2:ctor', 'M0:1:ctor', 'S1:1:ctor', 'S1:2:ctor', 'R1:1:ctor', 'R1:2:ctor',
                       'C1:1:ctor', 'C1:2:ctor'][:rng.randint(3, 9)]
    elif rclass == 'R15':
        # distinct values that are merely close: the grid, the replacement lists, the fixed values of the
        # look-ups (present values, and absent ones next to a present one) and the values the repetitions return
        fam = rng.choice(R15_FAMS)
        kind = 'close:%s%s' % (fam, ':arr' if rng.chance(0.5) else '')
        mat['params'] = {nm: kind for nm in c['names']}
        mat['new'] = [kind]
        mat['fixed'] = rng.choice(['same', 'same', 'pyfloat', 'np.float64', '0d'])
        mat['outs'] = rng.choice(R15_OUTS)
        r15_rewrite(rng, c)
    elif rclass == 'R16':
        # argument identity and buffer reuse: ONE container per parameter refilled in place between the calls
        # (sometimes the same container for two parameters), ONE dictionary of fixed values (and one 0-d array per
        # value) refilled before every look-up and scribbled on right after it, ONE 0-d index array
        mat['reuse'] = True
        mat['params'] = {nm: rng.choice(R16_KINDS) for nm in c['names']}
        mat['new'] = [rng.choice(R16_KINDS) for _ in range(3)]
        mat['fixed'] = rng.choice(['same', '0d', '0d', 'pyfloat'])
        mat['index'] = rng.choice(['0d', '0d', 'int'])
        if len(c['names']) >= 2 and rng.chance(0.35):
            a, b = c['names'][0], c['names'][1]       # the SAME container object for two parameters
            c['vals'][b] = list(c['vals'][a])
            mat['params'][b] = mat['params'][a]
            mat['share'] = [a, b]
        if c['kind'] == 'sim':
            nvar = 1
            for nm in c['names']:
                nvar *= len(c['vals'][nm])
            if rng.chance(0.6):           # several simulate(index) calls with the one index buffer
                c['file'] = True
                c['ops'] = ['single:%d' % rng.randint(0, max(nvar - 1, 0)) for _ in range(rng.randint(2, 4))] \
                    + [rng.choice(['all', 'single:0'])]
            c['look'] = gen_looks(rng, c['names'], c['vals'], rng.randint(3, 4))
            need = min(400, (c['repmax'] + 3) * max(nvar, 1) * len(c['ops']) * 2 + 6)
            c['outs'] = c['outs'] + [rng.randint(-3, 6) for _ in range(need - len(c['outs']))]
        if c['kind'] == 'hist':
            r16_rewrite_hist(rng, c, mat)
        elif c['kind'] == 'grid':
            c['look'] = gen_looks(rng, c['names'], c['vals'], rng.randint(2, 4))
    if c['kind'] == 'grid':
        mat.pop('outs', None)
        mat.pop('repmax', None)
        mat.pop('index', None)
    if c['kind'] != 'grid' and c['kind'] != 'hist':
        # look-ups by value need scalar elements
        pass
    c['mat'] = mat
    c['rclass'] = rclass
    # look-ups by value only on parameters whose elements are scalars
    bad = set(nm for nm, kd in mat.get('params', {}).items() if kd in NOT_LOOKABLE)
    if rclass == 'R2':
        if c['kind'] == 'hist':
            newbad = any(kd in NOT_LOOKABLE for kd in mat['new'])
            ops = []
            for op in c['ops']:
                if op.startswith(('q:', 'hq:')):
                    head, body = op.split(':', 1)
                    keep_pairs = [t for t in body.split('+') if t and t.split(':')[0] not in bad
                                  and not (newbad and t.split(':')[0] in NAME_POOL and t.split(':')[0] not in
                                           mat['params'])]
                    if newbad:
                        keep_pairs = [t for t in keep_pairs if t.split(':')[0] == FIXED_EXTRA]
                    op = head + ':' + '+'.join(keep_pairs)
                ops.append(op)
            c['ops'] = ops
        else:
            c['look'] = [[(k2, v2) for k2, v2 in fx if k2 not in bad] or [(FIXED_EXTRA, FIXED_EXTRA_VALUE)]
                         for fx in c['look']]
    return c


def _neighbour(rng, v, taken):
    """a base value next to v (its image is the closest other member of the cluster) that is not in `taken`"""
    for dv in rng.choice([[1, -1, 2], [-1, 1, 2], [2, 1, -1]]):
        if v + dv >= 0 and v + dv not in taken:
            return v + dv
    return None


def r15_rewrite(rng, c):
    """R15: replacement lists of the SAME length whose elements are neighbours of the old ones (a setter that
    skips 'unchanged' values by a tolerance would ignore them); look-ups by the neighbour of a listed value
    (present or absent: an absent one must be refused, not resolved to its neighbour)"""
    def near_fixed(pairs, d):
        out = []
        for k2, v2 in pairs:
            if isinstance(d.get(k2), list) and v2 in d[k2] and rng.chance(0.5):
                w = _neighbour(rng, v2, [])
                v2 = v2 if w is None else w
            out.append((k2, v2))
        return out

    if c['kind'] != 'hist':
        c['look'] = [near_fixed(fx, c['vals']) for fx in c['look']] \
            + [near_fixed(fx, c['vals']) for fx in gen_looks(rng, c['names'], c['vals'], 2)]
        return
    ops = []
    for op in c['ops']:
        t = op.split(':')
        if t[0] == 'padd' and rng.chance(0.75):
            d, u = content_after(c['names'], c['vals'], ops, c['repmax'])
            old = d.get(t[1])
            if isinstance(old, list) and old:
                new = list(old)
                for j in range(len(new)):
                    if rng.chance(0.6):
                        w = _neighbour(rng, new[j], new)
                        if w is not None:
                            new[j] = w
                if new != old:
                    op = 'padd:%s:%s' % (t[1], '.'.join(str(x) for x in new))
                    c['r15setter'] = True
        elif t[0] in ('q', 'hq'):
            d, u = content_after(c['names'], c['vals'], ops, c['repmax'])
            pairs = [(x.split(':')[0], int(x.split(':')[1])) for x in op.split(':', 1)[1].split('+') if x]
            # (values of the lists as they are NOW: the generator of the history chose them before the rewrite)
            pairs = [(k2, rng.choice(d[k2]) if isinstance(d.get(k2), list) and d[k2] and k2 in u and v2 not in d[k2]
                      and rng.chance(0.8) else v2) for k2, v2 in pairs]
            op = t[0] + ':' + '+'.join('%s:%d' % kv for kv in near_fixed(pairs, d))
        ops.append(op)
    c['ops'] = ops


def r16_rewrite_hist(rng, c, mat):
    """R16: wherever the history replaces the value list of a parameter the caller refills, in place, the
    container it handed over (`pfill`; arrays: same length) instead of handing over a new one; further refills
    right before simulate() calls and look-ups. Tracks which names are bound to which container object."""
    token, nxt = {}, [0]

    def fresh():
        nxt[0] += 1
        return nxt[0]
    for nm in c['names']:
        token[nm] = fresh()
    if mat.get('share'):
        token[mat['share'][1]] = token[mat['share'][0]]
    kindof = dict(mat['params'])
    nnew = 0
    ops = []

    def group(nm, d):
        return [n for n in sorted(token) if token[n] == token[nm] and isinstance(d.get(n), list)]

    def fit(vals, nm, d):
        """the new values, cut / padded to the length an array container can take"""
        if kindof[nm] in ('list', 'floatlist'):
            return vals
        n = len(d[nm])
        vals = vals[:n]
        spare = [v for v in list(range(0, 15)) + [41, 42, 43, 44] if v not in vals]
        rng.shuffle(spare)
        return vals + spare[:n - len(vals)]

    for op in c['ops']:
        t = op.split(':')
        d, u = content_after(c['names'], c['vals'], ops, c['repmax'])
        if t[0] in ('all', 'q', 'hq') and rng.chance(0.4):
            bound = [n for n in sorted(u) if n in token and isinstance(d.get(n), list) and d[n]]
            if bound:
                nm = rng.choice(bound)
                vals = list(d[nm])
                rng.shuffle(vals)
                if rng.chance(0.5):
                    vals[rng.below(len(vals))] = rng.choice([v for v in range(15, 30) if v not in vals])
                ops.append('pfill:%s:%s' % ('+'.join(group(nm, d)), '.'.join(str(x) for x in vals)))
                d, u = content_after(c['names'], c['vals'], ops, c['repmax'])
        if t[0] == 'padd':
            nm = t[1]
            vals = [int(x) for x in t[2].split('.') if x]
            if nm in token and isinstance(d.get(nm), list):
                vals = fit(vals, nm, d)
                if (vals or kindof[nm] in ('list', 'floatlist')) and rng.chance(0.9):
                    ops.append('pfill:%s:%s' % ('+'.join(group(nm, d)), '.'.join(str(x) for x in vals)))
                    continue
            token[nm] = fresh()
            kindof[nm] = mat['new'][nnew % len(mat['new'])]
            nnew += 1
        elif t[0] in ('prem', 'pscalar'):
            token.pop(t[1], None)
        elif t[0] in ('q', 'hq'):
            pairs = [(x.split(':')[0], int(x.split(':')[1])) for x in op.split(':', 1)[1].split('+') if x]
            pairs = [(k2, rng.choice(d[k2]) if isinstance(d.get(k2), list) and d[k2] and k2 in u and v2 not in d[k2]
                      and rng.chance(0.85) else v2) for k2, v2 in pairs]
            op = t[0] + ':' + '+'.join('%s:%d' % kv for kv in pairs)
        ops.append(op)
    c['ops'] = ops


def derived_objects_check(case, mat, p, lst, names):
    """R13: the variations obtained from a parameters object are independent values: round trips give the
    child back, changing a child does not change the parent, changing the parent afterwards does not change
    what a child carries"""
    import pickle
    from pyphysim.simulations.parameters import SimulationParameters
    bad = []

    def vals_of(c):
        return [mat.canon(n, c[n]) for n in names]

    def combos_of(pp):
        return [[mat.canon(n, c[n]) for n in names] for c in pp.get_unpacked_params_list()]
    ch = lst[-1]
    want = (vals_of(ch), ch.unpack_index)
    trips = [('pickle', lambda c: pickle.loads(pickle.dumps(c))),
             ('to_dict/from_dict', lambda c: SimulationParameters.from_dict(c.to_dict()))]
    if all(mat.kind.get(n, 'list') in ('list', 'tuple', 'floatlist') for n in names):
        trips.append(('to_json/from_json', lambda c: SimulationParameters.from_json(c.to_json())))
    for name, f in trips:
        try:
            c2 = f(ch)
            if (vals_of(c2), c2.unpack_index) != want or not (c2 == ch) or \
                    sorted(c2.parameters) != sorted(ch.parameters):
                bad.append('round trip %s of a variation gives %r, the variation is %r'
                           % (name, (vals_of(c2), c2.unpack_index), want))
        except Exception as e:
            bad.append('round trip %s of a variation raises %s' % (name, type(e).__name__))
    # a copy of the parent is a parent
    try:
        import copy
        pc = copy.deepcopy(p)
        if combos_of(pc) != combos_of(p) or not (pc == p):
            bad.append('deep copy of the parameters differs')
    except Exception as e:
        bad.append('deep copy raises %s' % type(e).__name__)
    # child changed -> parent unchanged
    before = (snap(dict(p.parameters)), sorted(p._unpacked_parameters_set), combos_of(p))
    victim = lst[0]
    victim.add('zz_new', 1)
    victim.parameters[names[0]] = 'changed'
    for k2, v2 in list(victim.parameters.items()):
        if isinstance(v2, list):
            v2.append(12345)
    if before != (snap(dict(p.parameters)), sorted(p._unpacked_parameters_set), combos_of(p)):
        bad.append('changing a variation changed the parameters object it came from')
    # parent changed afterwards -> the other children keep their values
    keep = lst[-1]
    kv = vals_of(keep)
    nm = names[0]
    newv = list(case['vals'][nm])[::-1] + [77]
    p.add(nm, newv)
    if vals_of(keep) != kv:
        bad.append('changing the parameters object changed a variation derived earlier')
    p.add(nm, mat.container(nm, case['vals'][nm], mat.kind.get(nm)))
    return bad


def run_grid_impl(case):
    np = _np()
    mat = Mat(case)
    p = make_params(case, mat)
    p.add('fxl0', [1, 2])          # a list-valued parameter that is not unpacked (R13: deep copies)
    names = sorted(case['names'])
    lst = p.get_unpacked_params_list()
    combos = [[mat.canon(n, c[n]) for n in names] for c in lst]
    idxs = [c.unpack_index for c in lst]
    packs = []
    obs = {'combos': combos, 'idx': idxs, 'n': p.get_num_unpacked_variations(), 'pack': []}
    before = (snap(dict(p.parameters)), sorted(p._unpacked_parameters_set))
    returned = []
    for fx in case['look']:
        try:
            v = call_pack(p, mat.fixed(fx), mat)
            packs.append(','.join(str(int(x)) for x in v))
            obs['pack'].append(('ok', [int(x) for x in v]))
            returned.append(('get_pack_indexes%r' % (fx,), v, snap(v)))
            if any(isinstance(o, np.ndarray) and np.shares_memory(v, o) for _, o, _ in mat.inputs):
                obs.setdefault('aliases_input', []).append(fx)
        except BaseException as e:
            packs.append('error:' + type(e).__name__)
            obs['pack'].append(('error', type(e).__name__))
        mat.scribble()              # R16 (iii): the argument is modified right after the call
    # R3/R4: look-ups (accepted or rejected) change nothing; inputs and earlier outputs stay as they were
    obs['state_changed'] = before != (snap(dict(p.parameters)), sorted(p._unpacked_parameters_set))
    obs['inputs_mutated'] = [w for w, o, sn in mat.inputs if snap(o) != sn]
    obs['returned_changed'] = [w for w, o, sn in returned if snap(o) != sn]
    # children of get_unpacked_params_list are independent of the parent (deep copies)
    if lst and case['names']:
        ch = lst[0]
        obs['child_shares_dict'] = ch.parameters is p.parameters
        obs['r13'] = derived_objects_check(case, mat, p, lst, names)
    s = 'order=%s n=%d nc=%d combos=%s pack=%s' % (
        ','.join(p.unpacked_parameters), obs['n'], len(lst),
        '|'.join('.'.join(str(v) for v in c) for c in combos), '/'.join(packs))
    return s, obs


# ------------------------------------------------------------------ first-principles oracles
def grid_facts(case):
    """documented order: names sorted, row-major, last name fastest (own divmod arithmetic)"""
    names = sorted(case['names'])
    dims = [len(case['vals'][n]) for n in names]
    n = 1
    for d in dims:
        n *= d

    def combo(i):
        out = {}
        for name, d in reversed(list(zip(names, dims))):
            i, k = divmod(i, d)
            out[name] = case['vals'][name][k]
        return out
    return names, dims, n, combo


def expected_matches(case, fx):
    """positions whose combination carries every fixed value of an unpacked parameter;
    also: is some fixed value absent from its list / duplicated in it"""
    names, dims, n, combo = grid_facts(case)
    rel = [(k, v) for k, v in fx if k in names]
    absent = any(v not in case['vals'][k] for k, v in rel)
    dup = any(len(set(case['vals'][k])) != len(case['vals'][k]) for k, v in rel)
    pos = [i for i in range(n) if all(combo(i)[k] == v for k, v in rel)]
    return pos, absent, dup


def lookup_class(case, dup):
    if not case['names']:
        return 'lookup:no-unpacked-parameters'
    return 'lookup:duplicate-values' if dup else 'lookup:wrong-combinations'


def oracle_sim(case, obs, cfgs=None):
    """The property, checked from first principles on the raw event log of one scenario
    (calls received by `_run_simulation`, inputs and answers of `_keep_going`, stored
    results, runned_reps, partial files, lookups). Returns [(call, class, detail)].

    Discipline checked per variation: the first repetition needs no permission (there are
    no results to show to `_keep_going`); every later call needs a preceding `_keep_going`
    evaluation ON THE CURRENT MERGED RESULTS that returned True, and rep < rep_max; the
    variation may only end with rep == rep_max or after `_keep_going` returned False on the
    final results; a skip changes neither the merged results nor the count."""
    out = []
    carry = {}          # position -> (sum, tok, rep) saved in a partial file
    carry_hist = {}     # position -> values of the successful repetitions behind that file
    final_stats = None  # stats of the last completed all-variations simulate
    call = 'SimulationRunner.simulate'
    tag = [None]

    def emit(c, cls, detail):
        # failure classes are computed from the input: robustness class / attribute history of the op
        cls = tag_class(case, cls)
        out.append((c, '%s:%s' % (tag[0], cls) if tag[0] else cls, detail))

    for k, (op, ob) in enumerate(zip(case['ops'] if cfgs is None else [c['op'] for c in cfgs], obs['ops'])):
        final_stats = None
        cfg = cfgs[k] if cfgs is not None else {}
        pc = dict(case, names=cfg['names'], vals=cfg['vals']) if cfg else case
        names, dims, n, combo = grid_facts(pc)
        repmax = cfg.get('repmax', case['repmax'])
        file = cfg.get('file', case.get('file', False))
        delete = cfg.get('delete', False)
        tag[0] = cfg.get('tag')
        # R4 / R3 facts recorded by the adapter for this call
        if ob.get('rejected_changed'):
            emit(call, 'R4:rejected-call-changed-state', 'simulate(%s) raised %s and changed %r'
                 % (op, ob['status'], ob['rejected_changed']))
            return out
        if ob.get('inputs_mutated'):
            emit(call, 'R3:input-mutated', 'modified by the call: %r' % ob['inputs_mutated'][:3])
            return out
        if op == 'all':
            positions = list(range(n))
        else:
            i = int(op.split(':')[1])
            positions = [i] if 0 <= i < n else []
            if not file:
                # documented: a results file name is required for a single variation
                if ob['status'] != 'RuntimeError' or ob['calls']:
                    emit(call, 'single-without-filename', 'status=%s' % ob['status'])
                continue
        calls = ob['calls']
        if ob['status'] == 'SkipThisOne':
            first = bool(calls) and calls[-1][2] == 's' and all(
                c[2] == 's' for c in calls if c[0] == calls[-1][0])
            fresh = not (file and max(calls[-1][0], 0) in carry) if calls else True
            cls = 'skip-in-first-repetition' if (first and fresh) else 'skip-propagated'
            emit(call, cls, 'SkipThisOne left simulate() at call %d of the op' % len(calls))
            return out
        if ob['status'] not in ('ok', 'Exhausted'):
            emit(call, 'exception:' + ob['status'], 'simulate() raised')
            return out
        # group the events by variation, in order of appearance
        groups = []
        for ev in ob['events']:
            ui = ev[1]
            if (ui < 0) != (not names):
                emit(call, 'wrong-variation-order', 'unpack_index %d' % ui)
                return out
            if not groups or groups[-1][0] != max(ui, 0):
                groups.append((max(ui, 0), []))
            groups[-1][1].append(ev)
        gi = 0
        done = []
        done_hist = {}
        aborted = False
        for pos in positions:
            st = carry.get(pos) if file else None
            s, tok, rep = st if st else (0, 0, 0)
            have = st is not None
            hist = list(carry_hist.get(pos, [])) if st else []
            if gi < len(groups) and groups[gi][0] == pos:
                evs = groups[gi][1]
                gi += 1
            elif have and rep >= repmax:
                evs = []        # nothing to do for a finished, resumed variation
            elif ob['status'] == 'Exhausted' and gi >= len(groups):
                aborted = True
                break
            else:
                got = groups[gi][0] if gi < len(groups) else None
                emit(call, 'wrong-variation-order',
                            'expected events of variation %d, found those of %r' % (pos, got))
                return out
            permitted = not have
            last_keep = None
            for ev in evs:
                if ev[0] == 'exhausted':
                    if not permitted:
                        emit(call, 'extra-repetitions',
                                    'variation %d: repetition requested at rep=%d (rep_max=%d) without the stop '
                                    'rule and the limit allowing it' % (pos, rep, repmax))
                        return out
                    aborted = True
                    break
                if ev[0] == 'keep':
                    _, ui, s_in, tok_in, r_in, res = ev
                    if not have or s_in != s or tok_in != tok or r_in != rep:
                        emit(call, 'keep-going-inputs',
                                    'variation %d: _keep_going saw sum=%r tok=%r rep=%r, merged results '
                                    'are sum=%r tok=%r rep=%r' % (pos, s_in, tok_in, r_in, s, tok, rep))
                        return out
                    permitted = bool(res) and rep < repmax
                    last_keep = bool(res)
                else:
                    _, ui, c, o, pv = ev
                    if pv != combo(pos):
                        emit('SimulationParameters.get_unpacked_params_list', 'wrong-parameters',
                                    'variation %d got %r expected %r' % (pos, pv, combo(pos)))
                        return out
                    if not permitted:
                        emit(call, 'extra-repetitions',
                                    'variation %d: repetition run at rep=%d (rep_max=%d) without the stop rule '
                                    'and the limit allowing it' % (pos, rep, repmax))
                        return out
                    if o == 's':
                        permitted = not have
                    else:
                        s += o
                        tok += 1 << c
                        rep += 1
                        hist.append(o)
                        have = True
                        permitted = False
                    last_keep = None
            if aborted:
                break
            if not have or (rep < repmax and last_keep is not False):
                emit(call, 'too-few-repetitions',
                            'variation %d ended at rep %d < rep_max %d although _keep_going had not '
                            'returned False on the final results' % (pos, rep, repmax))
                return out
            done.append((pos, s, tok, rep))
            done_hist[pos] = hist
        if aborted:
            # the variations completed before the script ran out have written their partial files
            if file:
                for pos, s, tok, rep in done:
                    carry[pos] = (s, tok, rep)
                    carry_hist[pos] = done_hist[pos]
            continue
        if gi != len(groups):
            emit(call, 'wrong-variation-order', 'events of variation %d after the last expected one'
                        % groups[gi][0])
            return out
        if ob['status'] == 'Exhausted':
            emit(call, 'extra-repetitions', 'the script ran out after every variation was complete')
            return out
        # recorded counts and stored results
        if op == 'all':
            if ob['reps'] != [d[3] for d in done]:
                emit(call, 'runned-reps-mismatch', 'runned_reps=%r executed=%r'
                            % (ob['reps'], [d[3] for d in done]))
            if len(ob['stats']) != len(done):
                emit(call, 'stored-result-not-merge', '%d stored results for %d variations'
                            % (len(ob['stats']), len(done)))
            else:
                for (pos, s, tok, rep), (st, sk) in zip(done, ob['stats']):
                    f = st.split('/')
                    if f[0] != str(s) or f[7] != str(tok):
                        emit(call, 'stored-result-not-merge',
                                    'variation %d: stored sum=%s tok=%s, merged sum=%d tok=%d'
                                    % (pos, f[0], f[7], s, tok))
                        break
                    exp = expected_main(done_hist[pos])
                    if f[1:7] != exp:
                        emit(call, 'stored-result-not-merge',
                             'variation %d after the successful repetitions %r: stored squares / updates / ratio '
                             'value / total / updates / misc = %s, fold of the repetitions %s'
                             % (pos, done_hist[pos], '/'.join(f[1:7]), '/'.join(exp)))
                        break
                # every observable of every stored Result = fold of the successful repetitions
                for j, (pos, s, tok, rep) in enumerate(done):
                    exp = expected_extras(case, done_hist[pos])
                    got = ob['xstats'][j] if j < len(ob.get('xstats', [])) else ''
                    if got != exp:
                        emit(call, 'stored-result-observables-not-fold',
                             'variation %d after the successful repetitions %r: stored %s, fold of the '
                             'repetitions %s' % (pos, done_hist[pos], got, exp))
                        break
                final_stats = ob['stats']
        else:
            if done:
                pos, s, tok, rep = done[0]
                if ob['reps'] != rep:
                    emit(call, 'runned-reps-mismatch', 'runned_reps=%r executed=%r' % (ob['reps'], rep))
                key = pos if names else -1
                sv = ob['store'].get(key)
                if sv is None or sv[0] != rep or sv[2].split('/')[0] != str(s) or sv[2].split('/')[7] != str(tok):
                    emit(call, 'stored-result-not-merge', 'variation %d: partial file %r, merged '
                                'sum=%d tok=%d rep=%d' % (pos, sv, s, tok, rep))
                elif sv[2].split('/')[1:7] != expected_main(done_hist[pos]):
                    emit(call, 'stored-result-not-merge',
                         'variation %d after the successful repetitions %r: partial file holds %s, fold of the '
                         'repetitions %s' % (pos, done_hist[pos], sv[2], '/'.join(expected_main(done_hist[pos]))))
                elif len(sv) > 3 and sv[3] != expected_extras(case, done_hist[pos]):
                    emit(call, 'stored-result-observables-not-fold',
                         'variation %d after the successful repetitions %r: partial file holds %s, fold of the '
                         'repetitions %s' % (pos, done_hist[pos], sv[3], expected_extras(case, done_hist[pos])))
        if file:
            for pos, s, tok, rep in done:
                carry[pos] = (s, tok, rep)
                carry_hist[pos] = done_hist[pos]
            if op == 'all' and delete:
                carry_hist.clear()
                carry.clear()     # delete_partial_results_bool: the partial files are removed at the end
        if out:
            return out
    # lookups by fixed parameter values
    call = 'SimulationResults.get_result_values_list'
    if final_stats is not None and len(final_stats) == n and n > 0:
        toks = [int(st.split('/')[7]) for st, _ in final_stats]
        for fx, (kind, val) in zip(case['look'], obs['look']):
            pos, absent, dup = expected_matches(case, fx)
            if absent and kind == 'error' and val == 'ValueError':
                continue          # documented rejection of a value that is not in the grid
            exp = [toks[i] for i in pos]
            if kind != 'ok' or val != exp:
                emit(call, lookup_class(case, dup), 'fixed=%r returned %r, matching combinations %r -> %r'
                            % (fx, val, pos, exp))
    tag[0] = None
    if obs.get('inputs_mutated'):
        emit(call, 'R3:input-mutated', 'modified by a look-up: %r' % obs['inputs_mutated'][:3])
    if obs.get('returned_changed'):
        emit(call, 'R3:returned-object-changed', '%r' % obs['returned_changed'][:3])
    if obs.get('lookup_changed_state'):
        emit(call, 'R3:lookup-changed-state', '%r' % obs['lookup_changed_state'][:2])
    return out


def oracle_grid(case, obs):
    out = _oracle_grid(case, obs)
    return [(c, tag_class(case, cls), d) for c, cls, d in out]


def _oracle_grid(case, obs):
    out = []
    if obs.get('state_changed'):
        out.append(('SimulationParameters.get_pack_indexes', 'R3:lookup-changed-state', 'parameters or unpacked set'))
    if obs.get('inputs_mutated'):
        out.append(('SimulationParameters.get_pack_indexes', 'R3:input-mutated', '%r' % obs['inputs_mutated'][:3]))
    if obs.get('returned_changed'):
        out.append(('SimulationParameters.get_pack_indexes', 'R3:returned-object-changed',
                    '%r' % obs['returned_changed'][:3]))
    if obs.get('aliases_input'):
        out.append(('SimulationParameters.get_pack_indexes', 'R3:output-aliases-input', '%r' % obs['aliases_input'][:2]))
    for msg in obs.get('r13') or []:
        out.append(('SimulationParameters.get_unpacked_params_list', 'R13:derived-object', msg))
        break
    if obs.get('child_shares_dict'):
        out.append(('SimulationParameters.get_unpacked_params_list', 'R3:output-aliases-input',
                    'a variation shares the parameters dictionary of its parent'))
    names, dims, n, combo = grid_facts(case)
    call = 'SimulationParameters.get_unpacked_params_list'
    if obs['n'] != n or len(obs['combos']) != n:
        out.append((call, 'wrong-number-of-variations', 'n=%r len=%d expected %d' % (obs['n'], len(obs['combos']), n)))
    else:
        for i in range(n):
            if obs['combos'][i] != [combo(i)[k] for k in names]:
                out.append((call, 'wrong-parameters', 'variation %d is %r' % (i, obs['combos'][i])))
                break
            if obs['idx'][i] != (i if names else -1):
                out.append((call, 'wrong-unpack-index', 'variation %d has unpack_index %r' % (i, obs['idx'][i])))
                break
    call = 'SimulationParameters.get_pack_indexes'
    for fx, (kind, val) in zip(case['look'], obs['pack']):
        pos, absent, dup = expected_matches(case, fx)
        if absent and kind == 'error' and val == 'ValueError':
            continue
        if kind != 'ok' or val != pos:
            out.append((call, lookup_class(case, dup), 'fixed=%r returned %r, matching combinations %r'
                        % (fx, val, pos)))
    return out


# ------------------------------------------------------------------ R15 / R16 scenarios outside the model
def run_r15file(case, scratch):
    """R15: a simulation with a results file is run to the end; then ONE value is replaced by a close but
    different one (the fixed parameter 'noise', or one element of an unpacked list) and simulate() /
    simulate(index) is called again on the same runner. The partial results on disk were computed for the old
    value. First principles (the property): the result stored for a combination is the merge of the repetitions
    run FOR THAT COMBINATION. The library may refuse the call (ValueError: the partial results do not match the
    parameters) or run the changed combinations afresh; it may not hand back repetitions of the old value."""
    tmp = tempfile.mkdtemp(prefix='c05f_', dir=scratch)
    try:
        fam = case['fam']
        mat = Mat(case)
        runner = make_runner(case, mat)
        runner.set_results_filename(os.path.join(tmp, 'res'))
        runner.partial_results_folder = None
        ch = case['change']
        b_noise = ch[1] if ch[0] == 'scalar' else 4
        mat.table['noise'] = {elem_key(close_value(fam, b)): b for b in range(0, 12)}
        runner.params.add('noise', close_value(fam, b_noise))
        out = []
        part1, ob1 = run_op(runner, 'all', tmp)
        if ob1['status'] != 'ok':
            return 'first=' + ob1['status'], {'first': ob1['status']}, [
                ('SimulationRunner.simulate', 'R15:exception:' + ob1['status'], 'the first simulate() raised')]
        vals = {n: list(case['vals'][n]) for n in case['names']}
        if ch[0] == 'scalar':
            b_noise = ch[2]
            runner.params.add('noise', close_value(fam, b_noise))
        else:
            vals[ch[1]][ch[2]] = ch[3]
            call_add(runner.params, ch[1], mat.container(ch[1], vals[ch[1]], mat.kind[ch[1]]), mat)
        ncalls1 = len(runner.calllog)
        status = 'ok'
        try:
            call_simulate(runner, case['second'])
        except ScriptExhausted:
            status = 'Exhausted'
        except Exception as e:
            status = type(e).__name__
        names, dims, n, combo = grid_facts(dict(case, vals=vals))
        bad = None
        checked = 0
        if status == 'ok':
            after = observe(runner, tmp)
            if case['second'] == 'all':
                stored = [(j, st.split('/')) for j, (st, sk) in enumerate(after['stats'])]
                if len(stored) != n:
                    bad = '%d stored results for %d variations' % (len(stored), n)
            else:
                i = int(case['second'].split(':')[1])
                stored = [(i, after['store'][i][2].split('/'))] if i in after['store'] else []
                if 0 <= i < n and not stored:
                    bad = 'no partial results file for variation %d' % i
            for j, f in stored:
                want = dict(combo(j), noise=b_noise)
                calls = [c for c in range(len(runner.calllog)) if (int(f[7]) >> c) & 1]
                for c in calls:
                    checked += 1
                    if runner.calllog[c][3] != want and bad is None:
                        bad = ('variation %d carries %r, but its stored result contains repetition #%d, which was '
                               'run%s for %r' % (j, want, c, ' by the FIRST simulate()' if c < ncalls1 else '',
                                                 runner.calllog[c][3]))
                if f[0] != str(sum(runner.calllog[c][2] for c in calls)) and bad is None:
                    bad = 'variation %d: stored sum %s is not the sum of its repetitions %r' % (j, f[0], calls)
        viols = []
        call = 'SimulationRunner.simulate'
        if status not in ('ok', 'ValueError'):
            viols.append((call, 'R15:exception:' + status, 'second simulate(%s) raised' % case['second']))
        if bad:
            viols.append((call, 'R15:partial-results-of-a-close-but-different-value-reused',
                          '%s changed %s (family %s), second simulate(%s) returned normally: %s'
                          % ('noise' if ch[0] == 'scalar' else ch[1],
                             '%r -> %r' % ((close_value(fam, ch[1]), close_value(fam, ch[2])) if ch[0] == 'scalar'
                                           else (close_value(fam, case['vals'][ch[1]][ch[2]]), close_value(fam, ch[3]))),
                             fam, case['second'], bad)))
        return 'second=%s' % status, {'status': status, 'checked': checked, 'ncalls2': len(runner.calllog) - ncalls1}, viols
    finally:
        shutil.rmtree(tmp, ignore_errors=True)


def r15file_cases(rng=None, count=0):
    """one scenario per family x kind of change x second call; `rng`: further random ones"""
    out = []
    base = dict(kind='r15file', rclass='R15', repmax=2, keep=['always'], outs=[1, 2, 's', 3, 1, 2] * 12, file=True,
                look=[], logfixed=['noise'])
    for fam in R15_FAMS:
        kind = 'close:' + fam
        for arr in ('', ':arr'):
            g = dict(base, fam=fam, names=['a'], vals={'a': [3, 4]}, mat={'params': {'a': kind + arr}, 'outs': 'int'})
            if not arr:
                out.append(dict(g, change=['scalar', 4, 5], second='all'))
                out.append(dict(g, change=['elem', 'a', 1, 5], second='single:1'))
                # (the variation that was NOT changed is resumed from its partial results, as it must)
                out.append(dict(g, change=['elem', 'a', 1, 5], second='single:0'))
            else:
                out.append(dict(g, change=['scalar', 4, 3], second='single:0'))
                out.append(dict(g, change=['elem', 'a', 0, 2], second='all'))
    for _ in range(count):
        fam = rng.choice(R15_FAMS)
        names, vals = gen_grid(rng, max_params=2, max_len=3, dup_p=0.0, empty_p=0.0)
        if not names:
            names, vals = ['a'], {'a': [1, 2]}
        for nm in names:
            vals[nm] = [v + 3 for v in vals[nm]]
        nvar = 1
        for nm in names:
            nvar *= len(vals[nm])
        if rng.chance(0.5):
            b0 = rng.randint(1, 9)
            change = ['scalar', b0, b0 + rng.choice([1, -1])]
        else:
            nm = rng.choice(names)
            j = rng.below(len(vals[nm]))
            w = _neighbour(rng, vals[nm][j], vals[nm])
            change = ['elem', nm, j, w if w is not None else 50]
        out.append(dict(base, fam=fam, names=names, vals=vals, repmax=rng.randint(1, 3),
                        outs=['s' if rng.chance(0.15) else rng.randint(-3, 6) for _ in range(4 * nvar * 4 + 10)],
                        mat={'params': {nm: 'close:%s%s' % (fam, rng.choice(['', ':arr'])) for nm in names},
                             'outs': rng.choice(['int'] + R15_OUTS)},
                        change=change, second=rng.choice(['all', 'all', 'single:%d' % rng.below(nvar)])))
    return out


def run_r16res(case):
    """R16 on the results / parameters API without a runner: the same object in two roles, one object reused
    for several calls; every answer must equal the one of the same call made with fresh copies of the contents
      (a) acc.merge_all_results(acc) and Result.merge(r, r)  ==  merge of a deep copy;
      (b) ONE results object of a repetition merged into two collectors (an empty one and a filled one), one of
          which goes on merging: the other collector and the operand keep their values;
      (c) SimulationParameters.create(d) with ONE dictionary d (and the lists inside) refilled between the calls:
          an object created earlier keeps its values, the next one has the new ones."""
    import copy
    from pyphysim.simulations.parameters import SimulationParameters
    from pyphysim.simulations.results import SimulationResults
    viols = []
    mat = Mat(case)
    g = case['groups'][0] or [1]

    def folded(vals, c0=0):
        acc = SimulationResults()
        for j, a in enumerate(vals):
            acc.merge_all_results(_rep_results(case, a, c0 + j, mat))
        return acc
    # (a)
    x, y = folded(g), folded(g)
    try:
        x.merge_all_results(x)
        y.merge_all_results(copy.deepcopy(y))
        if _canon_results(x, 0, case) != _canon_results(y, 0, case):
            viols.append(('SimulationResults.merge_all_results', 'R16:same-object-in-two-roles',
                          'repetitions %r folded, then acc.merge_all_results(acc): %s; with a deep copy as the '
                          'operand: %s' % (g, _canon_results(x, 0, case), _canon_results(y, 0, case))))
        x, y = folded(g), folded(g)
        for name in x.get_result_names():
            x[name][-1].merge(x[name][-1])
            y[name][-1].merge(copy.deepcopy(y[name][-1]))
        if _canon_results(x, 0, case) != _canon_results(y, 0, case):
            viols.append(('SimulationResults.merge_all_results', 'R16:same-object-in-two-roles',
                          'Result.merge(r, r) differs from Result.merge(r, copy of r): %s / %s'
                          % (_canon_results(x, 0, case), _canon_results(y, 0, case))))
    except Exception as e:
        viols.append(('SimulationResults.merge_all_results', 'R16:same-object-in-two-roles',
                      'merging an object with itself raises %s' % type(e).__name__))
    # (b)
    rep = _rep_results(case, g[0], 0, mat)
    rep_then = _canon_results(rep, 0, case)
    empty, filled = SimulationResults(), folded(g[1:] or [2], 1)
    empty.merge_all_results(rep)
    filled.merge_all_results(rep)
    e_then = _canon_results(empty, 0, case)
    f_then = _canon_results(filled, 0, case)
    filled.merge_all_results(_rep_results(case, 5, 9, mat))
    empty2 = SimulationResults()
    empty2.merge_all_results(rep)
    if _canon_results(empty, 0, case) != e_then or _canon_results(rep, 0, case) != rep_then \
            or _canon_results(empty2, 0, case) != e_then:
        viols.append(('SimulationResults.merge_all_results', 'R16:one-operand-merged-into-two-collectors',
                      'operand %s (then %s), first collector %s (then %s), a collector filled later %s'
                      % (_canon_results(rep, 0, case), rep_then, _canon_results(empty, 0, case), e_then,
                         _canon_results(empty2, 0, case))))
    del f_then
    # (d) the SAME operand object merged twice into one collector == two copies of it merged;
    # (e) ONE operand object whose Result objects are updated in place between two merges == a copy of the
    #     contents at the time of each merge
    try:
        x, y = folded(g), folded(g)
        rep = _rep_results(case, g[-1], 3, mat)
        x.merge_all_results(rep)
        x.merge_all_results(rep)
        y.merge_all_results(copy.deepcopy(rep))
        y.merge_all_results(copy.deepcopy(rep))
        if _canon_results(x, 0, case) != _canon_results(y, 0, case):
            viols.append(('SimulationResults.merge_all_results', 'R16:same-operand-object-merged-twice',
                          'collector of %r, then the same results object merged twice: %s; two copies merged: %s'
                          % (g, _canon_results(x, 0, case), _canon_results(y, 0, case))))
        x, y = folded(g), folded(g)
        rep = _rep_results(case, 2, 4, mat)
        x.merge_all_results(rep)
        y.merge_all_results(copy.deepcopy(rep))
        rep['sum'][-1].update(3)
        rep['misc'][-1].update(4)
        rep['ratio'][-1].update(1, 8)
        x.merge_all_results(rep)
        y.merge_all_results(copy.deepcopy(rep))
        if _canon_results(x, 0, case) != _canon_results(y, 0, case):
            viols.append(('SimulationResults.merge_all_results', 'R16:operand-object-updated-between-merges',
                          'one results object merged, updated in place, merged again: %s; copies of its contents '
                          'merged: %s' % (_canon_results(x, 0, case), _canon_results(y, 0, case))))
    except Exception as e:
        viols.append(('SimulationResults.merge_all_results', 'R16:same-operand-object-merged-twice',
                      'raises %s' % type(e).__name__))
    # (c)
    lst = [1, 2, 3]
    d = {'a': lst, 'k': 7}
    p1 = SimulationParameters.create(d)
    p1.set_unpack_parameter('a')
    lst[:] = [4, 5]
    d['k'] = 8
    p2 = SimulationParameters.create(d)
    p2.set_unpack_parameter('a')
    got = ([c['a'] for c in p1.get_unpacked_params_list()], p1['k'], [c['a'] for c in p2.get_unpacked_params_list()],
           p2['k'], [int(x) for x in p2.get_pack_indexes({'a': 5})])
    if got != ([1, 2, 3], 7, [4, 5], 8, [1]):
        viols.append(('SimulationParameters.get_unpacked_params_list', 'R16:argument-refilled-after-create',
                      'create(d); d refilled in place; create(d): %r' % (got,)))
    return 'ok', {'checked': 5}, viols


def run_r16arr(case):
    """R16: a result whose VALUE is an array that the caller refills in place for the next repetition
    (`Result.update(buf)`, `Result.create(name, MISCTYPE, buf)`): what is stored must be the contents at the
    time of the call - the MISC value the last contents handed over, the accumulated list the contents of every
    update - and a later refill must not change what is stored."""
    np = _np()
    from pyphysim.simulations.results import Result
    viols = []
    ty = {'M': Result.MISCTYPE, 'S': Result.SUMTYPE}[case['ty']]
    fills = [list(f) for f in case['fills']]
    buf = np.zeros(len(fills[0]), dtype=np.float64)
    r = Result('arr', ty, accumulate_values=True)
    for f in fills:
        buf[...] = f
        r.update(buf)
    buf[...] = [-7.0] * len(buf)             # the caller goes on using its buffer
    want_list = fills
    want_val = fills[-1] if case['ty'] == 'M' else [sum(f[j] for f in fills) for j in range(len(buf))]
    got_list = [np.asarray(v).tolist() for v in r._value_list]
    got_val = np.asarray(r._value).tolist()
    if got_list != want_list or got_val != want_val:
        viols.append(('Result.update', 'R16:array-value-kept-by-reference',
                      '%s result updated with ONE array refilled in place with %r, then the array is overwritten '
                      'with -7: stored value %r (contents handed over: %r), accumulated values %r (handed over: %r)'
                      % ('MISCTYPE' if case['ty'] == 'M' else 'SUMTYPE', fills, got_val, want_val, got_list,
                         want_list)))
    return 'ok', {'checked': 1}, viols


def r16res_cases(rng=None, count=0):
    out = [dict(kind='r16res', rclass='R16', xr=['S1:2:ctor', 'R1:1:create', 'M1:2:ctor', 'C1:1:ctor', 'M0:1:addnew'],
                groups=[[1, 2, 3]]),
           dict(kind='r16res', rclass='R16', xr=['S0:1:ctor', 'C0:2:create', 'R0:2:ctor'], groups=[[4]]),
           dict(kind='r16arr', rclass='R16', ty='M', fills=[[1.0, 2.0], [5.0, 6.0]]),
           dict(kind='r16arr', rclass='R16', ty='S', fills=[[1.0, 2.0], [10.0, 20.0], [0.5, 0.25]])]
    for _ in range(count):
        out.append(dict(kind='r16res', rclass='R16', xr=gen_xr(rng, rng.randint(1, 5)),
                        groups=[[rng.randint(-3, 6) for _ in range(rng.randint(1, 4))]],
                        xtype=rng.choice(['int', 'np.int64', 'np.int16'])))
    return out


def _o_sim(case):
    scratch = tempfile.mkdtemp(prefix='c05_replay_')
    try:
        _, obs = run_impl(case, scratch)
    finally:
        shutil.rmtree(scratch, ignore_errors=True)
    return oracle_sim(case, obs)


def _o_grid(case):
    _, obs = run_grid_impl(case)
    return oracle_grid(case, obs)


def _first(viols, call):
    for c, cls, d in viols:
        if c == call:
            return cls, d
    return None


def _o_hist(case):
    scratch = tempfile.mkdtemp(prefix='c05_replay_')
    try:
        _, obs = run_hist_impl(case, scratch)
    finally:
        shutil.rmtree(scratch, ignore_errors=True)
    return oracle_hist(case, obs)


def run_any(case, scratch):
    """(canonical string, violations) of one case on the real code. An exception raised by the LIBRARY on an
    input the property covers is a failing input, not an infrastructure error."""
    kind = case.get('kind')
    try:
        if kind == 'r15file':
            return run_r15file(case, scratch)
        if kind == 'r16res':
            return run_r16res(case)
        if kind == 'r16arr':
            return run_r16arr(case)
        if kind == 'grid':
            impl, obs = run_grid_impl(case)
            return impl, obs, oracle_grid(case, obs)
        if kind == 'hist':
            impl, obs = run_hist_impl(case, scratch)
            return impl, obs, oracle_hist(case, obs)
        if kind == 'mrg':
            impl, obs = run_mrg_impl(case)
            return impl, obs, oracle_mrg(case, obs)
        impl, obs = run_impl(case, scratch)
        return impl, obs, oracle_sim(case, obs)
    except core.Infra:
        raise
    except Exception as e:
        import traceback
        tb = traceback.extract_tb(e.__traceback__)
        where = [f for f in tb if '/pyphysim/' in f.filename]
        loc = '%s:%d' % (os.path.basename(where[-1].filename), where[-1].lineno) if where else \
            '%s:%d' % (os.path.basename(tb[-1].filename), tb[-1].lineno)
        call = {'grid': 'SimulationParameters.get_pack_indexes', 'mrg': 'SimulationResults.merge_all_results'}.get(
            kind, 'SimulationRunner.simulate')
        return 'exception:%s' % type(e).__name__, None, [
            (call, tag_class(case, 'library-exception:' + type(e).__name__), '%r at %s' % (e, loc))]


def _violations(case):
    scratch = tempfile.mkdtemp(prefix='c05_replay_')
    try:
        return run_any(case, scratch)[2]
    finally:
        shutil.rmtree(scratch, ignore_errors=True)


def _mk(call):
    def f(case):
        return _first(_violations(case), call)
    return f


ORACLES = {c: _mk(c) for c in ('SimulationRunner.simulate', 'SimulationResults.get_result_values_list',
                               'SimulationParameters.get_pack_indexes',
                               'SimulationParameters.get_unpacked_params_list',
                               'SimulationParameters.get_num_unpacked_variations',
                               'SimulationResults.merge_all_results', 'SimulationParameters.add', 'Result.update',
                               'SimulationParameters.remove', 'SimulationParameters.set_unpack_parameter')}


def replay(ctx, rep):
    case = rep['case']
    viols = _violations(case)
    return any(c == rep['call'] and cls == rep['class'] for c, cls, d in viols)


# ------------------------------------------------------------------ generators
def gen_grid(rng, max_params=3, max_len=4, dup_p=0.12, empty_p=0.04):
    k = rng.choice([0, 1, 1, 2, 2, 2, 3, 3]) if max_params >= 3 else rng.randint(0, max_params)
    pool = list(NAME_POOL)
    rng.shuffle(pool)
    names = pool[:k]
    vals = {}
    for nm in names:
        ln = 0 if rng.chance(empty_p) else rng.randint(1, max_len)
        base = list(range(-3, 12))
        rng.shuffle(base)
        v = base[:ln]
        if ln >= 2 and rng.chance(dup_p):
            v[rng.below(ln)] = v[rng.below(ln)]
        vals[nm] = v
    return names, vals


def gen_looks(rng, names, vals, count):
    looks = []
    for _ in range(count):
        fx = []
        cand = list(names)
        rng.shuffle(cand)
        for nm in cand[:rng.randint(0, len(cand))]:
            if vals[nm] and not rng.chance(0.08):
                fx.append((nm, rng.choice(vals[nm])))
            else:
                fx.append((nm, 99))          # a value that is not in the grid
        if rng.chance(0.25) or not fx:
            fx.append((FIXED_EXTRA, FIXED_EXTRA_VALUE))   # a fixed (never unpacked) parameter
        rng.shuffle(fx)
        looks.append(fx)
    return looks


def gen_rule(rng, repmax):
    k = rng.below(10)
    if k < 3:
        return 'always'
    if k < 5:
        return 'sumlt:%d' % rng.randint(-2, 12)
    if k < 6:
        return 'replt:%d' % rng.randint(0, repmax + 2)
    if k < 7:
        return 'skiplt:%d' % rng.randint(0, 3)
    m, n = rng.randint(1, 4), rng.randint(1, 4)
    bits = ''.join('1' if rng.chance(0.7) else '0' for _ in range(m * n))
    return 'tbl:%d:%d:%s' % (m, n, bits)


def gen_case(rng):
    names, vals = gen_grid(rng)
    nvar = 1
    for nm in names:
        nvar *= len(vals[nm])
    repmax = rng.randint(1, 8)
    keep = [gen_rule(rng, repmax) for _ in range(rng.choice([1, 1, 2, 3]))]
    file = rng.chance(0.5)
    ops = []
    for _ in range(rng.choice([1, 1, 2, 3])):
        if rng.chance(0.7):
            ops.append('all')
        else:
            ops.append('single:%d' % rng.randint(-1, max(nvar, 1)))
    skip_p = rng.choice([0.0, 0.1, 0.3, 0.5])
    need = min(400, (repmax + 3) * max(nvar, 1) * len(ops) * 2 + 6)
    if rng.chance(0.06):
        need = rng.randint(0, max(1, need // 3))        # a script that runs out
    outs = []
    for _ in range(need):
        outs.append('s' if rng.chance(skip_p) else rng.randint(-3, 6))
    look = gen_looks(rng, names, vals, rng.randint(0, 3))
    return dict(kind='sim', names=names, vals=vals, repmax=repmax, file=file, keep=keep, ops=ops, outs=outs,
                look=look, xr=gen_xr(rng) if rng.chance(0.6) else [],
                xtype=rng.choice(['int', 'int', 'np.int64', 'np.int16']))


def classify(case, obs):
    """non-triviality key: grid shape, how the variations stopped, skips present"""
    dims = tuple(sorted(len(case['vals'][n]) for n in case['names']))
    stops = set()
    for ob in obs['ops']:
        if isinstance(ob['reps'], list):
            for r in ob['reps']:
                stops.add('limit' if r >= case['repmax'] else 'rule')
        elif ob['status'] == 'ok':
            stops.add('limit' if ob['reps'] >= case['repmax'] else 'rule')
    skips = any(c[2] == 's' for ob in obs['ops'] for c in ob['calls'])
    return dims, tuple(sorted(stops)), skips, case['file'], tuple(o.split(':')[0] for o in case['ops'])


# ------------------------------------------------------------------ the check
def run_cases(ctx, cases, name='simulate'):
    drv = core.Driver(DRIVER)
    for lo in range(0, len(cases), 2000):
        chunk = cases[lo:lo + 2000]
        model = drv.ask([grid_line(c) if c['kind'] == 'grid' else hist_line(c) if c['kind'] == 'hist'
                         else mrg_line(c) if c['kind'] == 'mrg' else case_line(c) for c in chunk])
        for c, m in zip(chunk, model):
            impl, obs, viols = run_any(c, ctx.scratch)
            if obs is None:
                # the library raised on an input the property covers: a failing input
                ctx.corr('library-call:' + c['kind'], c, impl, m, nontrivial=False)
                ctx.branch('library-exception')
                for call, cls, detail in viols:
                    ctx.fail(call, cls, c, detail)
                continue
            if c['kind'] == 'mrg':
                key = ('mrg', tuple(t.split(':')[0] for t in c['xr']), tuple(len(g) for g in c['groups']),
                       c['start'], c['append'])
                ctx.corr('merge_all_results+append_all_results', c, impl, m,
                         nontrivial=any(len(g) >= 2 for g in c['groups']), key=key)
                ctx.branch('mrg')
                ctx.branch('mrg:start=' + c['start'])
                ctx.branch('mrg:append=' + c['append'])
                for t in c['xr']:
                    ctx.branch('xr:' + t.split(':')[0])
                    ctx.branch('xr:form=' + t.split(':')[2])
                ctx.sample({'line': mrg_line(c)[:300], 'impl': impl[:300], 'model': m[:300]}, limit=10)
            elif c['kind'] == 'grid':
                key = ('grid', tuple(sorted(len(c['vals'][n]) for n in c['names'])), len(c['look']),
                       tuple(sorted(k for fx in c['look'] for k, _ in fx)))
                ctx.corr('get_unpacked_params_list+get_pack_indexes', c, impl, m,
                         nontrivial=len(c['names']) >= 1, key=key)
                ctx.branch('grid:params=%d' % len(c['names']))
                if any(k == 'error' for k, _ in obs['pack']):
                    ctx.branch('grid:pack-error')
            elif c['kind'] == 'hist':
                kinds = [o.split(':')[0] for o in c['ops']]
                # look-ups that follow a mutation of the parameter set, and whether a simulate() came between
                shape = []
                mutated = False
                for k in kinds:
                    if k.startswith('p'):
                        mutated = True
                        shape.append('m')
                    elif k == 'all':
                        shape.append('s')
                    elif mutated:
                        shape.append('q')
                key = ('hist', tuple(sorted(len(c['vals'][n]) for n in c['names'])), ''.join(shape)[:12])
                ctx.corr('history-with-parameter-mutations', c, impl, m, nontrivial='q' in shape, key=key)
                ctx.branch('hist')
                if 'mq' in ''.join(shape):
                    ctx.branch('hist:lookup-right-after-mutation')
                if 'msq' in ''.join(shape) or 'ms' in ''.join(shape) and 'q' in ''.join(shape).split('ms', 1)[1]:
                    ctx.branch('hist:mutate-simulate-lookup')
                for k in kinds:
                    if k.startswith('p'):
                        ctx.branch('hist:' + k)
                for ob in obs['ops']:
                    if ob['kind'] == 'p' and ob['status'] != 'ok':
                        ctx.branch('hist:rejected-' + ob['status'])
                ctx.sample({'line': hist_line(c)[:400], 'impl': impl[:400], 'model': m[:400]}, limit=8)
                seen_rmax = False
                sims = 0
                for k, ob in zip(kinds, obs['ops']):
                    if k in ('rmax', 'file', 'del', 'single', 'hq'):
                        ctx.branch('hist:' + k)
                    if k == 'rmax' and sims:
                        seen_rmax = True
                    if k in ('all', 'single'):
                        if seen_rmax and ob.get('status') == 'ok' and ob.get('calls'):
                            ctx.branch('R7:simulate-after-rep_max-change')
                            seen_rmax = False
                        sims += 1
                        if ob.get('twin') is not None:
                            ctx.branch('R7:fresh-runner-twin')
                        d = ob['cfg']['content'][0]
                        if 'rep_max' in d and d['rep_max'] != ob['cfg']['repmax'] and ob.get('calls'):
                            ctx.branch('R7:rep_max-entry-in-params-differs')
                        if ob['cfg']['file'] and ob['cfg']['delete']:
                            ctx.branch('R7:delete-partial-results')
                    if 'rejected_changed' in ob:
                        ctx.branch('R4:rejected-call-checked')
                    if k == 'q':
                        ctx.branch('R7:lookup-vs-fresh-object')
                    if k == 'nq':
                        ctx.branch('R11:non-mutating-calls-checked')
                if obs.get('held'):
                    ctx.branch('R3:held-results-requeried')
                ctx.branch('R3:snapshots-compared')
            else:
                key = classify(c, obs)
                ctx.corr(name, c, impl, m, nontrivial=bool(key[1]), key=key)
                for ob in obs['ops']:
                    ctx.branch('status:' + ob['status'])
                for st in key[1]:
                    ctx.branch('stop:' + st)
                if key[2]:
                    ctx.branch('skips')
                ctx.branch('params=%d' % len(c['names']))
                if c['file'] and len(c['ops']) > 1:
                    ctx.branch('resume-from-partial-file')
                if len(c['ops']) > 1 and not c['file']:
                    ctx.branch('repeated-simulate-no-file')
                if any(o.startswith('single') for o in c['ops']):
                    ctx.branch('single-variation')
                for kind, _ in obs['look']:
                    ctx.branch('lookup:' + kind)
                ctx.sample({'line': case_line(c)[:300], 'impl': impl[:300], 'model': m[:300]}, limit=5)
                if any('rejected_changed' in ob for ob in obs['ops']):
                    ctx.branch('R4:rejected-call-checked')
                ctx.branch('R3:snapshots-compared')
            if c['kind'] in ('sim', 'hist') and c.get('xr'):
                ctx.branch('xr:in-' + c['kind'])
                for t in c['xr']:
                    ctx.branch('xr:' + t.split(':')[0])
                    ctx.branch('xr:form=' + t.split(':')[2])
            if c.get('rclass'):
                ctx.branch(c['rclass'])
                ctx.branch('%s:%s' % (c['rclass'], c['kind']))
                for bit in mat_desc(c).split(','):
                    ctx.branch('%s:%s' % (c['rclass'], bit.split('=')[0] if '=' in bit else bit.split(':')[0]))
                if c.get('argform') is not None:
                    ctx.branch('R8:argument-forms')
                if c.get('xorder') is not None:
                    ctx.branch('R12:insertion-order')
                if c['rclass'] == 'R9' and (c.get('mat') or {}).get('index'):
                    ctx.branch('R9:index=' + c['mat']['index'])
            if c['kind'] == 'grid' and obs.get('r13') is not None:
                ctx.branch('R13:derived-objects-checked')
            if c.get('rclass') in ('R15', 'R16'):
                r15_r16_branches(ctx, c, obs)
            seen = set()
            for call, cls, detail in viols:
                if (call, cls) not in seen:
                    seen.add((call, cls))
                    ctx.fail(call, cls, c, detail)
                    ctx.branch('oracle-fail:%s:%s' % (call, cls))
            if not viols:
                ctx.branch('oracle-ok')


def r15_r16_branches(ctx, c, obs):
    m = c.get('mat') or {}
    refused = False
    if c['kind'] == 'hist':
        refused = any(ob.get('kind') == 'q' and ob.get('q', {}).get('pack') == ('error', 'ValueError')
                      for ob in obs['ops'])
    elif c['kind'] == 'sim':
        refused = ('error', 'ValueError') in obs['look']
    elif c['kind'] == 'grid':
        refused = ('error', 'ValueError') in obs['pack']
    if c['rclass'] == 'R15':
        for kd in set(m.get('params', {}).values()):
            ctx.branch('R15:family=' + kd.split(':')[1])
        if m.get('outs'):
            ctx.branch('R15:outs=' + m['outs'].split(':')[0])
        if c.get('r15setter'):
            ctx.branch('R15:setter-called-with-a-close-value')
        if refused:
            ctx.branch('R15:close-but-absent-value-refused')
    else:
        if obs.get('nrefills'):
            ctx.branch('R16:container-refilled-in-place')
            if any(len(ob.get('refilled', [])) > 1 for ob in obs['ops']):
                ctx.branch('R16:same-container-for-two-parameters')
            ctx.branch('R16:earlier-variations-rechecked')
        if m.get('share'):
            ctx.branch('R16:one-object-in-two-roles')
        nlook = len(c['look']) if c['kind'] != 'hist' else sum(1 for o in c['ops'] if o.startswith(('q:', 'hq:')))
        if nlook >= 2:
            ctx.branch('R16:fixed-values-dictionary-reused')
            if m.get('fixed') == '0d':
                ctx.branch('R16:fixed-value-buffers-reused')
        if m.get('index') == '0d' and sum(1 for o in c.get('ops', []) if o.startswith('single')) >= 2:
            ctx.branch('R16:index-buffer-reused')


def run_oracle_only(ctx, cases):
    """R15 / R16 scenarios that lie outside the model (partial results on disk after a value was replaced by a
    close one; the results API with one object in two roles; array-valued results): first principles only"""
    for c in cases:
        impl, obs, viols = run_any(c, ctx.scratch)
        ctx.count((c['kind'], c.get('fam'), repr(c.get('change')), c.get('second'), repr(c.get('xr')), impl),
                  obs is not None and bool(obs.get('checked')))
        ctx.branch('%s:%s' % (c['rclass'], c['kind']))
        if c['kind'] == 'r15file' and obs is not None:
            ctx.branch('R15:family=' + c['fam'])
            if obs.get('status') == 'ValueError':
                ctx.branch('R15:partial-results-of-a-close-value-refused')
            elif obs.get('status') == 'ok' and obs.get('checked'):
                ctx.branch('R15:unchanged-variation-resumed')
        seen = set()
        for call, cls, detail in viols:
            if (call, cls) not in seen:
                seen.add((call, cls))
                ctx.fail(call, cls, c, detail)
                ctx.branch('oracle-fail:%s:%s' % (call, cls))
        if not viols:
            ctx.branch('oracle-ok')


def r15_r16_fixed_cases():
    """seed-independent R15 / R16 scenarios (quick and thorough)"""
    out = []
    outs = [1, 2, 's', 3, -1, 0, 4, 2] * 12
    for k, fam in enumerate(R15_FAMS):
        ko = R15_OUTS[k % len(R15_OUTS)]
        kind = 'close:' + fam
        out.append(dict(kind='grid', rclass='R15', names=['b', 'a'], vals={'a': [3, 4, 5], 'b': [7, 8]},
                        look=[[('a', 3)], [('a', 4)], [('a', 5)], [('a', 6)], [('a', 2)], [('b', 8), ('a', 4)],
                              [('b', 9)], [('b', 7)]],
                        mat={'params': {'a': kind, 'b': kind + ':arr'}, 'fixed': ['pyfloat', 'same', '0d'][k % 3]}))
        out.append(dict(kind='hist', rclass='R15', names=['a'], vals={'a': [3, 4]}, repmax=2, keep=['always'],
                        ops=['all', 'q:a:4', 'padd:a:4.5', 'q:a:4', 'q:a:3', 'q:a:5', 'all', 'hq:a:5', 'padd:a:5.6',
                             'q:a:5', 'q:a:4', 'all', 'q:a:6'],
                        outs=outs, file=False, look=[], xr=[], r15setter=True,
                        mat={'params': {'a': kind + (':arr' if k % 2 else '')}, 'new': [kind + (':arr' if k % 2 else '')],
                             'fixed': ['same', 'np.float64'][k % 2], 'outs': ko}))
        out.append(dict(kind='sim', rclass='R15', names=['a'], vals={'a': [3, 4, 5]}, repmax=3,
                        keep=[['always'], ['sumlt:4'], ['replt:2']][k % 3], file=bool(k % 2), ops=['all', 'all'],
                        outs=outs, look=[[('a', 3)], [('a', 4)], [('a', 5)], [('a', 6)]], xr=[],
                        mat={'params': {'a': kind}, 'fixed': 'pyfloat', 'outs': R15_OUTS[(k + 3) % len(R15_OUTS)]}))
    r16 = {'reuse': True, 'fixed': '0d', 'index': '0d'}
    out.append(dict(kind='hist', rclass='R16', names=['a'], vals={'a': [5, 6, 7]}, repmax=2, keep=['always'],
                    ops=['q:a:6', 'pfill:a:6.7.5', 'q:a:6', 'all', 'hq:a:6', 'pfill:a:7.5.6', 'q:a:6', 'all', 'q:a:5',
                         'pfill:a:9.5.6', 'hq:a:9', 'q:a:7'],
                    outs=outs, file=False, look=[], xr=[], mat=dict(r16, params={'a': 'int64'}, new=['int64'])))
    out.append(dict(kind='hist', rclass='R16', names=['a', 'b'], vals={'a': [1, 2], 'b': [1, 2]}, repmax=1,
                    keep=['always'],
                    ops=['all', 'q:a:1+b:2', 'pfill:a+b:2.3', 'q:a:2+b:3', 'q:a:1', 'all', 'q:a:3', 'pfill:a+b:4.2',
                         'all', 'hq:b:4'],
                    outs=outs, file=False, look=[], xr=[],
                    mat=dict(r16, params={'a': 'float64', 'b': 'float64'}, new=['float64'], share=['a', 'b'],
                             fixed='pyfloat')))
    out.append(dict(kind='hist', rclass='R16', names=['a'], vals={'a': [1, 2]}, repmax=2, keep=['sumlt:3'],
                    ops=['q:a:2', 'pfill:a:4.5.6', 'q:a:5', 'all', 'pfill:a:9', 'all', 'q:a:9', 'pfill:a:', 'q:fx0:7',
                         'pfill:a:3.1', 'all', 'q:a:1'],
                    outs=outs, file=False, look=[], xr=['M1:1:ctor'],
                    mat=dict(r16, params={'a': 'list'}, new=['list'], fixed='same')))
    out.append(dict(kind='sim', rclass='R16', names=['a'], vals={'a': [1, 2, 3]}, repmax=2, keep=['always'], file=True,
                    ops=['single:0', 'single:2', 'single:0', 'single:1', 'all'], outs=outs,
                    look=[[('a', 2)], [('a', 3)], [('a', 1)], [('a', 9)], [('a', 3)]], xr=[],
                    mat=dict(r16, params={'a': 'strided'})))
    out.append(dict(kind='grid', rclass='R16', names=['b', 'a'], vals={'a': [1, 2, 3], 'b': [1, 2, 3]},
                    look=[[('a', 2)], [('a', 3), ('b', 1)], [('b', 2)], [('a', 9)], [('a', 1), ('b', 3)]],
                    mat=dict(params={'a': 'int64', 'b': 'int64'}, share=['a', 'b'], reuse=True, fixed='0d')))
    return out


def corpus_cases():
    """boundary scenarios that always run (independent of the seed)"""
    out = []
    base = dict(kind='sim', names=['b', 'a'], vals={'a': [1, 2], 'b': [5, 6, 7]}, repmax=3, file=False,
                keep=['always'], ops=['all'], outs=[1] * 40, look=[[('a', 2)], [('b', 6), ('a', 1)], [('b', 9)]])
    out.append(base)
    out.append(dict(base, outs=[1, 's', 's', 2, 3] + [1, 's'] * 30))
    out.append(dict(base, repmax=1, outs=[4] * 10))
    out.append(dict(base, keep=['sumlt:2', 'always'], outs=[1] * 40))
    out.append(dict(base, file=True, ops=['all', 'all']))
    out.append(dict(base, file=False, ops=['all', 'all']))
    out.append(dict(base, file=True, ops=['single:4', 'single:4', 'all'], outs=[2, 's', 1] * 20))
    out.append(dict(base, file=False, ops=['single:1']))
    out.append(dict(base, file=True, ops=['single:6', 'single:-1']))
    out.append(dict(base, names=[], vals={}, look=[], ops=['all', 'all']))
    out.append(dict(base, names=[], vals={}, look=[], file=True, ops=['single:0', 'all']))
    out.append(dict(base, names=['a'], vals={'a': []}, look=[]))
    out.append(dict(base, outs=[1, 2]))
    out.append(dict(base, keep=['skiplt:2'], file=True, ops=['all', 'all'], outs=[1, 's', 's', 1] * 20))
    d = os.path.join(core.VERIF, 'corpus', 'c05')
    if os.path.isdir(d):
        for fn in sorted(os.listdir(d)):
            if fn.endswith('.json'):
                with open(os.path.join(d, fn)) as f:
                    out.append(json.load(f)['case'])
    return out


def big_cases(quick):
    """R14: counts of 257 / 258 / 300 (and 2^16 + 1 in thorough): variations, extra results, parameters,
    repetitions; indexes above 256"""
    out = []
    a300 = list(range(300))
    out.append(dict(kind='sim', rclass='R14', names=['a'], vals={'a': a300}, repmax=1, file=True, keep=['always'],
                    ops=['all', 'single:257', 'single:299', 'single:300'], outs=[1, 2, 's', 3] * 110,
                    look=[[('a', 257)], [('a', 299)], [('a', 0)], [('a', 300)]], xr=['M1:1:ctor', 'S1:1:create'],
                    mat={'index': 'np.int16'}))
    out.append(dict(kind='sim', rclass='R14', names=['b', 'a'], vals={'a': list(range(17)), 'b': list(range(100, 116))},
                    repmax=1, file=False, keep=['always'], ops=['all'], outs=[2] * 280,
                    look=[[('a', 16)], [('b', 115), ('a', 16)], [('b', 100)]], xr=[]))
    out.append(dict(kind='sim', rclass='R14', names=[], vals={}, repmax=300, file=False, keep=['always'], ops=['all'],
                    outs=([1, 's', 2, 3] * 120), look=[], xr=['M1:1:ctor', 'C1:1:ctor'], mat={'repmax': 'np.int16'}))
    many = ['%s%d:1:ctor' % (XTYPES[j % 4], j % 2) for j in range(258)]
    out.append(dict(kind='mrg', rclass='R14', xr=many, groups=[[1, 2, 3], [4, 5]], start='empty', append='all',
                    xorder=5))
    out.append(dict(kind='sim', rclass='R14', names=['a'], vals={'a': [1, 2]}, repmax=2, file=False, keep=['always'],
                    ops=['all'], outs=[1, 2, 3, 4, 5], look=[], xr=many, xorder=3))
    out.append(dict(kind='grid', rclass='R14', names=['c', 'a', 'b'], nfixed=258,
                    vals={'a': list(range(7)), 'b': list(range(10, 17)), 'c': list(range(20, 27))},
                    look=[[('a', 6), ('b', 16)], [('c', 26)], [('a', 6), ('b', 16), ('c', 26)], [('p007', 7)]]))
    if not quick:
        big = list(range(65537))
        out.append(dict(kind='grid', rclass='R14', names=['a'], vals={'a': big},
                        look=[[('a', 65536)], [('a', 257)], [('a', 65537)]]))
        out.append(dict(kind='grid', rclass='R14', names=['b', 'a'], vals={'a': list(range(258)), 'b': list(range(257))},
                        look=[[('a', 257)], [('b', 256)], [('a', 257), ('b', 256)]]))
        out.append(dict(kind='sim', rclass='R14', names=['a'], vals={'a': list(range(450))}, repmax=1, file=False,
                        keep=['always'], ops=['all'], outs=[1] * 460, look=[[('a', 449)], [('a', 256)]], xr=[]))
    return out


def grid_cases(rng, count):
    out = []
    for _ in range(count):
        names, vals = gen_grid(rng)
        out.append(dict(kind='grid', names=names, vals=vals, look=gen_looks(rng, names, vals, rng.randint(1, 4))))
    return out


def exhaustive_cases(max_bits, repmaxes, shape_bits=None):
    """every outcome mask of length <= max_bits (padded with successes) on four grids and three stop
    rules; with `shape_bits`: additionally every grid shape with 0-3 parameters of lengths 1-3 and every
    mask of length <= shape_bits"""
    out = []

    def add(names, vals, repmax, keep, bits, file=False, ops=('all',)):
        for mask in range(1 << bits):
            outs = ['s' if (mask >> i) & 1 else 1 + (i % 3) for i in range(bits)]
            nvar = 1
            for nm in names:
                nvar *= len(vals[nm])
            outs += [2] * ((repmax + 1) * nvar * len(ops))
            out.append(dict(kind='sim', names=names, vals=vals, repmax=repmax, file=file, keep=keep,
                            ops=list(ops), outs=outs, look=[],
                            xr=['M1:1:ctor', 'S1:1:create', 'R1:2:ctor', 'C1:1:create', 'M0:2:addnew', 'M1:2:create']))

    grids = [([], {}), (['a'], {'a': [1, 2]}), (['b', 'a'], {'a': [1, 2], 'b': [3, 4]}),
             (['a', 'c', 'b'], {'a': [1], 'b': [2, 3], 'c': [4, 5]})]
    for names, vals in grids:
        for repmax in repmaxes:
            for keep in (['always'], ['sumlt:3'], ['skiplt:1', 'always']):
                for bits in range(max_bits + 1):
                    add(names, vals, repmax, keep, bits)
    if shape_bits is not None:
        pool = ['b', 'a', 'C']
        for k in range(4):
            for lens in itertools.product((1, 2, 3), repeat=k):
                names = pool[:k]
                vals = {nm: list(range(10 * j, 10 * j + ln)) for j, (nm, ln) in enumerate(zip(names, lens))}
                for repmax in (1, 2, 3):
                    for keep in (['always'], ['sumlt:4']):
                        for bits in range(shape_bits + 1):
                            add(names, vals, repmax, keep, bits)
                # one resumed history per shape
                add(names, vals, 2, ['always'], 3, file=True, ops=('all', 'all'))
    return out


def check(ctx):
    ctx.rule = ('scenario = parameter grid (0-3 unpacked parameters, lengths 0-4, unsorted names, occasional '
                'duplicate values) x rep_max 1-8 x per-variation _keep_going rules (always / sum threshold / rep / '
                'skip counter / truth table of (sum mod m, rep mod n)) x global outcome stream (values and '
                'SkipThisOne, occasionally too short) x history of simulate() / simulate(index) calls on one runner '
                'with and without a results file x lookups by fixed values; plus histories on ONE runner / ONE parameters '
                'object interleaving simulate(), look-ups and mutations of the parameter set (value list replaced by one '
                'of another length, parameters added / removed, set_unpack_parameter on/off, rejected calls), every '
                'look-up also made on a freshly built object with the same content; non-trivial = distinct (sorted grid '
                'shape, set of stop reasons limit/rule, skips present, file, op kinds) with at least one completed '
                'variation')
    quick = ctx.tier == 'quick'
    core.prove(ctx, MODULE, generated=GENERATED, drivers=[DRIVER], scratch=ctx.scratch)
    ctx.required_branches = ['stop:limit', 'stop:rule', 'skips', 'params=0', 'params=1', 'params=2', 'params=3',
                             'resume-from-partial-file', 'repeated-simulate-no-file', 'single-variation',
                             'lookup:ok', 'grid:pack-error', 'status:Exhausted', 'status:RuntimeError',
                             'hist:lookup-right-after-mutation', 'hist:mutate-simulate-lookup', 'hist:padd',
                             'hist:prem', 'hist:punp', 'hist:pscalar', 'hist:rmax', 'hist:file', 'hist:del',
                             'hist:single', 'hist:hq',
                             'R1', 'R1:sim', 'R1:grid', 'R1:hist', 'R1:fixed', 'R1:outs', 'R1:repmax', 'R1:index',
                             'R1:int8', 'R1:uint8', 'R1:int16', 'R1:uint16', 'R1:int32', 'R1:int64', 'R1:float16',
                             'R1:float32', 'R1:complex64', 'R1:tuple', 'R1:npscalars',
                             'R2', 'R2:sim', 'R2:grid', 'R2:hist', 'R2:rev', 'R2:strided', 'R2:col', 'R2:fcol',
                             'R2:rows2', 'R2:rows2T', 'R2:bcast2', 'R2:rows3d', 'R2:readonly',
                             'R3:snapshots-compared', 'R3:held-results-requeried', 'R4:rejected-call-checked',
                             'R5', 'R5:none', 'R5:floatlist', 'R6', 'R6:scale', 'R6:outs',
                             'R7:fresh-runner-twin', 'R7:simulate-after-rep_max-change',
                             'R7:rep_max-entry-in-params-differs', 'R7:delete-partial-results',
                             'R7:lookup-vs-fresh-object',
                             'R8', 'R8:sim', 'R8:grid', 'R8:hist', 'R8:argument-forms', 'R9', 'R9:sim', 'R9:hist',
                             'R9:index=np.int8', 'R9:index=np.uint8', 'R9:index=np.uint16', 'R9:index=np.int32',
                             'R9:index=np.uint64', 'R9:index=np.intp', 'R9:index=0d', 'R9:index=bool',
                             'R10', 'R10:mixed', 'R10:outs', 'R11:non-mutating-calls-checked', 'R12',
                             'R12:insertion-order', 'R13:derived-objects-checked', 'R14', 'R14:sim', 'R14:grid',
                             'R14:mrg',
                             'R15', 'R15:sim', 'R15:grid', 'R15:hist', 'R15:r15file', 'R15:close', 'R15:outs',
                             'R15:family=tiny', 'R15:family=rel', 'R15:family=adj', 'R15:family=dec12',
                             'R15:family=thr', 'R15:outs=aff', 'R15:outs=m', 'R15:setter-called-with-a-close-value',
                             'R15:close-but-absent-value-refused', 'R15:partial-results-of-a-close-value-refused',
                             'R15:unchanged-variation-resumed',
                             'R16', 'R16:sim', 'R16:grid', 'R16:hist', 'R16:r16res', 'R16:r16arr',
                             'R16:container-refilled-in-place', 'R16:same-container-for-two-parameters',
                             'R16:one-object-in-two-roles', 'R16:earlier-variations-rechecked',
                             'R16:fixed-values-dictionary-reused', 'R16:fixed-value-buffers-reused',
                             'R16:index-buffer-reused', 'hist:pfill',
                             'mrg', 'mrg:start=empty', 'mrg:start=first', 'mrg:start=result', 'mrg:append=all',
                             'mrg:append=result', 'xr:in-sim', 'xr:in-hist', 'xr:S0', 'xr:S1', 'xr:R0', 'xr:R1',
                             'xr:M0', 'xr:M1', 'xr:C0', 'xr:C1', 'xr:form=ctor', 'xr:form=create',
                             'xr:form=addnew']
    cases = corpus_cases()
    rng = ctx.rng.fork('sim')
    cases += [gen_case(rng) for _ in range(1100 if quick else 11000)]
    cases += grid_cases(ctx.rng.fork('grid'), 3000 if quick else 60000)
    hrng = ctx.rng.fork('hist')
    cases += [gen_hist(hrng) for _ in range(500 if quick else 3500)]
    cases += [gen_hist2(hrng) for _ in range(400 if quick else 3000)]
    mrng = ctx.rng.fork('mrg')
    cases += [gen_mrg(mrng) for _ in range(1000 if quick else 12000)]
    rrng = ctx.rng.fork('robust')
    for rc in ('R1', 'R2', 'R5', 'R6'):
        cases += [gen_rcase(rrng, rc) for _ in range(200 if quick else 1400)]
    for rc in ('R8', 'R9', 'R10', 'R12'):
        cases += [gen_rcase(rrng, rc) for _ in range(150 if quick else 900)]
    r15rng = ctx.rng.fork('R15-R16')
    cases += r15_r16_fixed_cases()
    for rc in ('R15', 'R16'):
        cases += [gen_rcase(r15rng, rc) for _ in range(130 if quick else 1400)]
    extra = r15file_cases(r15rng, 10 if quick else 400) + r16res_cases(r15rng, 10 if quick else 400)
    cases += big_cases(quick)
    if quick:
        cases += exhaustive_cases(4, (1, 2))
    else:
        cases += exhaustive_cases(9, (1, 2, 3, 4), shape_bits=5)
        ctx.extra['exhaustive_small_scope'] = (
            'every outcome mask of length <= 9 x rep_max 1..4 x 3 stop rules x 4 grids; every grid shape with '
            '0-3 parameters of lengths 1-3 x rep_max 1..3 x 2 stop rules x every mask of length <= 5 '
            '(the seeded part of the run is not exhaustive)')
    run_oracle_only(ctx, extra)
    try:
        run_cases(ctx, cases)
    except core.Infra as e:
        if not ctx.broken:
            raise
        ctx.notes.append('correspondence skipped: %s' % e)
        ctx.required_branches = []


def search(ctx):
    """deeper failing-input search on the implementation (oracles only; no model needed)"""
    rng = ctx.rng.fork('search')
    cases = corpus_cases() + [gen_case(rng) for _ in range(1500)] + grid_cases(rng, 3000) \
        + [gen_hist(rng) for _ in range(1000)] + [gen_hist2(rng) for _ in range(1000)] \
        + [gen_rcase(rng, rc) for rc in ('R1', 'R2', 'R5', 'R6') for _ in range(300)] + exhaustive_cases(5, (1, 2))
    cases += [gen_mrg(rng) for _ in range(3000)]
    cases += r15_r16_fixed_cases() + [gen_rcase(rng, rc) for rc in ('R15', 'R16') for _ in range(400)] \
        + r15file_cases(rng, 200) + r16res_cases(rng, 100)
    for c in cases:
        viols = run_any(c, ctx.scratch)[2]
        ctx.count(('search', len(ctx.distinct)), False)
        seen = set()
        for call, cls, detail in viols:
            if (call, cls) not in seen:
                seen.add((call, cls))
                ctx.fail(call, cls, c, detail)
